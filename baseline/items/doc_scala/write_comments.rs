fn write_comments(
        &mut self,
        w: &mut dyn Write,
        indent: usize,
        comments: &[String],
    ) -> std::io::Result<()> {
        comments
            .iter()
            .try_for_each(|comment| self.write_comment(w, indent, comment))
    }