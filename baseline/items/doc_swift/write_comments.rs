fn write_comments(
        &mut self,
        w: &mut dyn Write,
        indent: usize,
        comments: &[String],
    ) -> io::Result<()> {
        comments
            .iter()
            .try_for_each(|c| self.write_comment(w, indent, c))
    }