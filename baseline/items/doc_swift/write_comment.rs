fn write_comment(&mut self, w: &mut dyn Write, indent: usize, comment: &str) -> io::Result<()> {
        // Doc text may span several lines: every line has to carry the comment marker.
        for line in comment.trim_end().split(|c| c == '\n' || c == '\r') {
            writeln!(w, "{}/// {}", "\t".repeat(indent), line.trim_end())?;
        }
        Ok(())
    }