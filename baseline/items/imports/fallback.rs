        // Find a type of that name that does not belong to the current crate.
        if let Some((crate_name, ty)) = all_types
            .iter()
            .flat_map(|(k, v)| {
                v.iter()
                    .find(|&t| t == &referenced_import.type_name && k != &data.crate_name)
                    .map(|t| (k, t))
            })
            // The map has no order of its own: always settle on the same crate.
            .min_by(|a, b| a.0.cmp(b.0))
        {
            warn!("Warning: Using {crate_name} as module for {ty} which is not in referenced crate {}", referenced_import.base_crate);
            used.entry(crate_name)
                .and_modify(|v| {
                    v.insert(ty.as_str());
                })
                .or_insert(BTreeSet::from([ty.as_str()]));
        } else {
            // println!("Could not lookup reference {referenced_import:?}");
        }
    