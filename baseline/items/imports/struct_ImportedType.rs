pub struct ImportedType {
    /// Crate this type belongs to.
    pub base_crate: CrateName,
    /// Type name.
    pub type_name: String,
}