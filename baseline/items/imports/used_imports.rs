fn used_imports<'a, 'b: 'a>(
    data: &'b ParsedData,
    all_types: &'a CrateTypes,
) -> ScopedCrateTypes<'a> {
    let mut used_imports = BTreeMap::new();

    // If we have reference that is a re-export we can attempt to find it with the
    // following heuristic.
    let fallback = |referenced_import: &'a ImportedType, used: &mut ScopedCrateTypes<'a>| {
        // Find a type of that name that does not belong to the current crate.
        if let Some((crate_name, ty)) = all_types
            .iter()
            .flat_map(|(k, v)| {
                v.iter()
                    .find(|&t| t == &referenced_import.type_name && k != &data.crate_name)
                    .map(|t| (k, t))
            })
            // The map has no order of its own: always settle on the same crate.
            .min_by(|a, b| a.0.cmp(b.0))
        {
            warn!("Warning: Using {crate_name} as module for {ty} which is not in referenced crate {}", referenced_import.base_crate);
            used.entry(crate_name)
                .and_modify(|v| {
                    v.insert(ty.as_str());
                })
                .or_insert(BTreeSet::from([ty.as_str()]));
        } else {
            // println!("Could not lookup reference {referenced_import:?}");
        }
    };

    for referenced_import in data
        .import_types
        .iter()
        // Skip over imports that reference the current crate. They
        // are all collapsed into one module per crate.
        .filter(|imp| imp.base_crate != data.crate_name)
    {
        // Look up the types for the referenced imported crate.
        if let Some(type_names) = all_types.get(&referenced_import.base_crate) {
            if referenced_import.type_name == "*" {
                // We can have "*" wildcard here. We need to add all.
                used_imports
                    .entry(&referenced_import.base_crate)
                    .or_insert_with(BTreeSet::<&str>::new)
                    .extend(type_names.iter().map(|s| s.as_str()));
            } else if let Some(ty_name) = type_names.get(&referenced_import.type_name) {
                // Add referenced import for each matching type.
                used_imports
                    .entry(&referenced_import.base_crate)
                    .and_modify(|v| {
                        v.insert(ty_name.as_str());
                    })
                    .or_insert(BTreeSet::from([ty_name.as_str()]));
            } else {
                fallback(referenced_import, &mut used_imports);
            }
        } else {
            // We might have a re-export from another crate.
            fallback(referenced_import, &mut used_imports);
        }
    }
    used_imports
}