fn write_comments(
        &mut self,
        w: &mut dyn Write,
        indent: usize,
        comments: &[String],
    ) -> io::Result<()> {
        // Doc text must not be able to close the block comment it is written into.
        let comments: Vec<String> = comments.iter().map(|c| c.replace("*/", "*\\/")).collect();
        // Only attempt to write a comment if there are some, otherwise we're Ok()
        if !comments.is_empty() {
            let comment: String = {
                let tab_indent = "\t".repeat(indent);
                // If there's only one comment then keep it on the same line, otherwise we'll make a nice multi-line comment
                if comments.len() == 1 {
                    format!("{}/** {} */", tab_indent, comments.first().unwrap())
                } else {
                    let joined_comments = comments.join(&format!("\n{} * ", tab_indent));
                    format!(
                        "{tab}/**
{tab} * {comment}
{tab} */",
                        tab = tab_indent,
                        comment = joined_comments
                    )
                }
            };
            writeln!(w, "{}", comment)?;
        }
        Ok(())
    }