impl PartialEq for RustConst {
    fn eq(&self, other: &Self) -> bool {
        self.id.original == other.id.original
    }
}