impl PartialOrd for RustEnum {
    fn partial_cmp(&self, other: &Self) -> Option<std::cmp::Ordering> {
        Some(self.cmp(other))
    }
}