pub fn shared(&self) -> &RustEnumShared {
        match self {
            Self::Unit(shared) | Self::Algebraic { shared, .. } => shared,
        }
    }