pub struct ErrorInfo {
    /// The file name being parsed.
    pub file_name: String,
    /// The parse error.
    pub error: ParseError,
}