impl PartialOrd for RustStruct {
    fn partial_cmp(&self, other: &Self) -> Option<std::cmp::Ordering> {
        Some(self.cmp(other))
    }
}