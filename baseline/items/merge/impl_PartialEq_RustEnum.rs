impl PartialEq for RustEnum {
    fn eq(&self, other: &Self) -> bool {
        self.shared().id.original == other.shared().id.original
    }
}