fn cmp(&self, other: &Self) -> std::cmp::Ordering {
        self.shared().id.original.cmp(&other.shared().id.original)
    }