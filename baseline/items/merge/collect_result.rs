fn collect_result(&mut self, result: Result<RustItem, ParseError>) {
        match result {
            Ok(data) => self.parsed_data.push(data),
            Err(error) => self.parsed_data.errors.push(ErrorInfo {
                file_name: self.file_path.to_string_lossy().into_owned(),
                error,
            }),
        }
    }