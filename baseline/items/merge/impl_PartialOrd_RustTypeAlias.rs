impl PartialOrd for RustTypeAlias {
    fn partial_cmp(&self, other: &Self) -> Option<std::cmp::Ordering> {
        Some(self.cmp(other))
    }
}