pub fn is_empty(&self) -> bool {
        self.structs.is_empty()
            && self.enums.is_empty()
            && self.aliases.is_empty()
            && self.consts.is_empty()
            && self.errors.is_empty()
    }