pub struct TypeShareVisitor<'a> {
    parsed_data: ParsedData,
    file_path: PathBuf,
    parse_context: &'a ParseContext<'a>,
}