impl PartialEq for RustStruct {
    fn eq(&self, other: &Self) -> bool {
        self.id.original == other.id.original
    }
}