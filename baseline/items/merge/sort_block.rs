        // Apply sorting to types for deterministic output.
        parsed_data.structs.sort();
        parsed_data.enums.sort();
        parsed_data.aliases.sort();
        parsed_data.consts.sort();

        // put back our import types for file generation, under the names the types are
        // defined with: the other module lists a renamed type under its serde name.
        