fn add_assign(&mut self, mut rhs: ParsedData) {
        self.structs.append(&mut rhs.structs);
        self.enums.append(&mut rhs.enums);
        self.aliases.append(&mut rhs.aliases);
        self.consts.append(&mut rhs.consts);
        self.import_types.extend(rhs.import_types);
        self.type_names.extend(rhs.type_names);
        self.errors.append(&mut rhs.errors);

        self.file_name = rhs.file_name;
        self.crate_name = rhs.crate_name;
        self.multi_file = rhs.multi_file;
    }