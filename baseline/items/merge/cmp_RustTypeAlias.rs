fn cmp(&self, other: &Self) -> std::cmp::Ordering {
        self.id.original.cmp(&other.id.original)
    }