impl PartialEq for RustTypeAlias {
    fn eq(&self, other: &Self) -> bool {
        self.id.original == other.id.original
    }
}