pub(crate) fn push(&mut self, rust_thing: RustItem) {
        match rust_thing {
            RustItem::Struct(s) => {
                self.type_names.insert(s.id.renamed.clone());
                self.structs.push(s);
            }
            RustItem::Enum(e) => {
                self.type_names.insert(e.shared().id.renamed.clone());
                self.enums.push(e);
            }
            RustItem::Alias(a) => {
                self.type_names.insert(a.id.renamed.clone());
                self.aliases.push(a);
            }
            RustItem::Const(c) => {
                self.type_names.insert(c.id.renamed.clone());
                self.consts.push(c);
            }
        }
    }