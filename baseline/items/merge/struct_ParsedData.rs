pub struct ParsedData {
    /// Structs defined in the source
    pub structs: Vec<RustStruct>,
    /// Enums defined in the source
    pub enums: Vec<RustEnum>,
    /// Type aliases defined in the source
    pub aliases: Vec<RustTypeAlias>,
    /// Constant variables defined in the source
    pub consts: Vec<RustConst>,
    /// Imports used by this file
    pub import_types: HashSet<ImportedType>,
    /// Crate this belongs to.
    pub crate_name: CrateName,
    /// File name to write to for generated type.
    pub file_name: String,
    /// All type names
    pub type_names: HashSet<String>,
    /// Failures during parsing.
    pub errors: Vec<ErrorInfo>,
    /// Using multi file support.
    pub multi_file: bool,
}