pub struct RustEnumVariantShared {
    /// The variant's ident
    pub id: Id,
    /// Comments applied to the variant
    pub comments: Vec<String>,
}