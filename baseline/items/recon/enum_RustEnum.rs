pub enum RustEnum {
    /// A unit enum
    ///
    /// An example of such an enum:
    ///
    /// ```
    /// enum UnitEnum {
    ///     Variant,
    ///     AnotherVariant,
    ///     Yay,
    /// }
    /// ```
    Unit(RustEnumShared),
    /// An algebraic enum
    ///
    /// An example of such an enum:
    ///
    /// ```
    /// struct AssociatedData { /* ... */ }
    ///
    /// enum AlgebraicEnum {
    ///     UnitVariant,
    ///     TupleVariant(AssociatedData),
    ///     AnonymousStruct {
    ///         field: String,
    ///         another_field: bool,
    ///     },
    /// }
    /// ```
    Algebraic {
        /// The parsed value of the `#[serde(tag = "...")]` attribute
        tag_key: String,
        /// The parsed value of the `#[serde(content = "...")]` attribute
        content_key: String,
        /// Shared context for this enum.
        shared: RustEnumShared,
    },
}