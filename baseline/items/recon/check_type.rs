fn check_type(
    crate_name: &CrateName,
    serde_renamed: &RenamedTypes,
    import_types: &HashSet<ImportedType>,
    generic_types: &[String],
    ty: &mut RustType,
) {
    debug!("checking type: {ty:?}");
    match ty {
        RustType::Generic { id, parameters } => {
            // The generic type itself may have been renamed, not only its arguments.
            if let Some(renamed) = resolve_renamed(crate_name, serde_renamed, import_types, id) {
                info!("renaming type from {id} to {renamed}");
                *id = renamed.to_owned();
            }
            for ty in parameters {
                check_type(crate_name, serde_renamed, import_types, generic_types, ty);
            }
        }
        RustType::Special(s) => match s {
            SpecialRustType::Vec(ty) => {
                check_type(crate_name, serde_renamed, import_types, generic_types, ty);
            }
            SpecialRustType::Array(ty, _) => {
                check_type(crate_name, serde_renamed, import_types, generic_types, ty);
            }
            SpecialRustType::Slice(ty) => {
                check_type(crate_name, serde_renamed, import_types, generic_types, ty);
            }
            SpecialRustType::HashMap(ty1, ty2) => {
                check_type(crate_name, serde_renamed, import_types, generic_types, ty1);
                check_type(crate_name, serde_renamed, import_types, generic_types, ty2);
            }
            SpecialRustType::Option(ty) => {
                check_type(crate_name, serde_renamed, import_types, generic_types, ty);
            }
            _ => (),
        },
        RustType::Simple { id } => {
            // A generic parameter of the item is not a reference to a type, whatever it is called.
            if generic_types.contains(id) {
                return;
            }
            debug!("{crate_name} looking up original name {id}");

            if let Some(renamed) = resolve_renamed(crate_name, serde_renamed, import_types, id) {
                info!("renaming type from {id} to {renamed}");
                *id = renamed.to_owned();
            }
        }
    }
}