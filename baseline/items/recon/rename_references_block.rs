        // update references to renamed ids in product types.
        for s in &mut parsed_data.structs {
            debug!("struct: {}", s.id.original);
            for f in &mut s.fields {
                check_type(
                    crate_name,
                    &serde_renamed,
                    &import_types,
                    &s.generic_types,
                    &mut f.ty,
                );
            }
        }

        // update references to renamed ids in sum types.
        for e in &mut parsed_data.enums {
            debug!("enum: {}", e.shared().id.original);
            match e {
                RustEnum::Unit(shared) => check_variant(
                    crate_name,
                    &serde_renamed,
                    &import_types,
                    &shared.generic_types,
                    &mut shared.variants,
                ),
                RustEnum::Algebraic { shared, .. } => check_variant(
                    crate_name,
                    &serde_renamed,
                    &import_types,
                    &shared.generic_types,
                    &mut shared.variants,
                ),
            }
        }

        // update references to renamed ids in aliases.
        for a in &mut parsed_data.aliases {
            check_type(
                crate_name,
                &serde_renamed,
                &import_types,
                &a.generic_types,
                &mut a.r#type,
            );
        }

        // Apply sorting to types for deterministic output.
        