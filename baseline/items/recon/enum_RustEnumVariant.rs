pub enum RustEnumVariant {
    /// A unit variant
    Unit(RustEnumVariantShared),
    /// A tuple variant
    Tuple {
        /// The type of the single tuple field
        ty: RustType,
        /// Shared context for this enum.
        shared: RustEnumVariantShared,
    },
    /// An anonymous struct variant
    AnonymousStruct {
        /// The fields of the anonymous struct
        fields: Vec<RustField>,
        /// Shared context for this enum.
        shared: RustEnumVariantShared,
    },
}