fn check_variant(
    crate_name: &CrateName,
    serde_renamed: &RenamedTypes,
    imported_types: &HashSet<ImportedType>,
    generic_types: &[String],
    variants: &mut Vec<RustEnumVariant>,
) {
    for v in variants {
        match v {
            RustEnumVariant::Unit(_) => (),
            RustEnumVariant::Tuple { ty, .. } => {
                check_type(crate_name, serde_renamed, imported_types, generic_types, ty);
            }
            RustEnumVariant::AnonymousStruct { fields, .. } => {
                for f in fields {
                    check_type(
                        crate_name,
                        serde_renamed,
                        imported_types,
                        generic_types,
                        &mut f.ty,
                    );
                }
            }
        }
    }
}