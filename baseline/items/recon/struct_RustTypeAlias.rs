pub struct RustTypeAlias {
    /// The identifier for the alias.
    pub id: Id,
    /// The generic parameters that come after the type alias name.
    pub generic_types: Vec<String>,
    /// The type identifier that this type alias is aliasing
    pub r#type: RustType,
    /// Comments that were in the type alias source.
    pub comments: Vec<String>,
    /// Attributes that exist for this struct.
    pub decorators: DecoratorMap,
    /// True if this type alias contains data that needs to be redacted
    pub is_redacted: bool,
}