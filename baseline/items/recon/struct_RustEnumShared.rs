pub struct RustEnumShared {
    /// The enum's ident
    pub id: Id,
    /// Generic parameters for the enum, e.g. `SomeEnum<T>` would produce `vec!["T"]`
    pub generic_types: Vec<String>,
    /// Comments on the enum definition itself
    pub comments: Vec<String>,
    /// The enum's variants
    pub variants: Vec<RustEnumVariant>,
    /// Decorators applied to the enum for generation in other languages
    ///
    /// Example: `#[typeshare(swift = "Equatable, Comparable, Hashable")]`.
    pub decorators: DecoratorMap,
    /// True if this enum references itself in any field of any variant
    /// Swift needs the special keyword `indirect` for this case
    pub is_recursive: bool,
    /// True if this enum contains data that needs to be redacted
    pub is_redacted: bool,
}