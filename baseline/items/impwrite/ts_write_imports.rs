fn write_imports(
        &mut self,
        w: &mut dyn Write,
        imports: ScopedCrateTypes<'_>,
    ) -> std::io::Result<()> {
        for (path, ty) in imports {
            write!(w, "import {{ ")?;
            let ty_list = ty.iter().join(", ");
            write!(w, "{ty_list}")?;
            writeln!(w, " }} from \"./{path}\";")?;
        }
        writeln!(w)
    }