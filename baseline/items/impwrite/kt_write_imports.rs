fn write_imports(
        &mut self,
        w: &mut dyn Write,
        imports: ScopedCrateTypes<'_>,
    ) -> std::io::Result<()> {
        for (path, ty) in imports {
            for t in ty {
                // The other module defines the type under its prefixed name.
                writeln!(w, "import {}.{path}.{}{t}", self.package, self.prefix)?;
            }
        }
        writeln!(w)
    }