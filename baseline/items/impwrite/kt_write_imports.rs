fn write_imports(
        &mut self,
        w: &mut dyn Write,
        imports: ScopedCrateTypes<'_>,
    ) -> std::io::Result<()> {
        for (path, ty) in imports {
            for t in ty {
                writeln!(w, "import {}.{path}.{t}", self.package)?;
            }
        }
        writeln!(w)
    }