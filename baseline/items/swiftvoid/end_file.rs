fn end_file(&mut self, w: &mut dyn Write) -> io::Result<()> {
        if self.should_emit_codable_void.load(Ordering::SeqCst) && !self.multi_file {
            self.write_codable(w, &self.get_codable_contents())?;
        }

        Ok(())
    }