fn write_codable(&self, w: &mut dyn Write, output_string: &str) -> io::Result<()> {
        writeln!(w, "{}", output_string)
    }