fn get_codable_contents(&self) -> String {
        let mut decs = self
            .get_default_decorators()
            .chain(self.codablevoid_constraints.iter().map(|s| s.as_str()))
            .collect::<Vec<_>>();

        // If there are no decorators found for this struct, still write `Codable` and default decorators for structs
        if !decs.contains(&CODABLE) {
            decs.push(CODABLE);
        }

        format!("\n/// () isn't codable, so we use this instead to represent Rust's unit type\npublic struct CodableVoid: {} {{}}", decs.join(", "))
    }