fn python_property_aware_rename(name: &str) -> String {
    let snake_name = name.to_case(Case::Snake);
    match get_python_keywords().contains(&snake_name) {
        true => format!("{}_", name),
        false => snake_name,
    }
}