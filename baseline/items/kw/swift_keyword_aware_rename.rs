fn swift_keyword_aware_rename<'a, T>(name: T) -> Cow<'a, str>
where
    T: Into<Cow<'a, str>>,
{
    let name = name.into();
    if SWIFT_KEYWORDS.contains(&name.as_ref()) {
        Cow::Owned(format!("`{name}`"))
    } else {
        name
    }
}