fn write_comments(w: &mut dyn Write, indent: usize, comments: &[String]) -> std::io::Result<()> {
    comments
        .iter()
        .try_for_each(|comment| write_comment(w, indent, comment))
}