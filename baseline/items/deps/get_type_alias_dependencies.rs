fn get_type_alias_dependencies(
    ta: &RustTypeAlias,
    types: &HashMap<String, &RustItem>,
    res: &mut Vec<String>,
    seen: &mut HashSet<String>,
) {
    if seen.insert(ta.id.original.to_string()) {
        get_dependencies_from_type(&ta.r#type, types, res, seen);
        for generic in &ta.generic_types {
            if let Some(thing) = types.get(generic) {
                get_dependencies(thing, types, res, seen)
            }
        }
        seen.remove(&ta.id.original.to_string());
    }
}