fn get_struct_dependencies(
    strct: &RustStruct,
    types: &HashMap<String, &RustItem>,
    res: &mut Vec<String>,
    seen: &mut HashSet<String>,
) {
    if seen.insert(strct.id.original.to_string()) {
        for field in &strct.fields {
            get_dependencies_from_type(&field.ty, types, res, seen)
        }
        seen.remove(&strct.id.original.to_string());
    }
}