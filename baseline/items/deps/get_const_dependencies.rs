fn get_const_dependencies(
    c: &RustConst,
    types: &HashMap<String, &RustItem>,
    res: &mut Vec<String>,
    seen: &mut HashSet<String>,
) {
    if seen.insert(c.id.original.to_string()) {
        get_dependencies_from_type(&c.r#type, types, res, seen);
        seen.remove(&c.id.original.to_string());
    }
}