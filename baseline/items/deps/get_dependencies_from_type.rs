fn get_dependencies_from_type(
    tp: &RustType,
    types: &HashMap<String, &RustItem>,
    res: &mut Vec<String>,
    seen: &mut HashSet<String>,
) {
    match tp {
        RustType::Generic { id, parameters } => {
            if let Some(tp) = types.get(id) {
                if seen.insert(id.clone()) {
                    res.push(id.clone());
                    get_dependencies(tp, types, res, seen);
                    seen.remove(&id.clone());
                }
            }
            // Generic arguments are references too, whether or not the generic type itself
            // is typeshared, and at any nesting depth (e.g. `Outer<Vec<Inner>>`).
            for parameter in parameters {
                get_dependencies_from_type(parameter, types, res, seen);
            }
        }
        RustType::Simple { id } => {
            if let Some(tp) = types.get(id) {
                if seen.insert(id.clone()) {
                    res.push(id.clone());
                    get_dependencies(tp, types, res, seen);
                    seen.remove(&id.clone());
                }
            }
        }
        RustType::Special(special) => match special {
            SpecialRustType::HashMap(kt, vt) => {
                get_dependencies_from_type(kt, types, res, seen);
                get_dependencies_from_type(vt, types, res, seen);
            }
            SpecialRustType::Option(inner) => {
                get_dependencies_from_type(inner, types, res, seen);
            }
            SpecialRustType::Vec(inner)
            | SpecialRustType::Array(inner, _)
            | SpecialRustType::Slice(inner) => {
                get_dependencies_from_type(inner, types, res, seen);
            }
            _ => {}
        },
    };
}