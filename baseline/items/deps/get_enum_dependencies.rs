fn get_enum_dependencies(
    enm: &RustEnum,
    types: &HashMap<String, &RustItem>,
    res: &mut Vec<String>,
    seen: &mut HashSet<String>,
) {
    match enm {
        RustEnum::Unit(_) => {}
        RustEnum::Algebraic {
            tag_key: _,
            content_key: _,
            shared,
        } => {
            if seen.insert(shared.id.original.to_string()) {
                for variant in &shared.variants {
                    match variant {
                        RustEnumVariant::Unit(_) => {}
                        RustEnumVariant::AnonymousStruct { fields, shared: _ } => {
                            for field in fields {
                                get_dependencies_from_type(&field.ty, types, res, seen)
                            }
                        }
                        RustEnumVariant::Tuple { ty, shared: _ } => {
                            get_dependencies_from_type(ty, types, res, seen)
                        }
                    }
                }
                seen.remove(&shared.id.original.to_string());
            }
        }
    }
}