fn get_dependencies(
    thing: &RustItem,
    types: &HashMap<String, &RustItem>,
    res: &mut Vec<String>,
    seen: &mut HashSet<String>,
) {
    match thing {
        RustItem::Enum(en) => get_enum_dependencies(en, types, res, seen),
        RustItem::Struct(strct) => get_struct_dependencies(strct, types, res, seen),
        RustItem::Alias(alias) => get_type_alias_dependencies(alias, types, res, seen),
        RustItem::Const(c) => get_const_dependencies(c, types, res, seen),
    }
}