pub struct RustConst {
    /// The identifier for the constant.
    pub id: Id,
    /// The type identifier that this constant is referring to.
    pub r#type: RustType,
    /// The expression that the constant contains.
    pub expr: RustConstExpr,
}