pub fn is_double_optional(&self) -> bool {
        match &self {
            RustType::Special(SpecialRustType::Option(t)) => {
                matches!(t.as_ref(), RustType::Special(SpecialRustType::Option(_)))
            }
            _ => false,
        }
    }