            let case_type: String = match f.type_override(SupportedLanguage::Swift) {
                // An override replaces the translated type, not the fact that the field is optional.
                Some(type_override) if f.ty.is_optional() => format!("{}?", type_override),
                Some(type_override) => type_override.to_owned(),
                None => self
                    .format_type(&f.ty, rs.generic_types.as_slice())
                    .map_err(|e| io::Error::new(io::ErrorKind::Other, e))?,
            };

            writeln!(
                w,
                "\tpublic let {}: {}{}",
                remove_dash_from_identifier(swift_keyword_aware_rename(&f.id.renamed).as_ref()),
                case_type,
                (f.has_default && !f.ty.is_optional())
                    .then_some("?")
                    .unwrap_or_default()
            )?;
        