pub struct Swift {
    /// The prefix to append to user-defined types
    pub prefix: String,
    /// Type mappings from Rust type names to Swift type names
    pub type_mappings: HashMap<String, String>,
    /// Default decorators that will be applied to all typeshared types
    pub default_decorators: Vec<String>,
    /// Default type constraints that will be applied to all generic parameters of typeshared types
    pub default_generic_constraints: GenericConstraints,
    /// Will be set to true if one of your typeshared Rust type contains the unit type `()`.
    /// This will add a definition of a `CodableVoid` type to the generated Swift code and
    /// use `CodableVoid` to replace `()`.
    pub should_emit_codable_void: AtomicBool,
    /// Whether or not to exclude the version header that normally appears at the top of generated code.
    /// If you aren't generating a snapshot test, this setting can just be left as a default (false)
    pub no_version_header: bool,
    /// Are we generating multiple modules?
    pub multi_file: bool,
    /// The constraints to apply to `CodableVoid`.
    pub codablevoid_constraints: Vec<String>,
}