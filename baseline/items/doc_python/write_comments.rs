fn write_comments(
        &self,
        w: &mut dyn Write,
        is_docstring: bool,
        comments: &[String],
        indent_level: usize,
    ) -> std::io::Result<()> {
        // Only attempt to write a comment if there are some, otherwise we're Ok()
        let indent = "    ".repeat(indent_level);
        if !comments.is_empty() {
            let comment: String = {
                if is_docstring {
                    format!(
                        "{indent}\"\"\"\n{indented_comments}\n{indent}\"\"\"",
                        indent = indent,
                        // Doc text must not be able to close the docstring it is written into.
                        indented_comments = comments
                            .iter()
                            // A backslash in the text is a backslash, not the start of an escape
                            // sequence of the (non-raw) string literal.
                            .map(|v| v.replace('\\', "\\\\").replace("\"\"\"", "\\\"\\\"\\\""))
                            .map(|v| format!("{}{}", indent, v))
                            .collect::<Vec<String>>()
                            .join("\n"),
                    )
                } else {
                    comments
                        .iter()
                        .flat_map(|v| v.split(|c| c == '\n' || c == '\r'))
                        .map(|v| format!("{}# {}", indent, v))
                        .collect::<Vec<String>>()
                        .join("\n")
                }
            };
            writeln!(w, "{}", comment)?;
        }
        Ok(())
    }