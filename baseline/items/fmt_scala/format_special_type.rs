fn format_special_type(
        &mut self,
        special_ty: &SpecialRustType,
        generic_types: &[String],
    ) -> Result<String, RustTypeFormatError> {
        if let Some(mapped) = self.type_map().get(&special_ty.to_string()) {
            return Ok(mapped.to_owned());
        }

        Ok(match special_ty {
            SpecialRustType::Vec(rtype) => {
                format!("Vector[{}]", self.format_type(rtype, generic_types)?)
            }
            SpecialRustType::Array(rtype, _) => {
                format!("Vector[{}]", self.format_type(rtype, generic_types)?)
            }
            SpecialRustType::Slice(rtype) => {
                format!("Vector[{}]", self.format_type(rtype, generic_types)?)
            }
            SpecialRustType::Option(rtype) => {
                format!("Option[{}]", self.format_type(rtype, generic_types)?)
            }
            SpecialRustType::HashMap(rtype1, rtype2) => {
                format!(
                    "Map[{}, {}]",
                    self.format_type(rtype1, generic_types)?,
                    self.format_type(rtype2, generic_types)?
                )
            }
            SpecialRustType::Unit => "Unit".into(),
            // Char in Scala is 16 bits long, so we need to use String
            // https://docs.scala-lang.org/scala3/book/first-look-at-types.html#scalas-value-types
            SpecialRustType::String | SpecialRustType::Char => "String".into(),
            SpecialRustType::I8 => "Byte".into(),
            SpecialRustType::I16 => "Short".into(),
            SpecialRustType::ISize | SpecialRustType::I32 => "Int".into(),
            SpecialRustType::I54 | SpecialRustType::I64 => "Long".into(),
            // Scala does not support unsigned integers, so upcast it to the closest one
            SpecialRustType::U8 => "UByte".into(),
            SpecialRustType::U16 => "UShort".into(),
            SpecialRustType::USize | SpecialRustType::U32 => "UInt".into(),
            SpecialRustType::U53 | SpecialRustType::U64 => "ULong".into(),
            SpecialRustType::Bool => "Boolean".into(),
            SpecialRustType::F32 => "Float".into(),
            SpecialRustType::F64 => "Double".into(),
            // TODO: https://github.com/1Password/typeshare/issues/237
            SpecialRustType::DateTime => {
                return Err(RustTypeFormatError::UnsupportedSpecialType(
                    special_ty.to_string(),
                ))
            }
        })
    }