fn strip_configuration_attribute(item: &mut DeriveInput) {
    fn remove_configuration_from_attributes(attributes: &mut Vec<Attribute>) {
        const CONFIG_ATTRIBUTE_NAME: &str = "typeshare";

        attributes.retain(|x| x.path().to_token_stream().to_string() != CONFIG_ATTRIBUTE_NAME);
    }

    fn remove_configuration_from_fields(fields: &mut Fields) {
        for field in fields.iter_mut() {
            remove_configuration_from_attributes(&mut field.attrs);
        }
    }

    match item.data {
        Data::Enum(ref mut data_enum) => {
            for variant in data_enum.variants.iter_mut() {
                remove_configuration_from_attributes(&mut variant.attrs);
                remove_configuration_from_fields(&mut variant.fields);
            }
        }
        Data::Struct(ref mut data_struct) => {
            remove_configuration_from_fields(&mut data_struct.fields);
        }
        Data::Union(ref mut data_union) => {
            for field in data_union.fields.named.iter_mut() {
                remove_configuration_from_attributes(&mut field.attrs);
            }
        }
    };
}