pub fn typeshare(_attr: TokenStream, item: TokenStream) -> TokenStream {
    if let Ok(mut item) = parse::<DeriveInput>(item.clone()) {
        // We need to remove the #[typeshare] attribute from all data members so the compiler doesn't throw an error.
        strip_configuration_attribute(&mut item);
        TokenStream::from(item.to_token_stream())
    } else {
        item
    }
}