pub fn is_vec(&self) -> bool {
        matches!(self, Self::Special(SpecialRustType::Vec(_)))
    }