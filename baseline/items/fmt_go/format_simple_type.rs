fn format_simple_type(
        &mut self,
        base: &String,
        _generic_types: &[String],
    ) -> Result<String, RustTypeFormatError> {
        Ok(if let Some(mapped) = self.type_map().get(base) {
            mapped.into()
        } else {
            base.into()
        })
    }