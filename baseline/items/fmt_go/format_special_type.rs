fn format_special_type(
        &mut self,
        special_ty: &SpecialRustType,
        generic_types: &[String],
    ) -> Result<String, RustTypeFormatError> {
        if let Some(mapped) = self.type_map().get(&special_ty.to_string()) {
            return Ok(mapped.to_owned());
        };

        Ok(match special_ty {
            SpecialRustType::Vec(rtype) => format!("[]{}", self.format_type(rtype, generic_types)?),
            SpecialRustType::Array(rtype, len) => {
                format!("[{}]{}", len, self.format_type(rtype, generic_types)?)
            }
            SpecialRustType::Slice(rtype) => {
                format!("[]{}", self.format_type(rtype, generic_types)?)
            }
            SpecialRustType::Option(rtype) => {
                format!(
                    "{}{}",
                    if rtype.is_vec() && self.no_pointer_slice {
                        ""
                    } else {
                        "*"
                    },
                    self.format_type(rtype, generic_types)?
                )
            }
            SpecialRustType::HashMap(rtype1, rtype2) => format!(
                "map[{}]{}",
                self.format_type(rtype1, generic_types)?,
                self.format_type(rtype2, generic_types)?
            ),
            SpecialRustType::Unit => "struct{}".into(),
            SpecialRustType::String => "string".into(),
            SpecialRustType::Char => "rune".into(),
            SpecialRustType::I8
            | SpecialRustType::U8
            | SpecialRustType::U16
            | SpecialRustType::I32
            | SpecialRustType::I16
            | SpecialRustType::ISize
            | SpecialRustType::USize => "int".into(),
            SpecialRustType::U32 => "uint32".into(),
            SpecialRustType::I54 | SpecialRustType::I64 => "int64".into(),
            SpecialRustType::U53 | SpecialRustType::U64 => "uint64".into(),
            SpecialRustType::Bool => "bool".into(),
            SpecialRustType::F32 => "float32".into(),
            SpecialRustType::F64 => "float64".into(),
            SpecialRustType::DateTime => {
                self.add_import("time");
                "time.Time".into()
            }
        })
    }