pub(crate) fn sort_by_indices<T>(data: &mut [T], mut indices: Vec<usize>) {
    for idx in 0..data.len() {
        if indices[idx] != idx {
            let mut current_idx = idx;
            loop {
                let target_idx = indices[current_idx];
                indices[current_idx] = current_idx;
                if indices[target_idx] == target_idx {
                    break;
                }
                data.swap(current_idx, target_idx);
                current_idx = target_idx;
            }
        }
    }
}