fn toposort_impl(graph: &Vec<Vec<usize>>) -> Vec<usize> {
    fn inner(
        graph: &Vec<Vec<usize>>,
        nodes: &Vec<usize>,
        res: &mut Vec<usize>,
        processed: &mut Vec<usize>,
        seen: &mut Vec<usize>,
    ) {
        for dependant in nodes {
            if !processed.contains(dependant) {
                if !seen.contains(dependant) {
                    seen.push(*dependant);
                } else {
                    // cycle
                    return;
                }
                // recurse
                let dependencies = &graph[*dependant];
                inner(graph, dependencies, res, processed, seen);
                if let Some(position) = seen.iter().position(|&other| other == *dependant) {
                    seen.remove(position);
                }
                processed.push(*dependant);
                res.push(*dependant);
            }
        }
    }
    let mut res = vec![];
    let mut seen = vec![];
    let mut processed = vec![];
    inner(
        graph,
        &(0..graph.len()).collect(),
        &mut res,
        &mut processed,
        &mut seen,
    );
    res
}