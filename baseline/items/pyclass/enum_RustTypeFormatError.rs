pub enum RustTypeFormatError {
    #[error("Generic parameter `{0}` is forbidden in Go")]
    GenericsForbiddenInGo(String),
    #[error("Generic type `{0}` cannot be used as a map key in Typescript")]
    GenericKeyForbiddenInTS(String),
    #[error("The special type `{0}` is not supported in this language")]
    UnsupportedSpecialType(String),
}