pub enum SupportedLanguage {
    Go,
    Kotlin,
    Scala,
    Swift,
    TypeScript,
    Python,
}