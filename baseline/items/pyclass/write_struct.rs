fn write_struct(&mut self, w: &mut dyn Write, rs: &RustStruct) -> std::io::Result<()> {
        self.add_import("pydantic".to_string(), "BaseModel".to_string());
        {
            rs.generic_types
                .iter()
                .cloned()
                .for_each(|v| self.add_type_var(v))
        }
        let bases = match rs.generic_types.is_empty() {
            true => "BaseModel".to_string(),
            false => {
                self.add_import("typing".to_string(), "Generic".to_string());
                format!("BaseModel, Generic[{}]", rs.generic_types.join(", "))
            }
        };
        writeln!(w, "class {}({}):", rs.id.renamed, bases,)?;

        self.write_comments(w, true, &rs.comments, 1)?;

        handle_model_config(w, self, &rs.fields);

        rs.fields
            .iter()
            .try_for_each(|f| self.write_field(w, f, rs.generic_types.as_slice()))?;

        if rs.fields.is_empty() {
            write!(w, "    pass")?
        }
        writeln!(w)
    }