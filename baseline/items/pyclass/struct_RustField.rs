pub struct RustField {
    /// Identifier for the field.
    pub id: Id,
    /// Type of the field.
    pub ty: RustType,
    /// Comments that were in the original source.
    pub comments: Vec<String>,
    /// This will be true if the field has a `serde(default)` decorator.
    /// Even if the field's type is not optional, we need to make it optional
    /// for the languages we generate code for.
    pub has_default: bool,
    /// Language-specific decorators assigned to a given field.
    /// The keys are language names (e.g. SupportedLanguage::TypeScript), the values are field decorators (e.g. readonly)
    pub decorators: HashMap<SupportedLanguage, BTreeSet<FieldDecorator>>,
}