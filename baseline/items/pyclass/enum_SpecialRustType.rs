pub enum SpecialRustType {
    /// Represents `Vec<T>` from the standard library
    Vec(Box<RustType>),
    /// Represents `[T; N]` from the standard library
    Array(Box<RustType>, usize),
    /// Represents `&[T]` from the standard library
    Slice(Box<RustType>),
    /// Represents `HashMap<K, V>` from the standard library
    HashMap(Box<RustType>, Box<RustType>),
    /// Represents `Option<T>` from the standard library
    Option(Box<RustType>),
    /// Represents time::OffsetDateTime from time
    /// We serialize/deserialize this to an UTC time specifically
    /// encoded in the RFC3339 or ISO8601 format.
    /// This should be used with serde's with tag when serializing/deserializing
    /// like so #[serde(with = "time::serde::rfc3339")]
    DateTime,
    /// Represents `()`
    Unit,
    /// Represents `String` from the standard library
    String,
    /// Represents `char`
    Char,
    /// Represents `i8`
    I8,
    /// Represents `i16`
    I16,
    /// Represents `i32`
    I32,
    /// Represents `i64`
    I64,
    /// Represents `u8`
    U8,
    /// Represents `u16`
    U16,
    /// Represents `u32`
    U32,
    /// Represents `u64`
    U64,
    /// Represents `isize`
    ISize,
    /// Represents `usize`
    USize,
    /// Represents `bool`
    Bool,
    /// Represents `f32`
    F32,
    /// Represents `f64`
    F64,
    /// Represents `I54` from `typeshare::I54`
    I54,
    /// Represents `U53` from `typeshare::U53`
    U53,
}