pub enum FieldDecorator {
    /// A boolean flag enabled by its existence as a decorator: for example, `readonly`.
    Word(String),
    /// A key-value pair, such as `type = "any"`.
    NameValue(String, String),
}