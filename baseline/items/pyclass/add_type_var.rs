fn add_type_var(&mut self, name: String) {
        self.add_import("typing".to_string(), "TypeVar".to_string());
        self.type_variables.insert(name);
    }