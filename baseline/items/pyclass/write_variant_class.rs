fn write_variant_class(
        &mut self,
        class_name: &str,
        tag_key: &str,
        tag_value: &str,
        content_key: &str,
        content_type: Option<&str>,
        content_value: Option<&str>,
        comments: &[String],
        w: &mut dyn Write,
    ) -> std::io::Result<()> {
        self.add_import("typing".to_string(), "Literal".to_string());
        writeln!(w, "class {class_name}(BaseModel):")?;
        self.write_comments(w, true, comments, 1)?;

        writeln!(w, "    {tag_key}: Literal[{tag_value}] = {tag_value}",)?;
        if content_type.is_none() && content_value.is_none() {
            return Ok(());
        }
        writeln!(
            w,
            "    {content_key}{}{}",
            if let Some(content_type) = content_type {
                format!(": {}", content_type)
            } else {
                "".to_string()
            },
            if let Some(content_value) = content_value {
                format!(" = {}", content_value)
            } else {
                "".to_string()
            }
        )?;
        Ok(())
    }