pub enum RustType {
    /// A type with generic parameters. Consists of a type ID + parameters that come
    /// after in angled brackets. Examples include:
    /// - `SomeStruct<String>`
    /// - `SomeEnum<u32>`
    /// - `SomeTypeAlias<(), &str>`
    ///   However, there are some generic types that are considered to be _special_. These
    ///   include `Vec<T>` `HashMap<K, V>`, and `Option<T>`, which are part of `SpecialRustType` instead
    ///   of `RustType::Generic`.
    ///
    /// If a generic type is type-mapped via `typeshare.toml`, the generic parameters will be dropped automatically.
    Generic {
        #[allow(missing_docs)]
        id: String,
        #[allow(missing_docs)]
        parameters: Vec<RustType>,
    },
    /// A type that requires a special transformation to its respective language. This includes
    /// many core types, like string types, basic container types, numbers, and other primitives.
    Special(SpecialRustType),
    /// A type with no generic parameters that is not considered a **special** type. This includes
    /// all user-generated types and some types from the standard library or third-party crates.
    /// However, these types can still be transformed as part of the type-map in `typeshare.toml`.
    Simple {
        #[allow(missing_docs)]
        id: String,
    },
}