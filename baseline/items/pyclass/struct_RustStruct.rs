pub struct RustStruct {
    /// The identifier for the struct.
    pub id: Id,
    /// The generic parameters that come after the struct name.
    pub generic_types: Vec<String>,
    /// The fields of the struct.
    pub fields: Vec<RustField>,
    /// Comments that were in the struct source.
    /// We copy comments over to the typeshared files,
    /// so we need to collect them here.
    pub comments: Vec<String>,
    /// Attributes that exist for this struct.
    pub decorators: DecoratorMap,
    /// True if this struct contains data that needs to be redacted
    pub is_redacted: bool,
}