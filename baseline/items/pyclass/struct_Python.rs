pub struct Python {
    /// Mappings from Rust type names to Python type names
    pub type_mappings: HashMap<String, String>,
    /// HashMap<ModuleName, HashSet<Identifier>
    pub imports: HashMap<String, HashSet<String>>,
    /// HashMap<Identifier, Vec<DependencyIdentifiers>>
    /// Used to lay out runtime references in the module
    /// such that it can be read top to bottom
    /// globals: HashMap<String, Vec<String>>,
    pub type_variables: HashSet<String>,
    /// Whether or not to exclude the version header that normally appears at the top of generated code.
    /// If you aren't generating a snapshot test, this setting can just be left as a default (false)
    pub no_version_header: bool,
    /// Carries the unique set of types for custom json translation
    pub types_for_custom_json_translation: HashSet<String>,
}