pub struct Id {
    /// The original identifier name
    pub original: String,
    /// The renamed identifier, based on serde attributes.
    /// If there is no re-naming going on, this will be identical to
    /// `original`.
    pub renamed: String,
    /// Was this renamed with `serde(rename = "newname")
    pub serde_rename: bool,
}