struct CustomJsonTranslationFunctions {
    serialization_name: String,
    serialization_content: String,
    deserialization_name: String,
    deserialization_content: String,
}