fn format_special_type(
        &mut self,
        special_ty: &SpecialRustType,
        generic_types: &[String],
    ) -> Result<String, RustTypeFormatError> {
        if let Some(mapped) = self.type_mappings.get(&special_ty.to_string()) {
            if self.custom_translations(mapped).is_some() {
                self.types_for_custom_json_translation
                    .insert(mapped.to_string(), BTreeSet::new());
            }
            return Ok(mapped.to_owned());
        }
        match special_ty {
            SpecialRustType::Vec(rtype) => {
                Ok(format!("{}[]", self.format_type(rtype, generic_types)?))
            }
            SpecialRustType::Array(rtype, len) => {
                let formatted_type = self.format_type(rtype, generic_types)?;
                Ok(format!(
                    "[{}]",
                    std::iter::repeat(&formatted_type)
                        .take(*len)
                        .join_with(", ")
                ))
            }
            SpecialRustType::Slice(rtype) => {
                Ok(format!("{}[]", self.format_type(rtype, generic_types)?))
            }
            // We add optionality above the type formatting level
            SpecialRustType::Option(rtype) => self.format_type(rtype, generic_types),
            SpecialRustType::HashMap(rtype1, rtype2) => Ok(format!(
                "Record<{}, {}>",
                match rtype1.as_ref() {
                    RustType::Simple { id } if generic_types.contains(id) => {
                        return Err(RustTypeFormatError::GenericKeyForbiddenInTS(id.clone()));
                    }
                    _ => self.format_type(rtype1, generic_types)?,
                },
                self.format_type(rtype2, generic_types)?
            )),
            SpecialRustType::Unit => Ok("undefined".into()),
            SpecialRustType::DateTime => {
                // `Date` needs the reviver / replacer helpers wherever it occurs, not only as
                // the whole type of a struct field (where `write_field` registers it).
                self.types_for_custom_json_translation
                    .entry("Date".to_owned())
                    .or_default();
                Ok("Date".into())
            }
            SpecialRustType::String => Ok("string".into()),
            SpecialRustType::Char => Ok("string".into()),
            SpecialRustType::I8
            | SpecialRustType::U8
            | SpecialRustType::I16
            | SpecialRustType::U16
            | SpecialRustType::I32
            | SpecialRustType::U32
            | SpecialRustType::I54
            | SpecialRustType::U53
            | SpecialRustType::F32
            | SpecialRustType::F64 => Ok("number".into()),
            SpecialRustType::Bool => Ok("boolean".into()),
            SpecialRustType::U64
            | SpecialRustType::I64
            | SpecialRustType::ISize
            | SpecialRustType::USize => {
                panic!("64 bit types not allowed in Typeshare")
            }
        }
    }