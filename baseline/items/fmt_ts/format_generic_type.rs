fn format_generic_type(
        &mut self,
        base: &String,
        parameters: &[RustType],
        generic_types: &[String],
    ) -> Result<String, RustTypeFormatError> {
        if let Some(mapped) = self.type_map().get(base) {
            Ok(mapped.into())
        } else {
            let parameters: Result<Vec<String>, RustTypeFormatError> = parameters
                .iter()
                .map(|p| self.format_type(p, generic_types))
                .collect();
            let parameters = parameters?;
            Ok(format!(
                "{}{}",
                self.format_simple_type(base, generic_types)?,
                (!parameters.is_empty())
                    .then(|| self.format_generic_parameters(parameters))
                    .unwrap_or_default()
            ))
        }
    }