fn format_type(
        &mut self,
        ty: &RustType,
        generic_types: &[String],
    ) -> Result<String, RustTypeFormatError> {
        match ty {
            RustType::Simple { id } => self.format_simple_type(id, generic_types),
            RustType::Generic { id, parameters } => {
                self.format_generic_type(id, parameters.as_slice(), generic_types)
            }
            RustType::Special(special) => self.format_special_type(special, generic_types),
        }
    }