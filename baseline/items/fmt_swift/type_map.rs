fn type_map(&mut self) -> &HashMap<String, String> {
        &self.type_mappings
    }