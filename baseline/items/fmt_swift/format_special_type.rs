fn format_special_type(
        &mut self,
        special_ty: &SpecialRustType,
        generic_types: &[String],
    ) -> Result<String, RustTypeFormatError> {
        if let Some(mapped) = self.type_map().get(&special_ty.to_string()) {
            return Ok(mapped.to_owned());
        }

        Ok(match special_ty {
            SpecialRustType::Vec(rtype) => format!("[{}]", self.format_type(rtype, generic_types)?),
            SpecialRustType::Array(rtype, _) => {
                format!("[{}]", self.format_type(rtype, generic_types)?)
            }
            SpecialRustType::Slice(rtype) => {
                format!("[{}]", self.format_type(rtype, generic_types)?)
            }
            SpecialRustType::Option(rtype) => {
                format!("{}?", self.format_type(rtype, generic_types)?)
            }
            SpecialRustType::HashMap(rtype1, rtype2) => format!(
                "[{}: {}]",
                self.format_type(rtype1, generic_types)?,
                self.format_type(rtype2, generic_types)?
            ),
            SpecialRustType::Unit => {
                self.should_emit_codable_void.store(true, Ordering::SeqCst);
                "CodableVoid".into()
            }
            SpecialRustType::String => "String".into(),
            SpecialRustType::Char => "Unicode.Scalar".into(),
            SpecialRustType::I8 => "Int8".into(),
            SpecialRustType::U8 => "UInt8".into(),
            SpecialRustType::I16 => "Int16".into(),
            SpecialRustType::U16 => "UInt16".into(),
            SpecialRustType::USize => "UInt".into(),
            SpecialRustType::ISize => "Int".into(),
            SpecialRustType::I32 => "Int32".into(),
            SpecialRustType::U32 => "UInt32".into(),
            SpecialRustType::I54 | SpecialRustType::I64 => "Int64".into(),
            SpecialRustType::U53 | SpecialRustType::U64 => "UInt64".into(),
            SpecialRustType::Bool => "Bool".into(),
            SpecialRustType::F32 => "Float".into(),
            SpecialRustType::F64 => "Double".into(),
            // TODO: https://github.com/1Password/typeshare/issues/237
            SpecialRustType::DateTime => {
                return Err(RustTypeFormatError::UnsupportedSpecialType(
                    special_ty.to_string(),
                ))
            }
        })
    }