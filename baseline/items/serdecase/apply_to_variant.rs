pub fn apply_to_variant(self, variant: &str) -> String {
        match self {
            None | PascalCase => variant.to_owned(),
            LowerCase => variant.to_ascii_lowercase(),
            UpperCase => variant.to_ascii_uppercase(),
            CamelCase => variant[..1].to_ascii_lowercase() + &variant[1..],
            SnakeCase => {
                let mut snake = String::new();
                for (i, ch) in variant.char_indices() {
                    if i > 0 && ch.is_uppercase() {
                        snake.push('_');
                    }
                    snake.push(ch.to_ascii_lowercase());
                }
                snake
            }
            ScreamingSnakeCase => SnakeCase.apply_to_variant(variant).to_ascii_uppercase(),
            KebabCase => SnakeCase.apply_to_variant(variant).replace('_', "-"),
            ScreamingKebabCase => ScreamingSnakeCase
                .apply_to_variant(variant)
                .replace('_', "-"),
        }
    }