pub fn apply_to_field(self, field: &str) -> String {
        match self {
            None | LowerCase | SnakeCase => field.to_owned(),
            UpperCase => field.to_ascii_uppercase(),
            PascalCase => {
                let mut pascal = String::new();
                let mut capitalize = true;
                for ch in field.chars() {
                    if ch == '_' {
                        capitalize = true;
                    } else if capitalize {
                        pascal.push(ch.to_ascii_uppercase());
                        capitalize = false;
                    } else {
                        pascal.push(ch);
                    }
                }
                pascal
            }
            CamelCase => {
                let pascal = PascalCase.apply_to_field(field);
                pascal[..1].to_ascii_lowercase() + &pascal[1..]
            }
            ScreamingSnakeCase => field.to_ascii_uppercase(),
            KebabCase => field.replace('_', "-"),
            ScreamingKebabCase => ScreamingSnakeCase.apply_to_field(field).replace('_', "-"),
        }
    }