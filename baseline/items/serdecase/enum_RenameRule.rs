pub enum RenameRule {
    /// Don't apply a default rename rule.
    None,
    /// Rename direct children to "lowercase" style.
    LowerCase,
    /// Rename direct children to "UPPERCASE" style.
    UpperCase,
    /// Rename direct children to "PascalCase" style, as typically used for
    /// enum variants.
    PascalCase,
    /// Rename direct children to "camelCase" style.
    CamelCase,
    /// Rename direct children to "snake_case" style, as commonly used for
    /// fields.
    SnakeCase,
    /// Rename direct children to "SCREAMING_SNAKE_CASE" style, as commonly
    /// used for constants.
    ScreamingSnakeCase,
    /// Rename direct children to "kebab-case" style.
    KebabCase,
    /// Rename direct children to "SCREAMING-KEBAB-CASE" style.
    ScreamingKebabCase,
}