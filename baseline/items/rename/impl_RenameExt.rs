impl RenameExt for String {
    fn to_camel_case(&self) -> String {
        let pascal = self.to_pascal_case();
        // Lowercase the first character only. Slicing `pascal[..1]` would panic when the
        // PascalCase form is empty (e.g. "__") or starts with a non-ASCII character.
        let mut camel = Self::new();
        let mut first = true;
        for ch in pascal.chars() {
            if first {
                camel.push(ch.to_ascii_lowercase());
                first = false;
            } else {
                camel.push(ch);
            }
        }
        camel
    }

    fn to_pascal_case(&self) -> String {
        let mut pascal = Self::new();
        let mut capitalize = true;
        let to_lowercase = {
            // Check if string is all uppercase, such as "URL" or "TOTP". In that case, we don't want
            // to preserve the cases.
            self.to_ascii_uppercase() == *self
        };

        for ch in self.chars() {
            if ch == '_' {
                capitalize = true;
            } else if capitalize {
                pascal.push(ch.to_ascii_uppercase());
                capitalize = false;
            } else {
                pascal.push(if to_lowercase {
                    ch.to_ascii_lowercase()
                } else {
                    ch
                });
            }
        }
        pascal
    }

    fn to_snake_case(&self) -> String {
        let mut snake = Self::new();
        let is_uppercase = self.to_ascii_uppercase() == *self;
        for (i, ch) in self.char_indices() {
            if i > 0 && ch.is_uppercase() && !is_uppercase {
                snake.push('_');
            }
            snake.push(ch.to_ascii_lowercase());
        }
        snake
    }

    fn to_screaming_snake_case(&self) -> String {
        self.to_snake_case().to_ascii_uppercase()
    }

    fn to_kebab_case(&self) -> String {
        self.to_snake_case().replace('_', "-")
    }

    fn to_screaming_kebab_case(&self) -> String {
        self.to_kebab_case().to_ascii_uppercase()
    }
}