fn rename_all_to_case(original: String, case: &Option<String>) -> String {
    match case {
        None => original,
        Some(value) => match value.as_str() {
            "lowercase" => original.to_lowercase(),
            "UPPERCASE" => original.to_uppercase(),
            "PascalCase" => original.to_pascal_case(),
            "camelCase" => original.to_camel_case(),
            "snake_case" => original.to_snake_case(),
            "SCREAMING_SNAKE_CASE" => original.to_screaming_snake_case(),
            "kebab-case" => original.to_kebab_case(),
            "SCREAMING-KEBAB-CASE" => original.to_screaming_kebab_case(),
            _ => original,
        },
    }
}