fn get_ident(
    ident: Option<&proc_macro2::Ident>,
    attrs: &[syn::Attribute],
    rename_all: &Option<String>,
) -> Id {
    let original = ident.map_or("???".to_string(), |id| id.to_string().replace("r#", ""));

    let mut renamed = rename_all_to_case(original.clone(), rename_all);

    let mut renamed_via_serde_rename = false;
    if let Some(s) = serde_rename(attrs) {
        renamed = s;
        renamed_via_serde_rename = true;
    }

    Id {
        original,
        renamed,
        serde_rename: renamed_via_serde_rename,
    }
}