pub trait RenameExt {
    /// Convert to camelCase.
    fn to_camel_case(&self) -> String;
    /// Convert to PascalCase.
    fn to_pascal_case(&self) -> String;
    /// Convert to snake_case.
    fn to_snake_case(&self) -> String;
    /// Convert to SCREAMING_SNAKE_CASE.
    fn to_screaming_snake_case(&self) -> String;
    /// Convert to kebab-case.
    fn to_kebab_case(&self) -> String;
    /// Convert to SCREAMING-KEBAB-CASE.
    fn to_screaming_kebab_case(&self) -> String;
}