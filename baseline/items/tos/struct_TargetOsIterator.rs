struct TargetOsIterator {
    meta: Vec<(TargetScope, Meta)>,
}