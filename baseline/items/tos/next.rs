fn next(&mut self) -> Option<Self::Item> {
        while let Some((mut scope, meta)) = self.meta.pop() {
            if meta.path().is_ident("not") {
                debug!("encountered not");
                scope = TargetScope::Reject
            }

            match meta {
                Meta::Path(p) => {
                    if log_enabled!(log::Level::Warn) {
                        warn!(
                            "Encountered path while traversing target_os candidates: {}",
                            p.into_token_stream()
                        );
                    }
                }
                Meta::List(meta_list) => {
                    let nested_meta_list = meta_list
                        .parse_args_with(Punctuated::<Meta, Token![,]>::parse_terminated)
                        .inspect_err(|err| {
                            error!("Failed to parse nested meta while traversing target_os candidates: {err}");
                        })
                        .ok()?;
                    debug!("\texpanding with {} meta", nested_meta_list.len());
                    self.meta
                        .extend(nested_meta_list.into_iter().map(|meta| (scope, meta)));
                }
                Meta::NameValue(nv) => {
                    #[cfg(test)]
                    debug!("\tworking with NameValue: {nv:?}");
                    if let Some(value) =
                        nv.path
                            .is_ident("target_os")
                            .then_some(nv.value)
                            .and_then(|value| match value {
                                Expr::Lit(ExprLit {
                                    lit: Lit::Str(val), ..
                                }) => Some(val.value()),
                                _ => None,
                            })
                    {
                        return Some((scope, value));
                    }
                }
            }
        }
        None
    }