fn is_skipped(attrs: &[syn::Attribute], target_os: &[String]) -> bool {
    let typeshare_skip = attrs.iter().any(|attr| {
        get_meta_items(attr, SERDE)
            .chain(get_meta_items(attr, TYPESHARE))
            .any(|arg| matches!(arg, Meta::Path(path) if path.is_ident("skip")))
    });

    typeshare_skip || !accept_target_os(attrs, target_os)
}