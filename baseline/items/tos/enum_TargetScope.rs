enum TargetScope {
    #[default]
    Accept,
    Reject,
}