pub(crate) fn accept_target_os(attrs: &[Attribute], target_os: &[String]) -> bool {
    if target_os.is_empty() {
        return true;
    }

    let (accepted, rejected): (Vec<_>, Vec<_>) = attrs
        .iter()
        .inspect(|attr| {
            if log_enabled!(log::Level::Debug) {
                debug!(
                    "\tchecking attribute {} for {target_os:?} accept",
                    attr.into_token_stream()
                );
            }
        })
        .flat_map(|attr| get_meta_items(attr, "cfg"))
        .flat_map(TargetOsIterator::new)
        .inspect(|val| debug!("Yielded {val:?}"))
        .partition(|(scope, _)| match scope {
            TargetScope::Accept => true,
            TargetScope::Reject => false,
        });

    debug!("accepted: {accepted:?}, rejected: {rejected:?}");

    let is_rejected = || {
        target_os
            .iter()
            .any(|target| rejected.iter().any(|(_, rejected)| target == rejected))
    };

    let is_accepted = || {
        accepted.is_empty()
            || target_os
                .iter()
                .any(|target| accepted.iter().any(|(_, accepted)| accepted == target))
    };

    !is_rejected() && is_accepted()
}