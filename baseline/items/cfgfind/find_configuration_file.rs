fn find_configuration_file() -> Option<PathBuf> {
    let mut path = env::current_dir().ok()?;
    let file = Path::new(DEFAULT_CONFIG_FILE_NAME);

    // TODO: I want to use `path.ancestors` here but it would requiring
    // allocating on every loop iteration and that makes me sad.
    loop {
        path.push(file);

        if path.is_file() {
            break Some(path);
        } else if !(path.pop() && path.pop()) {
            break None;
        }
    }
}