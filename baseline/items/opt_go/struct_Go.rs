pub struct Go {
    /// Name of the Go package.
    pub package: String,
    /// BTreeSet<PackageName>
    pub imports: BTreeSet<String>,
    /// Conversions from Rust type names to Go type names.
    pub type_mappings: HashMap<String, String>,
    /// Abbreviations that should be fully uppercased to comply with Go's formatting rules.
    pub uppercase_acronyms: Vec<String>,
    /// Whether or not to exclude the version header that normally appears at the top of generated code.
    /// If you aren't generating a snapshot test, this setting can just be left as a default (false)
    pub no_version_header: bool,
    /// Whether or not slices should be translated with a pointer redirection.
    ///
    /// It is rather unusual in Go to have pointers to slices. This is because, in Go, slices are already reference types.
    /// However, an edge case can occur:
    ///
    /// type A struct {
    ///     Slice []string `json:",omitempty"`
    /// }
    ///
    /// type B struct {
    ///     Slice *[]string `json:",omitempty"`
    /// }
    /// For type A, both Slice: nil and Slice: []string{} have the same JSON serialisation (Slice is omitted).
    /// For type B Slice: nil and Slice: []string{} both have a different JSON serialisation.
    /// In the first case, Slice is omitted. In the second case the field has the value [].
    ///
    /// This, however, is rarely applicable in practice, and having this feature does not justify exposing an unintuitive user interface.
    pub no_pointer_slice: bool,
}