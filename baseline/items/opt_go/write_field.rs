fn write_field(
        &mut self,
        w: &mut dyn Write,
        field: &RustField,
        generic_types: &[String],
    ) -> std::io::Result<()> {
        fn option_symbol(optional: bool) -> &'static str {
            if optional {
                ",omitempty"
            } else {
                ""
            }
        }

        write_comments(w, 1, &field.comments)?;

        let type_name = match field.type_override(SupportedLanguage::Go) {
            // An override replaces the translated type, not the fact that the field is optional.
            Some(type_override) if field.ty.is_optional() => format!("*{}", type_override),
            Some(type_override) => type_override.to_owned(),
            None => self
                .format_type(&field.ty, generic_types)
                .map_err(|e| std::io::Error::new(std::io::ErrorKind::Other, e))?,
        };

        let go_type = self.acronyms_to_uppercase(&type_name);
        let is_optional = field.ty.is_optional() || field.has_default;
        let formatted_renamed_id = format!("{:?}", &field.id.renamed);
        let renamed_id = &formatted_renamed_id[1..formatted_renamed_id.len() - 1];
        writeln!(
            w,
            "\t{} {}{} `json:\"{}{}\"`",
            self.format_field_name(field.id.original.to_string(), true),
            (field.has_default && !field.ty.is_optional())
                .then_some("*")
                .unwrap_or_default(),
            go_type,
            renamed_id,
            option_symbol(is_optional),
        )?;

        Ok(())
    }