fn format_simple_type(
        &mut self,
        base: &String,
        generic_types: &[String],
    ) -> Result<String, RustTypeFormatError> {
        Ok(if let Some(mapped) = self.type_map().get(base) {
            mapped.into()
        } else if generic_types.contains(base) {
            base.into()
        } else {
            format!("{}{}", self.prefix, base)
        })
    }