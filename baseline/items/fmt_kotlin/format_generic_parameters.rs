fn format_generic_parameters(&mut self, parameters: Vec<String>) -> String {
        format!("<{}>", parameters.into_iter().join(", "))
    }