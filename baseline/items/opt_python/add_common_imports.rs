fn add_common_imports(
        &mut self,
        is_optional: bool,
        requires_custom_translation: bool,
        is_aliased: bool,
    ) {
        if is_optional {
            self.add_import("typing".to_string(), "Optional".to_string());
        }
        if requires_custom_translation {
            self.add_import("pydantic".to_string(), "BeforeValidator".to_string());
            self.add_import("pydantic".to_string(), "PlainSerializer".to_string());
            self.add_import("typing".to_string(), "Annotated".to_string());
        }
        if is_aliased || is_optional {
            self.add_import("pydantic".to_string(), "Field".to_string());
        }
    }