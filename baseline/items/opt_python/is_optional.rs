pub fn is_optional(&self) -> bool {
        matches!(self, Self::Special(SpecialRustType::Option(_)))
    }