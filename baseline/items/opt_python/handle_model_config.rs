fn handle_model_config(w: &mut dyn Write, python_module: &mut Python, fields: &[RustField]) {
    let visibly_renamed_field = fields.iter().find(|f| {
        let python_field_name = python_property_aware_rename(&f.id.original);
        python_field_name != f.id.renamed
    });
    if visibly_renamed_field.is_some() {
        python_module.add_import("pydantic".to_string(), "ConfigDict".to_string());
        let _ = writeln!(w, "    model_config = ConfigDict(populate_by_name=True)\n");
    };
}