fn write_field(
        &mut self,
        w: &mut dyn Write,
        field: &RustField,
        generic_types: &[String],
    ) -> std::io::Result<()> {
        let is_optional = field.ty.is_optional() || field.has_default;
        // currently, if a field has a serde default value, it must be an Option
        let not_optional_but_default = !field.ty.is_optional() && field.has_default;
        let python_type = self
            .format_type(&field.ty, generic_types)
            .map_err(|e| std::io::Error::new(std::io::ErrorKind::Other, e))?;
        let python_field_name = python_property_aware_rename(&field.id.original);
        let is_aliased = python_field_name != field.id.renamed;
        let custom_translations = json_translation_for_type(&python_type);
        // Adds all the required imports needed based off whether its optional ,aliased, or needs a byte translation
        self.add_common_imports(is_optional, custom_translations.is_some(), is_aliased);

        let mut field_type = python_type.clone();

        if not_optional_but_default {
            field_type = format!("Optional[{field_type}]");
        }
        if let Some(custom_translation) = custom_translations {
            // Register the type the translation functions are defined for, not the `Optional[..]`
            // wrapper around it: the functions are looked up by that name when they are written.
            if python_type == "datetime" {
                // The translation functions written for this type call `datetime` themselves,
                // whatever Rust type (or type mapping) the name came from.
                self.add_import("datetime".to_string(), "datetime".to_string());
            }
            self.types_for_custom_json_translation.insert(python_type);
            field_type = format!(
                "Annotated[{field_type}, BeforeValidator({}), PlainSerializer({})]",
                custom_translation.deserialization_name, custom_translation.serialization_name
            );
        }

        let mut decorators: Vec<String> = Vec::new();
        if is_aliased {
            decorators.push(format!("alias=\"{}\"", field.id.renamed));
        }

        if is_optional || not_optional_but_default {
            decorators.push("default=None".to_string());
        }

        let python_return_value = if !decorators.is_empty() {
            format!(" = Field({})", decorators.join(", "))
        } else {
            String::new()
        };

        writeln!(
            w,
            r#"    {python_field_name}: {field_type}{python_return_value}"#
        )?;

        self.write_comments(w, true, &field.comments, 1)?;
        Ok(())
    }