pub fn contains_type(&self, ty: &str) -> bool {
        match &self {
            Self::Vec(rty) | Self::Array(rty, _) | Self::Slice(rty) | Self::Option(rty) => {
                rty.contains_type(ty)
            }
            Self::HashMap(rty1, rty2) => rty1.contains_type(ty) || rty2.contains_type(ty),
            Self::Unit
            | Self::String
            | Self::DateTime
            | Self::Char
            | Self::I8
            | Self::I16
            | Self::I32
            | Self::I64
            | Self::U8
            | Self::U16
            | Self::U32
            | Self::U64
            | Self::ISize
            | Self::USize
            | Self::Bool
            | Self::F32
            | Self::F64
            | Self::I54
            | Self::U53 => ty == self.id(),
        }
    }