pub fn contains_type(&self, ty: &str) -> bool {
        match &self {
            Self::Simple { id } => id == ty,
            Self::Generic { id, parameters } => {
                id == ty || parameters.iter().any(|p| p.contains_type(ty))
            }
            Self::Special(special) => special.contains_type(ty),
        }
    }