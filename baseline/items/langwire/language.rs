fn language(
    language_type: SupportedLanguage,
    config: Config,
    multi_file: bool,
) -> Box<dyn Language> {
    match language_type {
        SupportedLanguage::Swift => Box::new(Swift {
            prefix: config.swift.prefix,
            type_mappings: config.swift.type_mappings,
            default_decorators: config.swift.default_decorators,
            default_generic_constraints: GenericConstraints::from_config(
                config.swift.default_generic_constraints,
            ),
            multi_file,
            codablevoid_constraints: config.swift.codablevoid_constraints,
            ..Default::default()
        }),
        SupportedLanguage::Kotlin => Box::new(Kotlin {
            package: config.kotlin.package,
            module_name: config.kotlin.module_name,
            prefix: config.kotlin.prefix,
            type_mappings: config.kotlin.type_mappings,
            ..Default::default()
        }),
        SupportedLanguage::Scala => Box::new(Scala {
            package: config.scala.package,
            module_name: config.scala.module_name,
            type_mappings: config.scala.type_mappings,
            ..Default::default()
        }),
        SupportedLanguage::TypeScript => Box::new(TypeScript {
            type_mappings: config.typescript.type_mappings,
            ..Default::default()
        }),
        #[cfg(feature = "go")]
        SupportedLanguage::Go => Box::new(Go {
            package: config.go.package,
            type_mappings: config.go.type_mappings,
            uppercase_acronyms: config.go.uppercase_acronyms,
            no_pointer_slice: config.go.no_pointer_slice,
            ..Default::default()
        }),
        #[cfg(not(feature = "go"))]
        SupportedLanguage::Go => {
            panic!("go support is currently experimental and must be enabled as a feature flag for typeshare-cli")
        }
        #[cfg(feature = "python")]
        SupportedLanguage::Python => Box::new(Python {
            type_mappings: config.python.type_mappings,
            ..Default::default()
        }),
        #[cfg(not(feature = "python"))]
        SupportedLanguage::Python => {
            panic!("python support is currently experimental and must be enabled as a feature flag for typeshare-cli")
        }
    }
}