fn override_configuration(mut config: Config, options: &Args) -> anyhow::Result<Config> {
    if let Some(swift_prefix) = options.swift_prefix.as_ref() {
        config.swift.prefix = swift_prefix.clone();
    }

    if let Some(kotlin_prefix) = options.kotlin_prefix.as_ref() {
        config.kotlin.prefix = kotlin_prefix.clone();
    }

    if let Some(java_package) = options.java_package.as_ref() {
        config.kotlin.package = java_package.clone();
    }

    if let Some(module_name) = options.kotlin_module_name.as_ref() {
        config.kotlin.module_name = module_name.to_string();
    }

    if let Some(scala_package) = options.scala_package.as_ref() {
        config.scala.package = scala_package.clone();
    }

    if let Some(scala_module_name) = options.scala_module_name.as_ref() {
        config.scala.module_name = scala_module_name.to_string();
    }

    #[cfg(feature = "go")]
    {
        if let Some(go_package) = options.go_package.as_ref() {
            config.go.package = go_package.to_string();
        }

        if matches!(options.language, Some(args::AvailableLanguage::Go)) {
            anyhow::ensure!(
                    !config.go.package.is_empty(),
                   "Please provide a package name in the typeshare.toml or using --go-package <package name>"
                );
        }
    }

    config.target_os = options.target_os.as_deref().unwrap_or_default().to_vec();

    Ok(config)
}