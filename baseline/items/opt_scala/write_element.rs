fn write_element(
        &mut self,
        w: &mut dyn Write,
        f: &RustField,
        generic_types: &[String],
    ) -> std::io::Result<()> {
        self.write_comments(w, 1, &f.comments)?;

        let ty = match f.type_override(SupportedLanguage::Scala) {
            // An override replaces the translated type, not the fact that the field is optional.
            Some(type_override) if f.ty.is_optional() => format!("Option[{}]", type_override),
            Some(type_override) => type_override.to_owned(),
            None => self
                .format_type(&f.ty, generic_types)
                .map_err(|e| std::io::Error::new(std::io::ErrorKind::Other, e))?,
        };

        write!(
            w,
            "\t{}: {}{}",
            remove_dash_from_identifier(&f.id.renamed),
            ty,
            (f.has_default && !f.ty.is_optional())
                .then_some(" = _")
                .or_else(|| f.ty.is_optional().then_some(" = None"))
                .unwrap_or_default()
        )
    }