pub struct Scala {
    /// Name of the Scala package
    pub package: String,
    /// Name of the Scala module
    pub module_name: String,
    /// Conversions from Rust type names to Scala type names.
    pub type_mappings: HashMap<String, String>,
    /// Whether or not to exclude the version header that normally appears at the top of generated code.
    /// If you aren't generating a snapshot test, this setting can just be left as a default (false)
    pub no_version_header: bool,
}