fn write_field(
        &mut self,
        w: &mut dyn Write,
        field: &RustField,
        generic_types: &[String],
    ) -> io::Result<()> {
        self.write_comments(w, 1, &field.comments)?;
        let ts_ty: String = match field.type_override(SupportedLanguage::TypeScript) {
            Some(type_override) => type_override.to_owned(),
            None => self
                .format_type(&field.ty, generic_types)
                .map_err(|e| io::Error::new(io::ErrorKind::Other, e))?,
        };
        if self.custom_translations(&ts_ty).is_some() {
            self.types_for_custom_json_translation
                .entry(ts_ty.clone())
                .and_modify(|ids| {
                    ids.insert(field.id.renamed.clone());
                })
                .or_default()
                .insert(field.id.renamed.clone());
        }
        let optional = field.ty.is_optional() || field.has_default;
        let double_optional = field.ty.is_double_optional();
        let is_readonly = field
            .decorators
            .get(&SupportedLanguage::TypeScript)
            .filter(|v| v.iter().any(|dec| dec.name() == "readonly"))
            .is_some();
        writeln!(
            w,
            "\t{}{}{}: {}{};",
            is_readonly.then_some("readonly ").unwrap_or_default(),
            typescript_property_aware_rename(&field.id.renamed),
            optional.then_some("?").unwrap_or_default(),
            ts_ty,
            double_optional.then_some(" | null").unwrap_or_default()
        )?;

        Ok(())
    }