pub struct TypeScript {
    /// Mappings from Rust type names to Typescript type names
    pub type_mappings: HashMap<String, String>,
    /// Whether or not to exclude the version header that normally appears at the top of generated code.
    /// If you aren't generating a snapshot test, this setting can just be left as a default (false)
    pub no_version_header: bool,
    /// Carries the unique set of types for custom json translation
    pub types_for_custom_json_translation: BTreeMap<String, BTreeSet<String>>,
}