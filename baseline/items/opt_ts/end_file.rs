fn end_file(&mut self, w: &mut dyn Write) -> std::io::Result<()> {
        if !self.types_for_custom_json_translation.is_empty() {
            let custom_translation_content = self
                .types_for_custom_json_translation
                .iter()
                .filter_map(|(ts_type, ..)| self.custom_translations(ts_type))
                .collect::<Vec<CustomJsonTranslationContent>>();
            self.write_comments(w, 0, &["Custom JSON reviver and replacer functions for dynamic data transformation".to_owned(),
            "ReviverFunc is used during JSON parsing to detect and transform specific data structures".to_owned(),
            "ReplacerFunc is used during JSON serialization to modify certain values before stringifying.".to_owned(),
            "These functions allow for flexible encoding and decoding of data, ensuring that complex types are properly handled when converting between TS objects and JSON".to_owned()])?;

            return writeln!(
                w,
                r#"export const ReviverFunc = (key: string, value: unknown): unknown => {{
    {}
    return value;
}};

export const ReplacerFunc = (key: string, value: unknown): unknown => {{
    {}
    return value;
}};"#,
                custom_translation_content
                    .iter()
                    .map(|custom_json_translation| &custom_json_translation.reviver)
                    .join("\n    "),
                custom_translation_content
                    .iter()
                    .map(|custom_json_translation| &custom_json_translation.replacer)
                    .join("\n    ")
            );
        }
        Ok(())
    }