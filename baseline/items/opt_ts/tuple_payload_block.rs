 {
                        let r#type = self
                            .format_type(ty, e.shared().generic_types.as_slice())
                            .map_err(|e| io::Error::new(io::ErrorKind::Other, e))?;
                        write!(
                            w,
                            "\t| {{ {}: {:?}, {}{}: {}{} }}",
                            tag_key,
                            shared.id.renamed,
                            content_key,
                            ty.is_optional().then_some("?").unwrap_or_default(),
                            r#type,
                            ty.is_double_optional()
                                .then_some(" | null")
                                .unwrap_or_default()
                        )
                    }
                    