fn generate_types(
        &mut self,
        w: &mut dyn Write,
        _imports: &CrateTypes,
        data: ParsedData,
    ) -> std::io::Result<()> {
        self.begin_file(w, &data)?;

        let ParsedData {
            structs,
            enums,
            aliases,
            consts,
            ..
        } = data;

        let mut items = aliases
            .into_iter()
            .map(RustItem::Alias)
            .chain(structs.into_iter().map(RustItem::Struct))
            .chain(enums.into_iter().map(RustItem::Enum))
            .chain(consts.into_iter().map(RustItem::Const))
            .collect::<Vec<_>>();

        topsort(&mut items);

        let mut body: Vec<u8> = Vec::new();
        for thing in items {
            match thing {
                RustItem::Enum(e) => self.write_enum(&mut body, &e)?,
                RustItem::Struct(rs) => self.write_struct(&mut body, &rs)?,
                RustItem::Alias(t) => self.write_type_alias(&mut body, &t)?,
                RustItem::Const(c) => self.write_const(&mut body, &c)?,
            };
        }

        self.write_all_imports(w)?;

        self.types_for_custom_json_translation
            .iter()
            .sorted()
            .filter_map(|py_type| json_translation_for_type(py_type))
            .map(|custom_translation_functions| {
                format!(
                    r#"{}

{}"#,
                    custom_translation_functions.serialization_content,
                    custom_translation_functions.deserialization_content
                )
            })
            .try_for_each(|custom_translation_function| -> std::io::Result<()> {
                writeln!(w, "{custom_translation_function}")?;
                writeln!(w)
            })?;

        w.write_all(&body)
    }