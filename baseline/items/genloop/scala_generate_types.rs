fn generate_types(
        &mut self,
        writable: &mut dyn Write,
        _imports: &CrateTypes,
        data: ParsedData,
    ) -> std::io::Result<()> {
        // Constants cannot be generated for Scala: report them instead of leaving them out silently.
        if let Some(c) = data.consts.first() {
            return Err(std::io::Error::new(
                std::io::ErrorKind::Unsupported,
                format!(
                    "constants are not supported for Scala (found `{}`)",
                    c.id.original
                ),
            ));
        }

        self.begin_file(writable, &data)?;

        // Package object to hold type aliases: aliases must be in class or object in Scala 2)
        let unsigned_used = self.unsigned_integer_used(&data);
        if unsigned_used || !data.aliases.is_empty() {
            self.begin_package_object(writable)?;
            if unsigned_used {
                self.write_unsigned_aliases(writable)?;
            }
            for a in data.aliases.iter() {
                self.write_type_alias(writable, a)?;
            }
            self.end_package_object(writable)?;
        }

        if !data.structs.is_empty() || !data.enums.is_empty() {
            self.begin_package(writable)?;
            for s in data.structs.iter() {
                self.write_struct(writable, s)?;
            }
            for e in data.enums.iter() {
                self.write_enum(writable, e)?;
            }
            self.end_package(writable)?;
        }

        self.end_file(writable)?;

        Ok(())
    }