fn generate_types(
        &mut self,
        w: &mut dyn Write,
        _imports: &CrateTypes,
        data: ParsedData,
    ) -> std::io::Result<()> {
        self.begin_file(w, &data)?;

        let ParsedData {
            structs,
            enums,
            aliases,
            consts,
            ..
        } = data;

        let mut items = aliases
            .into_iter()
            .map(RustItem::Alias)
            .chain(structs.into_iter().map(RustItem::Struct))
            .chain(enums.into_iter().map(RustItem::Enum))
            .chain(consts.into_iter().map(RustItem::Const))
            .collect::<Vec<_>>();

        topsort(&mut items);

        // Generate a list of all types that either are a struct or are aliased to a struct.
        // This is used to determine whether a type should be defined as a pointer or not.
        let mut types_mapping_to_struct = items
            .iter()
            .flat_map(|item| match item {
                RustItem::Struct(s) => Some(s.id.original.as_str()),
                _ => None,
            })
            .collect::<HashSet<_>>();

        let alias_iter = items.iter().flat_map(|item| match item {
            RustItem::Alias(a) => Some(a),
            _ => None,
        });

        for alias in alias_iter {
            if types_mapping_to_struct.contains(alias.r#type.id()) {
                types_mapping_to_struct.insert(alias.id.original.as_str());
            }
        }

        let mut body: Vec<u8> = Vec::new();
        for thing in &items {
            match thing {
                RustItem::Enum(e) => self.write_enum(&mut body, e, &types_mapping_to_struct)?,
                RustItem::Struct(s) => self.write_struct(&mut body, s)?,
                RustItem::Alias(a) => self.write_type_alias(&mut body, a)?,
                RustItem::Const(c) => self.write_const(&mut body, c)?,
            }
        }
        self.write_all_imports(w)?;
        w.write_all(&body)
    }