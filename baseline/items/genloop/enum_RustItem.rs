pub enum RustItem {
    /// A `struct` definition
    Struct(RustStruct),
    /// An `enum` definition
    Enum(RustEnum),
    /// A `type` definition or newtype struct.
    Alias(RustTypeAlias),
    /// A `const` definition
    Const(RustConst),
}