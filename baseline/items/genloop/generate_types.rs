fn generate_types(
        &mut self,
        writable: &mut dyn Write,
        all_types: &CrateTypes,
        data: ParsedData,
    ) -> std::io::Result<()> {
        self.begin_file(writable, &data)?;

        if data.multi_file {
            self.write_imports(writable, used_imports(&data, all_types))?;
        }

        let ParsedData {
            structs,
            enums,
            aliases,
            consts,
            ..
        } = data;

        let mut items = Vec::from_iter(
            aliases
                .into_iter()
                .map(RustItem::Alias)
                .chain(structs.into_iter().map(RustItem::Struct))
                .chain(enums.into_iter().map(RustItem::Enum))
                .chain(consts.into_iter().map(RustItem::Const)),
        );

        topsort(&mut items);

        for thing in &items {
            match thing {
                RustItem::Enum(e) => self.write_enum(writable, e)?,
                RustItem::Struct(s) => self.write_struct(writable, s)?,
                RustItem::Alias(a) => self.write_type_alias(writable, a)?,
                RustItem::Const(c) => self.write_const(writable, c)?,
            }
        }

        self.end_file(writable)
    }