//! Integer types for use in the FFI layer.

use serde::{Deserialize, Serialize};
use std::cmp::Ordering;
use std::convert::TryFrom;
use std::fmt;
use std::fmt::{Display, Formatter};

const U53_MAX: u64 = 9_007_199_254_740_991;
#[allow(clippy::as_conversions)]
const I54_MAX: i64 = U53_MAX as i64;
const I54_MIN: i64 = -9_007_199_254_740_991;

/// Just like [`std::num::TryFromIntError`].
///
/// `std::num::TryFromIntError` cannot be constructed from outside of libstd so we have to provide
/// our own equivalent.
#[derive(Debug, PartialEq, Eq)]
pub struct TryFromIntError(());

// Error must implement Display for `#[serde(try_from = "FromType")]` https://serde.rs/container-attrs.html#try_from
impl Display for TryFromIntError {
    fn fmt(&self, fmt: &mut Formatter<'_>) -> fmt::Result {
        write!(fmt, "Integer type conversion fail")
    }
}

macro_rules! truncated_type {
    ($truncated: ident, $untruncated: ident, $untruncated_str: expr, $min: expr, $max: expr, $doc: expr) => {
        #[doc = $doc]
        #[derive(
            Serialize, Deserialize, PartialEq, Eq, PartialOrd, Ord, Clone, Copy, Default, Hash,
        )]
        #[serde(try_from = $untruncated_str)]
        pub struct $truncated($untruncated);

        impl $truncated {
            /// The smallest value that can be represented by this integer type.
            pub const MIN: $truncated = $truncated($min);

            /// The largest value that can be represented by this integer type.
            pub const MAX: $truncated = $truncated($max);
        }

        impl fmt::Debug for $truncated {
            fn fmt(&self, fmt: &mut fmt::Formatter) -> fmt::Result {
                fmt::Debug::fmt(&self.0, fmt)
            }
        }

        impl fmt::Display for $truncated {
            fn fmt(&self, fmt: &mut fmt::Formatter) -> fmt::Result {
                fmt::Display::fmt(&self.0, fmt)
            }
        }

        impl TryFrom<$untruncated> for $truncated {
            type Error = TryFromIntError;

            #[allow(unused_comparisons)]
            fn try_from(value: $untruncated) -> Result<Self, Self::Error> {
                if !($min..=$max).contains(&value) {
                    return Err(TryFromIntError(()));
                }

                Ok($truncated(value))
            }
        }

        impl From<$truncated> for $untruncated {
            fn from(value: $truncated) -> $untruncated {
                value.0
            }
        }

        impl PartialEq<$untruncated> for $truncated {
            fn eq(&self, other: &$untruncated) -> bool {
                self.0 == *other
            }
        }

        impl PartialOrd<$untruncated> for $truncated {
            fn partial_cmp(&self, other: &$untruncated) -> Option<Ordering> {
                Some(self.0.cmp(other))
            }
        }
    };
}

macro_rules! impl_truncated_type_from {
    ($from: ident, $into: ident) => {
        impl From<$into> for $from {
            fn from(value: $into) -> $from {
                $from(value.into())
            }
        }

        impl TryFrom<$from> for $into {
            type Error = TryFromIntError;

            #[allow(unused_comparisons)]
            fn try_from(value: $from) -> Result<$into, Self::Error> {
                if value.0 < $into::MIN.into() || value.0 > $into::MAX.into() {
                    return Err(TryFromIntError(()));
                }

                #[allow(clippy::as_conversions)]
                Ok(value.0 as $into)
            }
        }
    };
}

truncated_type!(
    U53,
    u64,
    "u64",
    0,
    U53_MAX,
    "The 53-bit unsigned integer type. Purpose of this type is to mimic JavaScript's integer type."
);
impl_truncated_type_from!(U53, u32);
impl_truncated_type_from!(U53, u16);
impl_truncated_type_from!(U53, u8);

truncated_type!(
    I54,
    i64,
    "i64",
    I54_MIN,
    I54_MAX,
    "The 54-bit signed integer type. Purpose of this type is to mimic JavaScript's integer type."
);
impl_truncated_type_from!(I54, i32);
impl_truncated_type_from!(I54, i16);
impl_truncated_type_from!(I54, i8);

/// Safely convert a `U53` integer to `usize`
#[inline]
#[must_use]
pub fn usize_from_u53_saturated(value: U53) -> usize {
    usize_from_u64_saturated(value.0)
}

/// Safely convert an unsigned 64-bit integer to `usize`
#[allow(clippy::as_conversions)]
#[inline]
#[must_use]
pub fn usize_from_u64_saturated(value: u64) -> usize {
    std::cmp::min(value, usize::MAX as u64) as usize
}

#[cfg(test)]
mod tests {
    use super::*;

    // I54
    #[test]
    fn test_i54_init() {
        assert_eq!(I54::try_from(I54_MAX).unwrap(), I54_MAX);
    }

    #[test]
    fn test_i54_overflow() {
        assert_eq!(I54::try_from(I54_MAX + 1), Err(TryFromIntError(())));
    }

    #[test]
    fn test_i54_underflow() {
        assert_eq!(I54::try_from(I54_MIN - 1), Err(TryFromIntError(())));
    }

    #[test]
    fn test_i64_to_i54() {
        assert_eq!(I54::try_from(i64::MAX), Err(TryFromIntError(())));
    }

    #[test]
    fn test_i54_to_i64() {
        assert_eq!(i64::from(I54::try_from(I54_MAX).unwrap()), I54_MAX);
    }

    #[test]
    fn test_i54_to_i32() {
        assert_eq!(i32::try_from(I54::from(i32::MAX)).unwrap(), i32::MAX);
    }

    #[test]
    #[allow(clippy::as_conversions)]
    fn test_i32_to_i54() {
        assert_eq!(I54::from(i32::MAX), i64::from(i32::MAX));
    }

    // U53
    #[test]
    fn test_u53_init() {
        assert_eq!(U53::try_from(U53_MAX).unwrap(), U53_MAX);
    }

    #[test]
    fn test_u53_overflow() {
        assert_eq!(U53::try_from(U53_MAX + 1), Err(TryFromIntError(())));
    }

    #[test]
    fn test_u64_to_u53() {
        assert_eq!(U53::try_from(u64::MAX), Err(TryFromIntError(())));
    }

    #[test]
    fn test_u53_to_u64() {
        assert_eq!(u64::from(U53::try_from(U53_MAX).unwrap()), U53_MAX);
    }

    #[test]
    fn test_u53_to_u32() {
        assert_eq!(u32::try_from(U53::from(u32::MAX)).unwrap(), u32::MAX);
    }

    #[test]
    #[allow(clippy::as_conversions)]
    fn test_u32_to_u53() {
        assert_eq!(U53::from(u32::MAX), u64::from(u32::MAX));
    }

    #[test]
    fn test_order() {
        assert!(U53::from(u32::MAX) < u64::MAX);
    }

    #[test]
    fn test_serde_serialize() {
        #[derive(Serialize)]
        struct Person {
            age: I54,
        }

        let j = serde_json::to_string(&Person { age: I54::from(12) }).unwrap();
        assert_eq!(j, r##"{"age":12}"##);
    }

    #[test]
    fn test_serde_deserialize() {
        #[derive(Debug, PartialEq, Eq, Serialize, Deserialize)]
        struct Person {
            age: I54,
        }

        let j = r##"{"age":14}"##;
        assert_eq!(
            serde_json::from_str::<Person>(j).unwrap(),
            Person { age: I54::from(14) }
        );
    }

    #[test]
    fn test_serde_deserialize_overflow() {
        #[derive(Debug, PartialEq, Eq, Serialize, Deserialize)]
        struct Person {
            age: I54,
        }

        let j = format!(r##"{{"age":{}}}"##, I54_MAX + 1);
        assert!(serde_json::from_str::<Person>(j.as_str()).is_err());
    }

    #[test]
    fn test_serde_deserialize_underflow() {
        #[derive(Debug, PartialEq, Eq, Serialize, Deserialize)]
        struct Person {
            age: I54,
        }

        let j = format!(r##"{{"age":{}}}"##, I54_MIN - 1);
        assert!(serde_json::from_str::<Person>(j.as_str()).is_err());
    }

    #[test]
    fn test_formatter_flags() {
        let value: I54 = 125.into();

        // Right-aligned, include the + sign, width=8,
        assert_eq!(format!("{:>+8}", value), "    +125");
    }

    #[test]
    fn i54_max() {
        assert_eq!(I54_MAX, i64::from(I54::MAX));
    }

    #[test]
    fn i54_min() {
        assert_eq!(I54_MIN, i64::from(I54::MIN));
    }

    #[test]
    fn u53_max() {
        assert_eq!(U53_MAX, u64::from(U53::MAX));
    }

    #[test]
    fn u53_min() {
        assert_eq!(0, u64::from(U53::MIN));
    }
}
