fn check_write_file(outfile: &Path, output: Vec<u8>) -> anyhow::Result<()> {
    // Only a regular file has earlier contents to compare with; reading a pipe or a
    // device here (`--output-file /dev/stdout`) would wait for data nobody will write.
    if outfile.is_file() {
        match fs::read(outfile) {
            Ok(buf) if buf == output => {
                // avoid writing the file to leave the mtime intact
                // for tools which might use it to know when to
                // rebuild.
                info!("Skipping writing to {outfile:?} no changes");
                return Ok(());
            }
            _ => {}
        }
    }

    if !output.is_empty() {
        let out_dir = outfile
            .parent()
            .with_context(|| format!("Could not get parent for {outfile:?}"))?;
        // If the output directory doesn't already exist, create it.
        if !out_dir.exists() {
            fs::create_dir_all(out_dir).context("failed to create output directory")?;
        }

        fs::write(outfile, output)
            .with_context(|| format!("failed to write output: {}", outfile.to_string_lossy()))?;
    }
    Ok(())
}