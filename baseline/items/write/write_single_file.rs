fn write_single_file(
    lang: &mut (impl Language + ?Sized),
    file_name: &Path,
    mut crate_parsed_data: BTreeMap<CrateName, ParsedData>,
) -> Result<(), anyhow::Error> {
    let parsed_data = crate_parsed_data
        .remove(&SINGLE_FILE_CRATE_NAME)
        .context("Could not get parsed data for single file output")?;

    let mut output = Vec::new();
    lang.generate_types(&mut output, &HashMap::new(), parsed_data)?;

    let outfile = Path::new(file_name).to_path_buf();
    check_write_file(&outfile, output)?;
    Ok(())
}