fn write_codable_file(&self, output_folder: &str) -> std::io::Result<()> {
        let output_string = self.get_codable_contents();
        let output_path = Path::new(output_folder).join("Codable.swift");

        // Render exactly what would be written (`write_codable` terminates the contents with a
        // newline), so that an unchanged file is recognised and its mtime left intact.
        let mut contents = Vec::new();
        self.write_codable(&mut contents, &output_string)?;

        if let Ok(buf) = fs::read(&output_path) {
            if buf == contents {
                return Ok(());
            }
        }

        fs::write(output_path, contents)
    }