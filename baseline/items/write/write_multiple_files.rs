fn write_multiple_files(
    lang: &mut (impl Language + ?Sized),
    output_folder: &Path,
    crate_parsed_data: BTreeMap<CrateName, ParsedData>,
    import_candidates: CrateTypes,
) -> Result<(), anyhow::Error> {
    for (_crate_name, parsed_data) in crate_parsed_data {
        let outfile = Path::new(output_folder).join(&parsed_data.file_name);
        let mut generated_contents = Vec::new();
        lang.generate_types(&mut generated_contents, &import_candidates, parsed_data)?;
        check_write_file(&outfile, generated_contents)?;
    }

    lang.post_generation(&output_folder.as_os_str().to_string_lossy())
        .context("Post generation failed")?;

    Ok(())
}