fn write_comment(
        &self,
        w: &mut dyn Write,
        indent: usize,
        comment: &str,
    ) -> std::io::Result<()> {
        // Doc text may span several lines: every line has to carry the comment marker.
        for line in comment.split(|c| c == '\n' || c == '\r') {
            writeln!(w, "{}/// {}", "\t".repeat(indent), line)?;
        }
        Ok(())
    }