fn format_special_type(
        &mut self,
        special_ty: &SpecialRustType,
        generic_types: &[String],
    ) -> Result<String, RustTypeFormatError> {
        if let Some(mapped) = self.type_mappings.get(&special_ty.to_string()) {
            if json_translation_for_type(mapped).is_some() {
                self.types_for_custom_json_translation
                    .insert(mapped.to_string());
            }
            return Ok(mapped.to_owned());
        }
        match special_ty {
            SpecialRustType::Array(rtype, _)
            | SpecialRustType::Slice(rtype)
            | SpecialRustType::Vec(rtype) => {
                self.add_import("typing".to_string(), "List".to_string());
                Ok(format!("List[{}]", self.format_type(rtype, generic_types)?))
            }
            // We add optionality above the type formatting level
            SpecialRustType::Option(rtype) => {
                self.add_import("typing".to_string(), "Optional".to_string());
                Ok(format!(
                    "Optional[{}]",
                    self.format_type(rtype, generic_types)?
                ))
            }
            SpecialRustType::HashMap(rtype1, rtype2) => {
                self.add_import("typing".to_string(), "Dict".to_string());
                Ok(format!(
                    "Dict[{}, {}]",
                    match rtype1.as_ref() {
                        RustType::Simple { id } if generic_types.contains(id) => {
                            return Err(RustTypeFormatError::GenericKeyForbiddenInTS(id.clone()));
                        }
                        _ => self.format_type(rtype1, generic_types)?,
                    },
                    self.format_type(rtype2, generic_types)?
                ))
            }
            SpecialRustType::DateTime => {
                self.add_import("datetime".to_string(), "datetime".to_string());
                Ok("datetime".into())
            }
            SpecialRustType::Unit => Ok("None".into()),
            SpecialRustType::String | SpecialRustType::Char => Ok("str".into()),
            SpecialRustType::I8
            | SpecialRustType::U8
            | SpecialRustType::I16
            | SpecialRustType::U16
            | SpecialRustType::I32
            | SpecialRustType::U32
            | SpecialRustType::I54
            | SpecialRustType::U53
            | SpecialRustType::U64
            | SpecialRustType::I64
            | SpecialRustType::ISize
            | SpecialRustType::USize => Ok("int".into()),
            SpecialRustType::F32 | SpecialRustType::F64 => Ok("float".into()),
            SpecialRustType::Bool => Ok("bool".into()),
        }
    }