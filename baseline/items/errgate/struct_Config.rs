pub(crate) struct Config {
    pub swift: SwiftParams,
    pub typescript: TypeScriptParams,
    pub kotlin: KotlinParams,
    pub scala: ScalaParams,
    #[cfg(feature = "python")]
    pub python: PythonParams,
    #[cfg(feature = "go")]
    pub go: GoParams,
    #[serde(skip)]
    pub target_os: Vec<String>,
}