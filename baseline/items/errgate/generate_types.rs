fn generate_types(config_file: Option<&Path>, options: &Args) -> anyhow::Result<()> {
    info!("typeshare started generating types");

    let config = config::load_config(config_file).context("Unable to read configuration file")?;
    let config = override_configuration(config, options)?;

    let directories = options.directories.as_slice();

    info!("Using directories: {directories:?}");

    let language_type = match options.language {
        None => panic!("no language specified; `clap` should have guaranteed its presence"),
        Some(language) => match language {
            args::AvailableLanguage::Kotlin => SupportedLanguage::Kotlin,
            args::AvailableLanguage::Scala => SupportedLanguage::Scala,
            args::AvailableLanguage::Swift => SupportedLanguage::Swift,
            args::AvailableLanguage::Typescript => SupportedLanguage::TypeScript,
            #[cfg(feature = "go")]
            args::AvailableLanguage::Go => SupportedLanguage::Go,
            #[cfg(feature = "python")]
            args::AvailableLanguage::Python => SupportedLanguage::Python,
        },
    };

    let destination = if let Some(ref file) = options.output.file {
        Output::File(file)
    } else if let Some(ref folder) = options.output.folder {
        Output::Folder(folder)
    } else {
        panic!(
            "Got neither a file nor a folder to output to; this indicates a
            bug in typeshare, since `clap` is supposed to prevent this"
        )
    };

    let multi_file = matches!(destination, Output::Folder(_));
    let target_os = config.target_os.clone();
    let mut lang = language(language_type, config, multi_file);

    let parse_context = ParseContext {
        ignored_types: lang.ignored_reference_types(),
        multi_file,
        target_os,
    };

    let mut parsed_data = parallel_parse(
        &parse_context,
        walker_builder(directories, options)?,
        language_type,
    )?;

    reconcile_aliases(&mut parsed_data);

    // Collect all the types into a map of the file name they
    // belong too and the list of type names. Used for generating
    // imports in generated files.
    let import_candidates = if multi_file {
        all_types(&mut parsed_data)
    } else {
        HashMap::new()
    };

    check_parse_errors(&parsed_data)?;

    info!("typeshare started writing generated types");

    write_generated(destination, lang.as_mut(), parsed_data, import_candidates)?;

    info!("typeshare finished generating types");
    Ok(())
}