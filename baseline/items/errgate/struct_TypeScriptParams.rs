pub struct TypeScriptParams {
    pub type_mappings: HashMap<String, String>,
}