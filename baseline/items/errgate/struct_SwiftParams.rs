pub struct SwiftParams {
    pub prefix: String,
    pub default_decorators: Vec<String>,
    pub default_generic_constraints: Vec<String>,
    /// The constraints to apply to `CodableVoid`.
    pub codablevoid_constraints: Vec<String>,
    pub type_mappings: HashMap<String, String>,
}