pub struct ParseContext<'a> {
    /// Types to ignore
    pub ignored_types: Vec<&'a str>,
    /// Multi file output enabled.
    pub multi_file: bool,
    /// `target_os` filtering.
    pub target_os: Vec<String>,
}