pub enum AvailableLanguage {
    Kotlin,
    Scala,
    Swift,
    Typescript,
    #[cfg(feature = "go")]
    Go,
    #[cfg(feature = "python")]
    Python,
}