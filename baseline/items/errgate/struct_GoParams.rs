pub struct GoParams {
    pub package: String,
    pub uppercase_acronyms: Vec<String>,
    pub no_pointer_slice: bool,
    pub type_mappings: HashMap<String, String>,
}