pub enum Command {
    /// Generate shell completions
    Completions {
        /// The shell to generate the completions for
        shell: clap_complete::Shell,
    },
}