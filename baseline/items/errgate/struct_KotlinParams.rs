pub struct KotlinParams {
    pub package: String,
    pub module_name: String,
    pub prefix: String,
    pub type_mappings: HashMap<String, String>,
}