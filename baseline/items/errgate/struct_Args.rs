pub struct Args {
    #[command(subcommand)]
    pub subcommand: Option<Command>,

    /// Language of generated types
    #[arg(short, long = "lang", required_unless_present = "generate_config")]
    pub language: Option<AvailableLanguage>,

    /// Prefix for generated Swift types
    #[arg(short, long)]
    pub swift_prefix: Option<String>,

    /// Prefix for generated Kotlin types
    #[arg(short, long)]
    pub kotlin_prefix: Option<String>,

    /// JAVA package name
    #[arg(short, long)]
    pub java_package: Option<String>,

    /// Kotlin serializer module name
    #[arg(short = 'm', long = "module-name")]
    pub kotlin_module_name: Option<String>,

    /// Scala package name
    #[arg(long)]
    pub scala_package: Option<String>,

    /// Scala serializer module name
    #[arg(long)]
    pub scala_module_name: Option<String>,

    #[cfg(feature = "go")]
    /// Go package name
    #[arg(long)]
    pub go_package: Option<String>,

    /// Configuration file for typeshare
    #[arg(short, long)]
    pub config_file: Option<PathBuf>,

    #[command(flatten)]
    pub output: Output,

    /// Follow symbolic links to directories instead of ignoring them.
    #[arg(short = 'L', long)]
    pub follow_links: bool,

    /// Directories within which to recursively find and process rust files
    #[arg(required=true, num_args = 1..)]
    pub directories: Vec<PathBuf>,

    /// Optional restrict to target_os
    #[arg(short, long, num_args = 1.., value_delimiter = ',')]
    pub target_os: Option<Vec<String>>,
}