fn check_parse_errors(parsed_crates: &BTreeMap<CrateName, ParsedData>) -> anyhow::Result<()> {
    let mut errors_encountered = false;
    for data in parsed_crates
        .values()
        .filter(|parsed_data| !parsed_data.errors.is_empty())
    {
        errors_encountered = true;
        for error in &data.errors {
            error!(
                "Parsing error: \"{}\" in file \"{}\"",
                error.error, error.file_name
            );
        }
    }

    if errors_encountered {
        error!("Errors encountered during parsing.");
        Err(anyhow!("Errors encountered during parsing."))
    } else {
        Ok(())
    }
}