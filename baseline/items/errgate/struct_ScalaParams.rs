pub struct ScalaParams {
    pub package: String,
    pub module_name: String,
    pub type_mappings: HashMap<String, String>,
}