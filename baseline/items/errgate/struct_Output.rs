pub struct Output {
    /// File to write output to. mtime will be preserved if the file contents
    /// don't change
    #[arg(short = 'o', long = "output-file")]
    pub file: Option<PathBuf>,

    /// Folder to write output to. mtime will be preserved if the file contents
    /// don't change
    #[arg(short = 'd', long = "output-folder")]
    pub folder: Option<PathBuf>,

    // If given, we're going to output a new template configuration file
    // instead of running typeshare normally, so we make it mutually exclusive
    // with running normally
    /// Generates a configuration file based on the other options specified.
    /// The file will be written to typeshare.toml by default or to the file
    /// path specified by the --config-file option.
    #[arg(short, long)]
    pub generate_config: bool,
}