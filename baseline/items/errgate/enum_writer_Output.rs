pub enum Output<'a> {
    File(&'a Path),
    Folder(&'a Path),
}