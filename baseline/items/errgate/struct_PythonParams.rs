pub struct PythonParams {
    pub type_mappings: HashMap<String, String>,
}