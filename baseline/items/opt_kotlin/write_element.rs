fn write_element(
        &mut self,
        w: &mut dyn Write,
        f: &RustField,
        generic_types: &[String],
        requires_serial_name: bool,
        visibility: Visibility,
    ) -> std::io::Result<()> {
        self.write_comments(w, 1, &f.comments)?;
        if requires_serial_name {
            writeln!(w, "\t@SerialName({:?})", &f.id.renamed)?;
        }
        let ty = match f.type_override(SupportedLanguage::Kotlin) {
            // An override replaces the translated type, not the fact that the field is optional.
            Some(type_override) if f.ty.is_optional() => format!("{}?", type_override),
            Some(type_override) => type_override.to_owned(),
            None => self
                .format_type(&f.ty, generic_types)
                .map_err(|e| std::io::Error::new(std::io::ErrorKind::Other, e))?,
        };

        match visibility {
            Visibility::Public => write!(
                w,
                "\tval {}: {}{}",
                remove_dash_from_identifier(&f.id.renamed),
                ty,
                (f.has_default && !f.ty.is_optional())
                    .then_some("? = null")
                    .or_else(|| f.ty.is_optional().then_some(" = null"))
                    .unwrap_or_default()
            ),
            Visibility::Private => write!(
                w,
                "\tprivate val {}: {}{}",
                remove_dash_from_identifier(&f.id.renamed),
                ty,
                (f.has_default && !f.ty.is_optional())
                    .then_some("? = null")
                    .or_else(|| f.ty.is_optional().then_some(" = null"))
                    .unwrap_or_default()
            ),
        }
    }