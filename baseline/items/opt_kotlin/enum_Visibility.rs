enum Visibility {
    Public,
    Private,
}