#!/usr/bin/env python3
"""devunit <unit> [--rebaseline] - development helper: build one unit from /repo, run Verus, print compact diagnostics.
Not used by any registered check."""
import os
import sys
import importlib

HERE = os.path.dirname(os.path.abspath(__file__))
sys.path.insert(0, HERE)
sys.path.insert(0, os.path.join(os.path.dirname(HERE), 'units'))
import vunit  # noqa: E402


def main():
    name = sys.argv[1]
    mod = importlib.import_module(name)
    unit = mod.UNIT
    if '--rebaseline' in sys.argv:
        vunit.rebaseline(unit)
    work = '/var/tmp/typeshare-verif/dev'
    os.makedirs(work, exist_ok=True)
    try:
        text, prov = vunit.build(unit)
    except vunit.Undecided as ex:
        print('UNDECIDED (build):', ex)
        return 2
    path = os.path.join(work, name + '.rs')
    open(path, 'w').write(text)
    r = vunit.run_verus(path)
    print('file', path, 'ok', r['ok'], 'verified', r['verified'], 'errors', r['errors'], 'wall %.1fs' % r['wall_s'])
    for d in r['diags']:
        print('--', d['class'], 'line', d.get('line'), ':', (d.get('message') or '')[:300])
        if d.get('text'):
            print('     ', d['text'].strip()[:200])
        if d.get('other_text'):
            print('   at', str(d['other_text']).strip()[:200])
        if '-v' in sys.argv and d.get('rendered'):
            print(d['rendered'][:1500])
    if not r['diags'] and not r['ok']:
        print(r.get('stderr', '')[-3000:])
    miss = [f for f in unit.functions if not r['functions'].get(f, {}).get('success')]
    if miss:
        print('functions not reported verified:', miss, '\nreported:', sorted(r['functions']))
    return 0 if r['ok'] and not miss else 1


if __name__ == '__main__':
    sys.exit(main())
