"""rsx - mechanical extraction of Rust items from /repo and reversible annotation.

Nothing in here understands Rust semantics.  It tokenises (strings, raw strings, chars,
lifetimes, nested comments), finds items by header, and applies three kinds of edit:

  ins   insert specification / ghost text at a token boundary          (erasable)
  rep   replace a token range by other text, remembering the original   (reversible)
  drop  remove a token range (attributes, logging), remembering it      (reversible)

Every edit is anchored in the *pinned* text of the item (baseline/items/...), and transported
to the current text of the item along a token-level diff, so that a change elsewhere in the
function does not lose the annotations.  The result carries markers, and `erase()` recovers the
current source slice byte for byte (checked on every run).
"""
import difflib
import hashlib
import re

# --------------------------------------------------------------------------- tokenizer

WS, LC, BC, STR, CHAR, LIFE, ID, NUM, P = 'ws', 'lc', 'bc', 'str', 'char', 'life', 'id', 'num', 'p'
TRIVIA = (WS, LC, BC)


class LexError(Exception):
    pass


class AnchorLost(Exception):
    """An anchor of the pinned text has no unambiguous image in the current text."""


class ItemNotFound(Exception):
    pass


_id_re = re.compile(r'[A-Za-z_\u0080-\U0010ffff][A-Za-z0-9_\u0080-\U0010ffff]*')
_num_re = re.compile(r'[0-9][0-9A-Za-z_]*(\.[0-9][0-9A-Za-z_]*)?')
_raw_re = re.compile(r'b?r(#*)"')


def lex(text):
    """-> list of (kind, start, end)."""
    toks = []
    i, n = 0, len(text)
    while i < n:
        c = text[i]
        if c.isspace():
            j = i + 1
            while j < n and text[j].isspace():
                j += 1
            toks.append((WS, i, j)); i = j; continue
        if text.startswith('//', i):
            j = text.find('\n', i)
            j = n if j < 0 else j
            toks.append((LC, i, j)); i = j; continue
        if text.startswith('/*', i):
            depth, j = 1, i + 2
            while j < n and depth:
                if text.startswith('/*', j):
                    depth += 1; j += 2
                elif text.startswith('*/', j):
                    depth -= 1; j += 2
                else:
                    j += 1
            if depth:
                raise LexError('unterminated block comment at %d' % i)
            toks.append((BC, i, j)); i = j; continue
        m = _raw_re.match(text, i)
        if m:
            close = '"' + m.group(1)
            j = text.find(close, m.end())
            if j < 0:
                raise LexError('unterminated raw string at %d' % i)
            j += len(close)
            toks.append((STR, i, j)); i = j; continue
        if c == '"' or (c == 'b' and text.startswith('b"', i)):
            j = i + (2 if c == 'b' else 1)
            while j < n and text[j] != '"':
                j += 2 if text[j] == '\\' else 1
            if j >= n:
                raise LexError('unterminated string at %d' % i)
            toks.append((STR, i, j + 1)); i = j + 1; continue
        if c == "'" or (c == 'b' and text.startswith("b'", i)):
            s = i + (1 if c == 'b' else 0)
            # char literal or lifetime
            if s + 1 < n and text[s + 1] == '\\':
                j = s + 2
                while j < n and text[j] != "'":
                    j += 1
                toks.append((CHAR, i, j + 1)); i = j + 1; continue
            if s + 2 < n and text[s + 2] == "'":
                toks.append((CHAR, i, s + 3)); i = s + 3; continue
            m = _id_re.match(text, s + 1)
            if m:
                toks.append((LIFE, i, m.end())); i = m.end(); continue
            raise LexError('stray quote at %d' % i)
        m = _id_re.match(text, i)
        if m:
            j = m.end()
            if text.startswith('r#', i) and m.end() == i + 1:
                m2 = _id_re.match(text, i + 2)
                if m2:
                    j = m2.end()
            toks.append((ID, i, j)); i = j; continue
        m = _num_re.match(text, i)
        if m:
            toks.append((NUM, i, m.end())); i = m.end(); continue
        toks.append((P, i, i + 1)); i += 1
    return toks


class Src:
    def __init__(self, text):
        self.text = text
        self.toks = lex(text)
        self.sig = [t for t in self.toks if t[0] not in TRIVIA]
        self.sigtext = [text[s:e] for (_, s, e) in self.sig]

    def tok_at_start(self, pos):
        for k, (_, s, e) in enumerate(self.sig):
            if s == pos:
                return k
        return None

    def tok_at_end(self, pos):
        for k, (_, s, e) in enumerate(self.sig):
            if e == pos:
                return k
        return None


OPEN = {'(': ')', '[': ']', '{': '}'}
CLOSE = {')', ']', '}'}


def match_close(st, k):
    """index of the sig token closing the bracket opened at sig index k"""
    depth = 0
    for j in range(k, len(st)):
        t = st[j]
        if t in OPEN:
            depth += 1
        elif t in CLOSE:
            depth -= 1
            if depth == 0:
                return j
    raise LexError('unbalanced bracket')


# --------------------------------------------------------------------------- item finder

def _find_header(src, hdr, lo, hi, depth_only=True):
    """find header token sequence among sig tokens [lo,hi) at relative brace depth 0."""
    h = [hdr[s:e] for (k, s, e) in lex(hdr) if k not in TRIVIA]
    st = src.sigtext
    hits = []
    depth = 0
    k = lo
    while k < hi:
        t = st[k]
        if depth == 0 and st[k:k + len(h)] == h:
            hits.append(k)
        if t in OPEN:
            depth += 1
        elif t in CLOSE:
            depth -= 1
        k += 1
    return hits, len(h)


def find_item(src, path):
    """path: list of headers, outermost first, e.g. ['impl RenameExt for String {', 'fn to_snake_case'].
    -> (start_byte, end_byte, first_sig_idx, last_sig_idx) of the innermost item (visibility included,
    attributes and doc comments excluded).  When an outer header occurs several times (two `impl X {` blocks),
    the one containing the rest of the path is taken; the full path must identify exactly one item."""
    found = _find_in(src, path, 0, len(src.sig))
    if len(found) != 1:
        raise ItemNotFound('%r: %d matches' % (path, len(found)))
    return found[0]


def _find_in(src, path, lo, hi):
    st = src.sigtext
    hdr = path[0]
    hits, hl = _find_header(src, hdr, lo, hi)
    if hdr.split()[0] == 'fn' or ' fn ' in (' ' + hdr):
        hits = [k for k in hits if st[k + hl] in ('(', '<')]
    if hdr.split()[0] in ('struct', 'enum', 'trait', 'mod', 'const', 'type') and not hdr.rstrip().endswith('{'):
        hits = [k for k in hits if st[k + hl] in ('{', '<', '(', ';', ':', '=')]
    out = []
    for k in hits:
        j, pd, end, body_open = k, 0, None, None
        while j < hi:
            t = st[j]
            if t in ('(', '['):
                pd += 1
            elif t in (')', ']'):
                pd -= 1
            elif t == '{' and pd == 0:
                end = match_close(st, j)
                body_open = j
                break
            elif t == ';' and pd == 0:
                end = j
                break
            j += 1
        if end is None:
            continue
        first = k
        if first - 1 >= lo and st[first - 1] == 'pub':
            first -= 1
        elif first - 4 >= lo and st[first - 4] == 'pub' and st[first - 3] == '(' and st[first - 1] == ')':
            first -= 4
        if len(path) == 1:
            out.append((src.sig[first][1], src.sig[end][2], first, end))
        elif body_open is not None:
            out.extend(_find_in(src, path[1:], body_open + 1, end))
    return out


# --------------------------------------------------------------------------- anchors (in pinned text)

class Anchor:
    """A point or a range in the pinned item text.  kinds:
       text(s, nth)           the (nth, 1-based; default: unique) occurrence of s - a range
       sig(fn)                point just before the `{` opening the body of fn (None = the item itself)
       body_start(fn)         point just after that `{`
       body_end(fn)           point just before the matching `}`
       loop(k, fn)            point just before the `{` opening the body of the k-th loop (0-based, pre-order) of fn
       ret(fn)                range of the return type of fn (between `->` and the body / where)
    """

    def __init__(self, kind, **kw):
        self.kind = kind
        self.kw = kw

    def __repr__(self):
        return 'A.%s(%s)' % (self.kind, ', '.join('%s=%r' % kv for kv in self.kw.items()))


class A:
    @staticmethod
    def text(s, nth=None): return Anchor('text', s=s, nth=nth)
    @staticmethod
    def span(s, e, nth=None): return Anchor('span', s=s, e=e, nth=nth)
    @staticmethod
    def sig(fn=None): return Anchor('sig', fn=fn)
    @staticmethod
    def body_start(fn=None): return Anchor('body_start', fn=fn)
    @staticmethod
    def body_end(fn=None): return Anchor('body_end', fn=fn)
    @staticmethod
    def loop(k, fn=None): return Anchor('loop', k=k, fn=fn)
    @staticmethod
    def ret(fn=None): return Anchor('ret', fn=fn)
    @staticmethod
    def loop_body(k, fn=None): return Anchor('loop_body', k=k, fn=fn)
    @staticmethod
    def loop_end(k, fn=None): return Anchor('loop_end', k=k, fn=fn)
    @staticmethod
    def loop_after(k, fn=None): return Anchor('loop_after', k=k, fn=fn)
    @staticmethod
    def next_tok(s, tok, nth=None): return Anchor('next_tok', s=s, tok=tok, nth=nth)


def _fn_range(src, fn):
    """sig-token index range (hdr_idx, body_open_idx, body_close_idx) of function fn inside src (an item text)."""
    st = src.sigtext
    if fn == '<block>':
        # a lifted statement block (T11): the whole text is the body
        return 0, -1, len(st)
    if fn is None:
        # the item itself: first `fn` token at depth 0, or, for non-fn items, the first {
        for k, t in enumerate(st):
            if t == 'fn':
                break
        else:
            k = 0
    else:
        ks = [k for k in range(len(st) - 1) if st[k] == 'fn' and st[k + 1] == fn]
        if len(ks) != 1:
            raise ItemNotFound('fn %s: %d matches in item' % (fn, len(ks)))
        k = ks[0]
    j, pd = k, 0
    while j < len(st):
        t = st[j]
        if t in ('(', '['):
            pd += 1
        elif t in (')', ']'):
            pd -= 1
        elif t == '{' and pd == 0:
            return k, j, match_close(st, j)
        elif t == ';' and pd == 0 and st[k] == 'fn':
            break
        j += 1
    raise ItemNotFound('fn %s has no body' % fn)


def _loops(src, bo, bc):
    """sig indices of the `{` opening each loop body between bo and bc, pre-order."""
    st = src.sigtext
    out = []
    k = bo + 1
    while k < bc:
        t = st[k]
        if t in ('for', 'while', 'loop') and not (t == 'for' and st[k + 1] == '<'):
            j, pd = k + 1, 0
            while j < bc:
                u = st[j]
                if u in ('(', '['):
                    pd += 1
                elif u in (')', ']'):
                    pd -= 1
                elif u == '{' and pd == 0:
                    out.append(j)
                    break
                j += 1
        k += 1
    return out


def resolve(src, anchor):
    """-> ('pt', sig_idx, 'before'|'after') or ('rg', first_sig_idx, last_sig_idx) in src (pinned)."""
    kd, kw = anchor.kind, anchor.kw
    st = src.sigtext
    if kd == 'text':
        # whitespace/comment-insensitive: the anchor is matched as a sequence of significant tokens
        s, nth = kw['s'], kw['nth']
        want = [s[a:b] for (k, a, b) in lex(s) if k not in TRIVIA]
        occ = [(i, i + len(want) - 1) for i in range(len(st) - len(want) + 1) if st[i:i + len(want)] == want]
        if nth is None:
            if len(occ) != 1:
                raise AnchorLost('anchor %r: %d occurrences in pinned text' % (s, len(occ)))
            return ('rg',) + occ[0]
        if nth > len(occ):
            raise AnchorLost('anchor %r: no occurrence #%d' % (s, nth))
        return ('rg',) + occ[nth - 1]
    if kd == 'span':
        a = resolve(src, Anchor('text', s=kw['s'], nth=kw.get('nth')))
        want = [kw['e'][x:y] for (k, x, y) in lex(kw['e']) if k not in TRIVIA]
        for i in range(a[1], len(st) - len(want) + 1):
            if st[i:i + len(want)] == want:
                return ('rg', a[1], i + len(want) - 1)
        raise AnchorLost('span end %r not found after %r' % (kw['e'], kw['s']))
    if kd == 'next_tok':
        r = resolve(src, Anchor('text', s=kw['s'], nth=kw['nth']))
        for j in range(r[2] + 1, len(st)):
            if st[j] == kw['tok']:
                return ('rg', j, j)
        raise AnchorLost('no %r after %r' % (kw['tok'], kw['s']))
    h, bo, bc = _fn_range(src, kw.get('fn'))
    if kd == 'sig':
        return ('pt', bo, 'before')
    if kd == 'body_start':
        return ('pt', bo, 'after')
    if kd == 'body_end':
        return ('pt', bc, 'before')
    if kd == 'loop':
        ls = _loops(src, bo, bc)
        if kw['k'] >= len(ls):
            raise AnchorLost('loop %d: function has %d loops' % (kw['k'], len(ls)))
        return ('pt', ls[kw['k']], 'before')
    if kd == 'loop_body':
        ls = _loops(src, bo, bc)
        if kw['k'] >= len(ls):
            raise AnchorLost('loop %d: function has %d loops' % (kw['k'], len(ls)))
        return ('pt', ls[kw['k']], 'after')
    if kd == 'loop_end':
        ls = _loops(src, bo, bc)
        if kw['k'] >= len(ls):
            raise AnchorLost('loop %d: function has %d loops' % (kw['k'], len(ls)))
        return ('pt', match_close(st, ls[kw['k']]), 'before')
    if kd == 'loop_after':
        ls = _loops(src, bo, bc)
        if kw['k'] >= len(ls):
            raise AnchorLost('loop %d: function has %d loops' % (kw['k'], len(ls)))
        return ('pt', match_close(st, ls[kw['k']]), 'after')
    if kd == 'ret':
        # tokens after `->` (last one at paren depth 0 before the body) up to `{` / where
        j, pd, arrow = h, 0, None
        while j < bo:
            t = st[j]
            if t in ('(', '['):
                pd += 1
            elif t in (')', ']'):
                pd -= 1
            elif t == '-' and st[j + 1] == '>' and pd == 0:
                arrow = j + 1
            j += 1
        if arrow is None:
            raise AnchorLost('fn has no return type')
        last = bo - 1
        for j in range(arrow + 1, bo):
            if st[j] == 'where':
                last = j - 1
                break
        return ('rg', arrow + 1, last)
    raise ValueError(kd)


# --------------------------------------------------------------------------- transport pinned -> current

class Transport:
    def __init__(self, pinned, current):
        self.p, self.c = pinned, current
        self.identity = pinned.text == current.text
        if not self.identity:
            sm = difflib.SequenceMatcher(None, pinned.sigtext, current.sigtext, autojunk=False)
            self.ops = sm.get_opcodes()

    def _op(self, k):
        for (tag, i1, i2, j1, j2) in self.ops:
            if i1 <= k < i2:
                return tag, i1, i2, j1, j2
        raise AnchorLost('token %d outside diff' % k)

    def start_of(self, k):
        """byte offset in current text corresponding to the START of pinned sig token k"""
        if self.identity:
            return self.c.sig[k][1]
        tag, i1, i2, j1, j2 = self._op(k)
        if tag == 'equal':
            return self.c.sig[j1 + (k - i1)][1]
        if k == i1:
            if j1 < len(self.c.sig):
                return self.c.sig[j1][1] if j2 > j1 else (self.c.sig[j1][1])
            return len(self.c.text)
        raise AnchorLost('anchor token %r lies inside a changed region' % self.p.sigtext[k])

    def end_of(self, k):
        if self.identity:
            return self.c.sig[k][2]
        tag, i1, i2, j1, j2 = self._op(k)
        if tag == 'equal':
            return self.c.sig[j1 + (k - i1)][2]
        if k == i2 - 1:
            if j2 > j1:
                return self.c.sig[j2 - 1][2]
            return self.c.sig[j1 - 1][2] if j1 > 0 else 0
        raise AnchorLost('anchor token %r lies inside a changed region' % self.p.sigtext[k])

    def range_unchanged(self, a, b):
        """pinned tokens a..b (inclusive) map to a contiguous identical run in current -> (start, end) bytes"""
        if self.identity:
            return self.c.sig[a][1], self.c.sig[b][2]
        tag, i1, i2, j1, j2 = self._op(a)
        if tag != 'equal' or b >= i2:
            raise AnchorLost('replaced fragment %r..%r was modified' % (self.p.sigtext[a], self.p.sigtext[b]))
        return self.c.sig[j1 + (a - i1)][1], self.c.sig[j1 + (b - i1)][2]


# --------------------------------------------------------------------------- edits

class Edit:
    """kind: ins | rep | drop.  where: for ins on a range anchor: 'before' | 'after'.
    tag: T1..T11 (DESIGN.md section 3.1); cid: clause id used in reports."""

    def __init__(self, kind, anchor, text='', where='after', tag='T1', cid=None, note=None, loose=False):
        self.kind, self.anchor, self.text, self.where, self.tag, self.cid, self.note = kind, anchor, text, where, tag, cid, note
        # loose: the replaced / dropped region may differ from the pinned text as long as its first and last token are still there -
        # ONLY for a region that is extracted from the current text as an item of its own (T11 lift), so that its content is verified there
        self.loose = loose


def ins(anchor, text, where='after', cid=None, tag='T1'):
    return Edit('ins', anchor, text, where, tag, cid)


def rep(anchor, text, tag='T3', cid=None, note=None, loose=False):
    return Edit('rep', anchor, text, 'after', tag, cid, note, loose)


def drop(anchor, tag='T6', note=None, loose=False):
    return Edit('drop', anchor, '', 'after', tag, None, note, loose)


def strip_attr_edits(src):
    """T5: drop every outer/inner attribute `#[...]` / `#![...]` inside the item (pinned coordinates)."""
    st = src.sigtext
    out = []
    k = 0
    while k < len(st):
        if st[k] == '#' and k + 1 < len(st) and (st[k + 1] == '[' or (st[k + 1] == '!' and st[k + 2] == '[')):
            o = k + 1 if st[k + 1] == '[' else k + 2
            c = match_close(st, o)
            out.append(('rg', k, c))
            k = c + 1
        else:
            k += 1
    return out


class Hole:
    """a placeholder: name None = positional; debug = `{:?}` (Debug formatting)"""
    def __init__(self, name, debug):
        self.name, self.debug = name, debug


def split_format_literal(lit):
    """-> (pieces, holes) for a format-string literal token: pieces are the literal texts around the placeholders, holes[i] is None for a
    positional `{}` or the identifier of an inline / named argument `{name}`.  None when the literal uses anything else (`{:?}`, `{0}`,
    width / precision ...): such a site is not rewritten."""
    raw = False
    m_ = re.match(r'r(#*)"', lit)
    if m_:
        h = len(m_.group(1))
        if not lit.endswith('"' + '#' * h):
            return None
        raw, inner_text = True, lit[2 + h:len(lit) - 1 - h]
    elif lit.startswith('"') and lit.endswith('"'):
        inner_text = lit[1:-1]
    else:
        return None
    body, pieces, holes, cur, i = inner_text, [], [], '', 0
    while i < len(body):
        ch = body[i]
        if ch == '\\' and not raw:
            cur += body[i:i + 2]; i += 2; continue
        if ch == '{':
            if body[i:i + 2] == '{{':
                cur += '{'; i += 2; continue
            j = body.find('}', i)
            if j < 0:
                return None
            inner = body[i + 1:j]
            dbg = inner.endswith(':?')
            if dbg:
                inner = inner[:-2]
            if inner == '':
                holes.append(Hole(None, dbg))
            elif re.fullmatch(r'[A-Za-z_][A-Za-z0-9_]*', inner):
                holes.append(Hole(inner, dbg))
            else:
                return None
            pieces.append(cur); cur = ''; i = j + 1; continue
        if ch == '}':
            if body[i:i + 2] == '}}':
                cur += '}'; i += 2; continue
            return None
        cur += ch; i += 1
    pieces.append(cur)
    if raw:
        # re-spell every piece as an ordinary literal (a raw literal has no escapes: quote and backslash need one, line breaks become \\n)
        pieces = [p_.replace('\\', '\\\\').replace('"', '\\"').replace('\n', '\\n').replace('\t', '\\t') for p_ in pieces]
    return pieces, holes


def _free_standing(st, k):
    """the token at k does not continue a path (`a::b`) or a method / field access (`a.b`); a `..` before it is fine"""
    if k == 0:
        return True
    if st[k - 1] == ':':
        return False
    if st[k - 1] == '.' and not (k >= 2 and st[k - 2] == '.'):
        return False
    return True


def auto_ops(c, rules, prefix):
    """T14 / T15, located in the CURRENT text (like attribute stripping they carry no proof anchors):
    'fmt'   : format!("a{}b{}c", e1, e2)  ->  fmt_<prefix>_<k>(&(e1), &(e2))   with the contract r == "a" + e1 + "b" + e2 + "c" GENERATED
              from the literal found in the current text (std::fmt semantics of `{}` on strings / integers);
    'strlit': "lit".into() / "lit".to_string() / "lit".to_owned()  ->  str_into("lit")   (String from a literal).
    -> list of (start_byte, end_byte, kind, text, rec)"""
    st, sig, out = c.sigtext, c.sig, []
    if 'fmt' in rules:
        ordinal = 0
        for k in range(len(st) - 3):
            if st[k] in ('format', 'write', 'writeln') and st[k + 1] == '!' and st[k + 2] == '(' and _free_standing(st, k):
                close = match_close(st, k + 2)
                writer = None
                lit_at = k + 3
                if st[k] != 'format':
                    # write!(w, "lit", ..) / writeln!(w, "lit", ..) / writeln!(w): the writer must be a plain identifier
                    if not re.fullmatch(r'[A-Za-z_][A-Za-z0-9_]*', st[k + 3]):
                        continue
                    writer = st[k + 3]
                    if st[k + 4] == ')' and st[k] == 'writeln':
                        name = 'wfmt_%s_%d' % (prefix, ordinal); ordinal += 1
                        site = {'name': name, 'pieces': [''], 'nargs': 0, 'literal': '(none)', 'writer': True, 'newline': True}
                        out.append((sig[k][1], sig[close][2], 'rep', '%s(%s)' % (name, writer), {'tag': 'T14', 'fmt_site': site}))
                        continue
                    if st[k + 4] != ',':
                        continue
                    lit_at = k + 5
                name = '%s_%s_%d' % ('wfmt' if writer else 'fmt', prefix, ordinal)
                ordinal += 1
                parsed = split_format_literal(st[lit_at])
                if parsed is None:
                    continue   # left as is: reported as a construct without a usable specification (undecided, never an alarm)
                pieces, holes = parsed
                # top-level commas
                commas, depth = [], 0
                for j in range(lit_at, close):
                    t = st[j]
                    if t in OPEN:
                        depth += 1
                    elif t in CLOSE:
                        depth -= 1
                    elif t == ',' and depth == 0:
                        commas.append(j)
                trailing = bool(commas) and commas[-1] == close - 1
                seps = commas[:-1] if trailing else commas
                # argument token ranges [a, b)
                bounds = seps + [commas[-1] if trailing else close]
                args = [(seps[i] + 1, bounds[i + 1]) for i in range(len(seps))]
                named = {}
                positional = []
                for (a, b) in args:
                    if b - a >= 3 and st[a + 1] == '=' and st[a + 2] != '=' and re.fullmatch(r'[A-Za-z_][A-Za-z0-9_]*', st[a]):
                        named[st[a]] = (a + 2, b)
                    else:
                        positional.append((a, b))
                if len(positional) != sum(1 for h in holes if h.name is None):
                    continue
                # the call's arguments in placeholder order, as source text of the CURRENT file
                texts, pi = [], 0
                for h in holes:
                    if h.name is None:
                        a, b = positional[pi]; pi += 1
                        texts.append(c.text[sig[a][1]:sig[b - 1][2]])
                    elif h.name in named:
                        a, b = named[h.name]
                        texts.append(c.text[sig[a][1]:sig[b - 1][2]])
                    else:
                        texts.append(h.name)     # inline captured variable
                site = {'name': name, 'pieces': pieces, 'nargs': len(holes), 'debug': [h.debug for h in holes], 'literal': st[lit_at], 'writer': bool(writer), 'newline': st[k] == 'writeln'}
                simple = all(h.name is None for h in holes) and not named
                wpre = (writer + ', ') if writer else ''
                if simple and holes:
                    # keep every argument expression in place: only the macro head, the separators and the closing parenthesis change
                    out.append((sig[k][1], sig[seps[0]][2], 'rep', '%s(%s&(' % (name, wpre), {'tag': 'T14', 'fmt_site': site}))
                    for j in seps[1:]:
                        out.append((sig[j][1], sig[j][2], 'rep', '), &(', {'tag': 'T14'}))
                    out.append((sig[commas[-1]][1] if trailing else sig[close][1], sig[close][2], 'rep', '))', {'tag': 'T14'}))
                else:
                    # inline / named arguments (or none): the whole macro call is replaced by the call with the arguments in placeholder order
                    out.append((sig[k][1], sig[close][2], 'rep', '%s(%s%s)' % (name, wpre if texts else (writer or ''), ', '.join('&(%s)' % t for t in texts)), {'tag': 'T14', 'fmt_site': site}))
    if 'log' in rules:
        # T6: a statement `info!(..);` / `warn!(..);` / `error!(..);` / `debug!(..);` / `trace!(..);` (log crate) is dropped wherever it stands in the
        # CURRENT text - logging is not part of any property; only whole statements (preceded by `;` `{` `}` and followed by `;`)
        for k in range(len(st) - 3):
            if st[k] in ('info', 'warn', 'error', 'debug', 'trace') and st[k + 1] == '!' and st[k + 2] == '(' and (k == 0 or st[k - 1] in (';', '{', '}')):
                close = match_close(st, k + 2)
                if close + 1 < len(st) and st[close + 1] == ';':
                    out.append((sig[k][1], sig[close + 1][2], 'drop', '', {'tag': 'T6'}))
    for rule in rules:
        # ('tok', 'a.b()', 'f(a)', tag): every occurrence of the token sequence in the current text is rewritten (current-anchored,
        # so that deleting or duplicating an occurrence does not lose an anchor)
        if isinstance(rule, tuple) and rule[0] == 'tok':
            pat = Src(rule[1]).sigtext
            n = len(pat)
            for k in range(len(st) - n + 1):
                if st[k:k + n] == pat and _free_standing(st, k):
                    out.append((sig[k][1], sig[k + n - 1][2], 'rep', rule[2], {'tag': rule[3] if len(rule) > 3 else 'T15'}))
    if 'map_err_q' in rules:
        # T14b: CHAIN.map_err(|e| ..)?  ->  (match CHAIN { Ok(v) => v, Err(e) => return Err(io_error_other(e)) })   CHAIN (a postfix chain
        # `a.b(..).c(..)`) stays verbatim; the closure only converts the error value (std: Result::map_err, the `?` operator)
        for k in range(1, len(st) - 6):
            if st[k] == '.' and st[k + 1] == 'map_err' and st[k + 2] == '(' and st[k + 3] == '|':
                close = match_close(st, k + 2)
                if close + 1 >= len(st) or st[close + 1] != '?':
                    continue
                # walk back over the postfix chain
                j = k - 1
                while j >= 0:
                    if st[j] in CLOSE:
                        depth, i2 = 0, j
                        while i2 >= 0:
                            if st[i2] in CLOSE:
                                depth += 1
                            elif st[i2] in OPEN:
                                depth -= 1
                                if depth == 0:
                                    break
                            i2 -= 1
                        j = i2 - 1
                        continue
                    if re.fullmatch(r'[A-Za-z_][A-Za-z0-9_]*', st[j]) or st[j] == '.' or st[j] == '&':
                        if st[j] in ('return', 'match', 'if', 'in', 'let', 'else', 'mut'):
                            break
                        j -= 1
                        continue
                    if st[j] == ':' and j > 0 and st[j - 1] == ':':
                        j -= 2
                        continue
                    break
                start = j + 1
                if start >= k:
                    continue
                out.append((sig[start][1], sig[start][1], 'ins', '(match ', {'tag': 'T14b'}))
                out.append((sig[k][1], sig[close + 1][2], 'rep', ' { Ok(v__) => v__, Err(e__) => return Err(io_error_other(e__)) })', {'tag': 'T14b'}))
    if 'then_some' in rules:
        # T14b: B.then_some(L)[.or_else(|| C.then_some(M))]*.unwrap_or_default()  ->  (if B { L } [else if C { M }]* else { "" })
        # for B an identifier or a parenthesised expression; B, C, L, M stay verbatim
        # (std: bool::then_some, Option::or_else, Option::unwrap_or_default, <&str as Default>::default() == "")
        for k in range(1, len(st) - 8):
            if not (st[k] == '.' and st[k + 1] == 'then_some' and st[k + 2] == '(' and st[k + 3].startswith('"') and st[k + 4] == ')'):
                continue
            if st[k - 1] == ')':
                depth, j = 0, k - 1
                while j >= 0:
                    if st[j] in CLOSE:
                        depth += 1
                    elif st[j] in OPEN:
                        depth -= 1
                        if depth == 0:
                            break
                    j -= 1
                if j < 0 or st[j] != '(':
                    continue
                if j > 0 and re.fullmatch(r'[A-Za-z_][A-Za-z0-9_]*', st[j - 1]):
                    # B is a call `path.to.method(args)`: the receiver path (identifiers joined by `.`) belongs to B
                    start = j - 1
                    while start >= 2 and st[start - 1] == '.' and re.fullmatch(r'[A-Za-z_][A-Za-z0-9_]*', st[start - 2]):
                        start -= 2
                    if start >= 1 and (st[start - 1] in ('.', ')', ']', '?', '::', '&', '!', '*') or re.fullmatch(r'[A-Za-z_][A-Za-z0-9_]*', st[start - 1])):
                        continue
                else:
                    start = j
            elif re.fullmatch(r'[A-Za-z_][A-Za-z0-9_]*', st[k - 1]) and _free_standing(st, k - 1):
                start = k - 1
            else:
                continue
            ops_ = [(sig[start][1], sig[start][1], 'ins', '(if ', {'tag': 'T14b'})]
            pos = k            # index of the '.' before then_some
            lit_ = st[k + 3]
            ok = True
            while True:
                after = pos + 5    # token after `.then_some(LIT)`
                if st[after] == '.' and st[after + 1] == 'unwrap_or_default' and st[after + 2] == '(' and st[after + 3] == ')':
                    ops_.append((sig[pos][1], sig[after + 3][2], 'rep', ' { %s } else { "" })' % lit_, {'tag': 'T14b'}))
                    break
                if st[after] == '.' and st[after + 1] == 'or_else' and st[after + 2] == '(' and st[after + 3] == '|' and st[after + 4] == '|':
                    oc = match_close(st, after + 2)
                    # inside: COND . then_some ( LIT )
                    if not (st[oc - 1] == ')' and st[oc - 2].startswith('"') and st[oc - 3] == '(' and st[oc - 4] == 'then_some' and st[oc - 5] == '.'):
                        ok = False; break
                    ops_.append((sig[pos][1], sig[after + 4][2], 'rep', ' { %s } else if ' % lit_, {'tag': 'T14b'}))
                    # the condition tokens after `||` up to `.then_some` stay verbatim; then continue from that then_some
                    lit_ = st[oc - 2]
                    # replace `.then_some(LIT))` (incl. the or_else closing paren) together with what follows in the next round
                    nxt = oc + 1
                    if st[nxt] == '.' and st[nxt + 1] == 'unwrap_or_default' and st[nxt + 2] == '(' and st[nxt + 3] == ')':
                        ops_.append((sig[oc - 5][1], sig[nxt + 3][2], 'rep', ' { %s } else { "" })' % lit_, {'tag': 'T14b'}))
                        break
                    ok = False; break
                ok = False; break
            if ok:
                out.extend(ops_)
    if 'strlit' in rules:
        # T15: String construction from a literal or a named value: X.into() / X.to_string() / X.to_owned() / String::from(X), X a string literal
        # or an identifier -> txt_into(X) (contract: the same text; the argument must be str / String / a reference to one, else rustc rejects
        # the generated unit: undecided)
        taken = [(a, b) for (a, b, _, _, _) in out]
        ident = re.compile(r'[A-Za-z_][A-Za-z0-9_]*$')
        for k in range(len(st) - 4):
            x = st[k]
            if (x.startswith('"') or (ident.match(x) and x not in ('self', 'Self', 'super', 'crate') and _free_standing(st, k))) \
                    and st[k + 1] == '.' and st[k + 2] in ('into', 'to_string', 'to_owned') and st[k + 3] == '(' and st[k + 4] == ')':
                a, b = sig[k][1], sig[k + 4][2]
                if not any(a < tb and ta < b for (ta, tb) in taken):
                    out.append((a, b, 'rep', 'txt_into(%s)' % x, {'tag': 'T15'}))
            elif ident.match(x) and x not in ('Self', 'super', 'crate') and _free_standing(st, k):
                # a field path a.b.c followed by .to_string() / .into() / .to_owned(): the same text, by reference
                j = k
                while j + 2 < len(st) and st[j + 1] == '.' and ident.match(st[j + 2]) and st[j + 3] != '(':
                    j += 2
                if j > k and j + 4 < len(st) and st[j + 1] == '.' and st[j + 2] in ('into', 'to_string', 'to_owned') and st[j + 3] == '(' and st[j + 4] == ')':
                    a, b = sig[k][1], sig[j + 4][2]
                    if not any(a < tb and ta < b for (ta, tb) in taken):
                        out.append((a, b, 'rep', 'txt_into(&%s)' % c.text[sig[k][1]:sig[j][2]], {'tag': 'T15'}))
            if x == 'String' and st[k + 1] == ':' and st[k + 2] == ':' and st[k + 3] == 'from' and st[k + 4] == '(' and k + 6 < len(st) and st[k + 6] == ')' \
                    and (st[k + 5].startswith('"') or ident.match(st[k + 5])):
                out.append((sig[k][1], sig[k + 6][2], 'rep', 'txt_into(%s)' % st[k + 5], {'tag': 'T15'}))
    return out


def apply(pinned_text, current_text, edits, strip_attrs=True, cfg_features=None, auto=(), auto_prefix=''):
    """-> (annotated_text, records).  Raises AnchorLost."""
    p, c = Src(pinned_text), Src(current_text)
    tr = Transport(p, c)
    ops = []  # (start, end, order, kind, text, rec)
    n = 0

    def add(start, end, kind, text, rec):
        nonlocal n
        n += 1
        ops.append((start, end, n, kind, text, rec))

    if strip_attrs:
        # attributes are located in the CURRENT text (they carry no annotation anchors)
        st = c.sigtext
        skip_until = -1
        for (_, a, b) in strip_attr_edits(c):
            if a <= skip_until:
                continue  # inside an element already dropped by T10
            attr = c.text[c.sig[a][1]:c.sig[b][2]]
            m = re.match(r'#\s*\[\s*cfg\s*\(\s*feature\s*=\s*"([^"]+)"\s*\)\s*\]$', attr)
            mnot = re.match(r'#\s*\[\s*cfg\s*\(\s*not\s*\(\s*feature\s*=\s*"([^"]+)"\s*\)\s*\)\s*\]$', attr)
            if cfg_features is not None and ((m and m.group(1) not in cfg_features) or (mnot and mnot.group(1) in cfg_features)):
                m = m or mnot
                # T10: feature off -> drop the attribute and the element it guards
                j, depth = b + 1, 0
                while j < len(st):
                    t = st[j]
                    if t in OPEN:
                        depth += 1
                    elif t in CLOSE:
                        if depth == 0:
                            j -= 1
                            break
                        depth -= 1
                        if depth == 0 and t == '}' and (j + 1 >= len(st) or st[j + 1] not in (',', ';', '.', '?')):
                            break
                    elif t in (',', ';') and depth == 0:
                        break
                    j += 1
                add(c.sig[a][1], c.sig[j][2], 'drop', '', {'tag': 'T10', 'note': 'feature %s off' % m.group(1)})
                skip_until = j
            else:
                add(c.sig[a][1], c.sig[b][2], 'drop', '', {'tag': 'T10' if (m or mnot) else 'T5'})
    for e in edits:
        r = resolve(p, e.anchor)
        if e.kind == 'ins':
            if r[0] == 'pt':
                pos = tr.start_of(r[1]) if r[2] == 'before' else tr.end_of(r[1])
            else:
                pos = tr.start_of(r[1]) if e.where == 'before' else tr.end_of(r[2])
            add(pos, pos, 'ins', e.text, {'tag': e.tag, 'cid': e.cid, 'anchor': repr(e.anchor)})
        else:
            if r[0] != 'rg':
                raise ValueError('rep/drop need a range anchor')
            s, t = (tr.start_of(r[1]), tr.end_of(r[2])) if getattr(e, 'loose', False) else tr.range_unchanged(r[1], r[2])
            add(s, t, e.kind, e.text, {'tag': e.tag, 'cid': e.cid, 'anchor': repr(e.anchor), 'note': e.note})
    if auto:
        explicit = [(o[0], o[1]) for o in ops if o[1] > o[0]]
        for (s0, e0, kind, text, rec) in auto_ops(c, auto, auto_prefix):
            if any(a <= s0 and e0 <= b for (a, b) in explicit):
                continue   # inside a fragment that an explicit edit replaces / drops as a whole
            add(s0, e0, kind, text, rec)
    ops.sort(key=lambda o: (o[0], 0 if o[0] == o[1] else 1, o[2]))  # at one position: insertions first, then the range edit
    # non-overlap check: a range op may not contain another op
    last_end = -1
    for (s, e2, _, kind, _, _) in ops:
        if s < last_end:
            raise AnchorLost('overlapping edits at byte %d' % s)
        if e2 > s:
            last_end = e2
    out, records, pos = [], [], 0
    for idx, (s, e2, _, kind, text, rec) in enumerate(ops):
        out.append(c.text[pos:s])
        rec = dict(rec, kind=kind, id=idx)
        if kind == 'ins':
            out.append('/*@+%d*/%s/*@-*/' % (idx, text))
        else:
            rec['original'] = c.text[s:e2]
            out.append('/*@<%d*/%s/*@>*/' % (idx, text))
        records.append(rec)
        pos = e2
    out.append(c.text[pos:])
    return ''.join(out), records


_mark_ins = re.compile(r'/\*@\+(\d+)\*/(.*?)/\*@-\*/', re.S)
_mark_rep = re.compile(r'/\*@<(\d+)\*/(.*?)/\*@>\*/', re.S)


def erase(annotated, records):
    """inverse of apply(): remove insertions, restore replaced / dropped text."""
    by_id = {r['id']: r for r in records}
    t = _mark_ins.sub('', annotated)
    t = _mark_rep.sub(lambda m: by_id[int(m.group(1))]['original'], t)
    return t


def sha(s):
    return hashlib.sha256(s.encode()).hexdigest()


def fn_names(item_text):
    """names of all functions with a body inside the item text (None for the item itself if it is a fn)"""
    src = Src(item_text)
    st = src.sigtext
    out = []
    for k in range(len(st) - 1):
        if st[k] == 'fn' and re.match(r'[A-Za-z_]', st[k + 1]):
            try:
                _fn_range(src, st[k + 1])
                out.append(st[k + 1])
            except (ItemNotFound, LexError):
                pass
    return out


def n_loops(item_text, fn=None):
    src = Src(item_text)
    h, bo, bc = _fn_range(src, fn)
    return len(_loops(src, bo, bc))
