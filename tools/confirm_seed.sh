#!/bin/sh
# confirm_seed.sh <prop> <variant>: confirm a seeded change independently in the scratch worktree /tmp/wt-<prop>
# (tests pass with it, demo fails with it, demo passes without it) and file it under /verif/seeded/<prop>-<variant>/
id=$1; v=$2; wt=${WT:-/tmp/wt-$id}; src=${SRC:-/tmp/seeded-out/$id/$v}; out=/verif/seeded/$id-$v
export CARGO_NET_OFFLINE=true
cd $wt || exit 2
git checkout -q -- . ; git clean -fdq -e target
git apply $src/patch.diff || { echo "patch does not apply"; exit 2; }
cargo nextest run --workspace --no-fail-fast --offline > /tmp/confirm-$id-$v.tests.log 2>&1; t_rc=$?
tests=$(grep -E "Summary" /tmp/confirm-$id-$v.tests.log | tail -1)
bash $src/demo/run.sh $wt > /tmp/confirm-$id-$v.demo_with.log 2>&1; with_rc=$?
git checkout -q -- . ; git clean -fdq -e target
bash $src/demo/run.sh $wt > /tmp/confirm-$id-$v.demo_without.log 2>&1; without_rc=$?
git checkout -q -- . ; git clean -fdq -e target
echo "$id-$v tests_rc=$t_rc ($tests) demo_with_change_rc=$with_rc demo_without_change_rc=$without_rc"
if [ $t_rc -eq 0 ] && [ $with_rc -ne 0 ] && [ $without_rc -eq 0 ]; then
  mkdir -p $out && cp $src/patch.diff $out/ && rm -rf $out/demo && cp -r $src/demo $out/demo && cp $src/notes.md $out/notes.md
  echo "{\"tests\": \"$tests\", \"tests_rc\": $t_rc, \"demo_with_change_rc\": $with_rc, \"demo_without_change_rc\": $without_rc}" > $out/confirm.json
  echo CONFIRMED
else echo NOT-CONFIRMED; fi
