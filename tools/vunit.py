"""vunit - build a single-file Verus unit from /repo's working tree and run Verus on it."""
import json
import os
import re
import subprocess
import time

import rsx

VERIF = os.path.dirname(os.path.dirname(os.path.abspath(__file__)))
REPO = os.environ.get('VERIF_REPO', '/repo')
BASE_ITEMS = os.path.join(VERIF, 'baseline', 'items')


class Item:
    """One item extracted from /repo.  path: header list for rsx.find_item.  edits: rsx edits (anchored in the
    pinned text).  features: cfg(feature) set for T10 (None = leave cfg attributes to T5)."""

    def __init__(self, name, src, path, edits=(), strip_attrs=True, features=None, root=None, wrap=None, block=None, auto=()):
        self.name, self.src, self.path, self.edits = name, src, path, list(edits)
        # auto: current-anchored rewriting rules of rsx.auto_ops ('fmt' = T14, 'strlit' = T15)
        self.auto = tuple(auto)
        self.strip_attrs, self.features, self.root = strip_attrs, features, root
        # wrap: (prefix, suffix) ghost/header text put around the extracted text (T2 re-homing / T11 block lifting)
        # block: (anchor_after, anchor_before) - T11: the statements strictly between two structural anchors of the item
        self.wrap, self.block = wrap, block


class Unit:
    def __init__(self, name, props, items, spec_files=(), prelude='', epilogue='', outlines=None,
                 functions=(), uses='', notes=None, trusted=(), undecided=(), pre_verus=''):
        self.pre_verus = pre_verus
        self.name, self.props, self.items = name, props, items
        self.spec_files, self.prelude, self.epilogue = spec_files, prelude, epilogue
        self.outlines = outlines or {}
        self.functions = list(functions)  # exec/proof fns that must be reported verified
        self.uses = uses
        self.trusted = list(trusted)      # human-readable assumptions beyond what the scan finds
        self.undecided = list(undecided)  # parts of the property statements this unit does not decide


def _piece_chars(piece):
    """the characters of a literal piece as Rust char literals, or None if it uses an escape this helper does not know"""
    out, i = [], 0
    esc = {'n': "'\\n'", 't': "'\\t'", 'r': "'\\r'", '\\': "'\\\\'", '"': "'\"'", "'": "'\\''", '0': "'\\0'"}
    while i < len(piece):
        c = piece[i]
        if c == '\\':
            if i + 1 >= len(piece) or piece[i + 1] not in esc:
                return None
            out.append(esc[piece[i + 1]]); i += 2; continue
        if c == "'":
            out.append("'\\''")
        elif c == '\n':
            out.append("'\\n'")
        elif c == '\t':
            out.append("'\\t'")
        elif ord(c) < 32:
            return None
        else:
            out.append("'%s'" % c)
        i += 1
    return out


class Undecided(Exception):
    """machinery cannot decide (lost anchor, front-end rejection, ...): exit 2, never a VIOLATION"""


def read_repo(rel, root=None):
    with open(os.path.join(root or REPO, rel), encoding='utf-8') as f:
        return f.read()


def pinned_path(unit, item):
    return os.path.join(BASE_ITEMS, unit.name, item.name + '.rs')


def current_item_text(item):
    text = read_repo(item.src, item.root)
    src = rsx.Src(text)
    s, e, _, _ = rsx.find_item(src, item.path)
    if item.block:
        fsrc = rsx.Src(text[s:e])
        ra, rb = rsx.resolve(fsrc, item.block[0]), rsx.resolve(fsrc, item.block[1])
        a = fsrc.sig[ra[1]][2] if ra[0] == 'pt' else fsrc.sig[ra[2]][2]
        b = fsrc.sig[rb[1]][1]
        if not a <= b:
            raise rsx.ItemNotFound('block anchors out of order')
        return fsrc.text[a:b].strip('\n')
    return text[s:e]


def plain_item_text(item):
    """current text of the item with attributes removed (T5) and cfg(feature) resolved (T10) - nothing inserted"""
    import re as _re
    cur = current_item_text(item)
    ann, recs = rsx.apply(cur, cur, [], strip_attrs=True, cfg_features=item.features)
    return _re.sub(r'/\*@<\d+\*/.*?/\*@>\*/', '', ann, flags=_re.S)


def rebaseline(unit):
    for it in unit.items:
        p = pinned_path(unit, it)
        os.makedirs(os.path.dirname(p), exist_ok=True)
        with open(p, 'w', encoding='utf-8') as f:
            f.write(current_item_text(it))


def build(unit, extra_edits=None):
    """-> (file_text, provenance).  extra_edits: {item_name: [edits]} (canaries)."""
    parts = []
    prov = {'unit': unit.name, 'items': [], 'outlines': []}
    parts.append('// GENERATED on every run from %s by /verif/tools - do not edit.\n' % REPO)
    parts.append('#![allow(unused_imports, dead_code, unused_variables, unused_mut, unused_assignments, non_snake_case)]\n')
    if getattr(unit, 'crate_attrs', ''):
        parts.append(unit.crate_attrs + '\n')
    parts.append('use vstd::prelude::*;\n' + unit.uses + '\n' + unit.pre_verus + '\nverus! {\n')
    for sf in unit.spec_files:
        with open(os.path.join(VERIF, 'spec', sf), encoding='utf-8') as f:
            parts.append('// ==== spec/%s\n' % sf + f.read() + '\n')
    if unit.prelude:
        parts.append('// ==== unit prelude (ghost)\n' + unit.prelude + '\n')
    outlined_bodies = {}
    fmt_sites = []
    exec_codes = []
    for it in unit.items:
        try:
            cur = current_item_text(it)
        except (rsx.ItemNotFound, rsx.AnchorLost, FileNotFoundError, rsx.LexError) as ex:
            raise Undecided('unit %s: item %s not found in %s: %s' % (unit.name, it.name, it.src, ex))
        try:
            with open(pinned_path(unit, it), encoding='utf-8') as f:
                pinned = f.read()
        except FileNotFoundError:
            raise Undecided('unit %s: no pinned text for %s (run ./check --rebaseline)' % (unit.name, it.name))
        edits = it.edits + list((extra_edits or {}).get(it.name, []))
        try:
            ann, recs = rsx.apply(pinned, cur, edits, strip_attrs=it.strip_attrs, cfg_features=it.features,
                                  auto=getattr(it, 'auto', ()), auto_prefix=it.name)
        except (rsx.AnchorLost, rsx.ItemNotFound, rsx.LexError) as ex:
            raise Undecided('unit %s: item %s: %s' % (unit.name, it.name, ex))
        for r in recs:
            if r.get('fmt_site'):
                fmt_sites.append(r['fmt_site'])
        if getattr(unit, 'allowed_calls', None) is not None and (it.edits or getattr(it, 'auto', ())):
            import re as _re
            code_ = _re.sub(r'/\*@\+(\d+|wrap)\*/.*?/\*@-\*/', '', ann, flags=_re.S)
            by_id_ = {r_['id']: r_ for r_ in recs}
            # hand-written replacement text (pinned `rep` edits: anchored, reviewed with the unit) is not scanned; the text produced by the
            # current-anchored rules and every untouched token of the source is
            code_ = _re.sub(r'/\*@<(\d+)\*/(.*?)/\*@>\*/', lambda m_: '' if 'anchor' in by_id_[int(m_.group(1))] else m_.group(2), code_, flags=_re.S)
            exec_codes.append((it.name, code_))
        forbid = getattr(unit, 'forbid', None)
        if forbid:
            # the rewritten exec text (inserted ghost text removed): constructs without a usable specification must be gone
            import re as _re
            code = _re.sub(r'/\*@\+(\d+|wrap)\*/.*?/\*@-\*/', '', ann, flags=_re.S)
            code = _re.sub(r'/\*@[<>]\d*\*/', '', code)
            toks = ''.join(rsx.Src(code).sigtext)
            for f in forbid:
                if f.replace(' ', '') in toks:
                    raise Undecided('unit %s: item %s: `%s` remains after rewriting (a construct Verus accepts without a usable specification): '
                                    'the deductive verdict is withheld' % (unit.name, it.name, f))
        if rsx.erase(ann, recs) != cur:
            raise Undecided('unit %s: item %s: erasure check failed (machinery fault)' % (unit.name, it.name))
        for r in recs:
            if r['kind'] == 'rep' and r.get('cid') in unit.outlines:
                outlined_bodies[r['cid']] = r['original']
        parts.append('// ==== item %s  <- %s :: %s  sha256=%s changed_vs_pinned=%s\n'
                     % (it.name, it.src, ' :: '.join(it.path), rsx.sha(cur)[:16], cur != pinned))
        if it.wrap:
            ann = '/*@+wrap*/' + it.wrap[0] + '/*@-*/' + ann + '/*@+wrap*/' + it.wrap[1] + '/*@-*/'
        parts.append(ann + '\n')
        prov['items'].append({'name': it.name, 'src': it.src, 'path': it.path, 'sha256': rsx.sha(cur),
                              'changed_vs_pinned': cur != pinned,
                              'edits': [{k: v for k, v in r.items() if k != 'original'} | (
                                  {'original_sha': rsx.sha(r['original'])} if 'original' in r else {}) for r in recs]})
    for cid, decl in unit.outlines.items():
        if cid not in outlined_bodies:
            raise Undecided('unit %s: outline %s has no replaced fragment' % (unit.name, cid))
        opts = {}
        if isinstance(decl, dict):
            opts, decl = decl, decl['decl']
        parts.append('// ==== outlined fragment %s (T3): body is the original text, contract is ASSUMED\n' % cid)
        if opts.get('compile', True):
            body = opts.get('prefix', '') + outlined_bodies[cid] + opts.get('suffix', '')
        else:
            # the fragment mentions types of crates Verus cannot load (syn / proc_macro2): kept as text only
            body = 'unimplemented!() /* original text: ' + outlined_bodies[cid].replace('*/', '* /') + ' */'
        parts.append('#[verifier::external_body]\n' + decl.rstrip() + '\n{ ' + body + ' }\n')
        prov['outlines'].append({'id': cid, 'decl': decl, 'body': outlined_bodies[cid], 'compiled': opts.get('compile', True)})
    allowed = getattr(unit, 'allowed_calls', None)
    if allowed is not None:
        # closed-world check: a function under contract may only call what this unit gives a contract / an assumed specification to.  Verus
        # accepts many std calls with a partial or empty meaning; a proof that fails because of such a call says nothing about the code.
        import re as _re
        defined = set(_re.findall(r'\bfn\s+([A-Za-z_][A-Za-z0-9_]*)', ''.join(parts))) | {s_['name'] for s_ in fmt_sites}
        for (iname, code) in exec_codes:
            st = rsx.Src(code).sigtext
            for k in range(1, len(st) - 1):
                if st[k + 1] == '(' and _re.fullmatch(r'[a-z_][A-Za-z0-9_]*', st[k]) and st[k] not in ('if', 'match', 'while', 'for', 'return', 'in', 'fn', 'let', 'mut', 'ref', 'loop', 'as', 'move', 'else', 'self', 'crate', 'super', 'where', 'impl', 'dyn', 'pub', 'use', 'mod', 'break', 'continue'):
                    if st[k - 1] == 'fn':
                        continue
                    if st[k] not in defined and st[k] not in allowed:
                        raise Undecided('unit %s: item %s calls `%s`, which has no contract in this unit (closed-world check): the deductive '
                                        'verdict is withheld' % (unit.name, iname, st[k]))
    for site in fmt_sites:
        # T14: contract generated from the format literal found in the CURRENT source text
        terms = []
        for k, piece in enumerate(site['pieces']):
            if piece != '':
                terms.append('"%s"@' % piece)
            if k < site['nargs']:
                terms.append('a%d.%s()' % (k, 'dv' if (site.get('debug') or [False] * 99)[k] else 'tv'))
        if site.get('newline'):
            terms.append('"\\n"@')
        generics = ('<' + ', '.join('A%d: Txt' % k for k in range(site['nargs'])) + '>') if site['nargs'] else ''
        params = ', '.join('a%d: A%d' % (k, k) for k in range(site['nargs']))
        text = ' + '.join(terms) if terms else 'Seq::<char>::empty()'
        parts.append('// ==== %s site %s (T14): literal %s; contract generated from the literal (std::fmt `{}` semantics ASSUMED)\n'
                     % ('write!' if site.get('writer') else 'format!', site['name'], site['literal'].replace('\n', ' ')))
        if site.get('writer'):
            parts.append('#[verifier::external_body]\nfn %s%s(w: &mut WriteSink%s) -> (r: std::io::Result<()>)\n    ensures r is Ok ==> final(w)@ == old(w)@ + %s\n{ unimplemented!() }\n'
                         % (site['name'], generics, (', ' + params) if params else '', text if terms else 'Seq::<char>::empty()'))
        else:
            parts.append('#[verifier::external_body]\nfn %s%s(%s) -> (r: String)\n    ensures r@ == %s\n{ unimplemented!() }\n' % (site['name'], generics, params, text))
        # the literal's pieces as ghost constants: a proof can name the incidental text around the part a property speaks about
        for k, piece in enumerate(site['pieces']):
            parts.append('pub open spec fn %s_p%d() -> Seq<char> { %s }\n' % (site['name'], k, ('"%s"@' % piece) if piece != '' else 'Seq::<char>::empty()'))
        # ... and, where the piece uses only simple escapes, a lemma that spells its characters out (proofs about what a literal starts with)
        for k, piece in enumerate(site['pieces']):
            chars = _piece_chars(piece)
            if chars is not None:
                parts.append('pub proof fn %s_p%d_chars()\n    ensures %s_p%d() =~= %s\n{ %s }\n'
                             % (site['name'], k, site['name'], k, ('seq![' + ', '.join(chars) + ']') if chars else 'Seq::<char>::empty()',
                                ('reveal_strlit("%s");' % piece) if piece != '' else ''))
        prov['outlines'].append({'id': site['name'], 'decl': 'format site, literal ' + site['literal'], 'body': '%s(%s, ..)' % ('write!' if site.get('writer') else 'format!', site['literal']), 'compiled': False})
    if unit.epilogue:
        parts.append('// ==== unit epilogue (ghost lemmas)\n' + unit.epilogue + '\n')
    parts.append('} // verus!\nfn main() {}\n')
    return ''.join(parts), prov


VERIF_FAIL_PATTERNS = [
    'postcondition not satisfied', 'assertion failed', 'precondition not satisfied',
    'invariant not satisfied', 'decreases not satisfied', 'possible arithmetic',
    'possible division by zero', 'possible bit shift', 'index out of bounds', 'could not prove termination',
    'unable to prove', 'failed this postcondition', 'failed precondition', 'this loop isn\'t', 'unreachable',
    'recommendation not met', 'possible truncation', 'assert failed', 'requires clause', 'ensures clause',
    'cannot show invariant', 'may not terminate', 'inline bitvector', 'bitvector', 'nonlinear',
]
RLIMIT_PATTERNS = ['resource limit', 'rlimit', 'timed out', 'canceled']


def classify(diag):
    msg = (diag.get('message') or '').lower()
    if diag.get('level') != 'error':
        return None
    if msg.startswith('aborting due to'):
        return None
    if any(p in msg for p in RLIMIT_PATTERNS):
        return 'rlimit'
    if any(p in msg for p in VERIF_FAIL_PATTERNS):
        return 'failed'
    return 'frontend'


def run_verus(path, rlimit=None, seed=None, timeout=900, threads=None):
    """-> dict(ok, verified, errors, functions{name: success}, diags[...], wall_s, smt_ms, raw_json)"""
    cmd = ['verus', path, '--output-json', '--time-expanded', '--multiple-errors', '20', '--error-format=json']
    if rlimit:
        cmd += ['--rlimit', str(rlimit)]
    if seed is not None:
        cmd += ['--smt-option', 'smt.random_seed=%d' % seed]
    if threads:
        cmd += ['--num-threads', str(threads)]
    t0 = time.time()
    try:
        pr = subprocess.run(cmd, cwd=os.path.dirname(path), capture_output=True, text=True, timeout=timeout)
    except subprocess.TimeoutExpired:
        return {'ok': False, 'timeout': True, 'verified': 0, 'errors': 0, 'functions': {}, 'diags': [],
                'wall_s': time.time() - t0, 'smt_ms': 0, 'cmd': ' '.join(cmd), 'stderr': 'timeout'}
    wall = time.time() - t0
    res = {'ok': False, 'verified': 0, 'errors': 0, 'functions': {}, 'diags': [], 'wall_s': wall, 'smt_ms': 0,
           'cmd': ' '.join(cmd), 'rc': pr.returncode, 'stderr': pr.stderr[-20000:]}
    try:
        j = json.loads(pr.stdout)
        vr = j.get('verification-results', {})
        res['ok'] = bool(vr.get('success'))
        res['verified'] = vr.get('verified', 0)
        res['errors'] = vr.get('errors', 0)
        res['vir_error'] = vr.get('encountered-vir-error', False)
        tm = j.get('times-ms', {})
        res['smt_ms'] = tm.get('smt', {}).get('total', 0)
        res['verus_version'] = j.get('verus', {}).get('version')
        for m in tm.get('smt', {}).get('smt-run-module-times', []):
            for fb in m.get('function-breakdown', []):
                name = fb['function'].split('::', 1)[1] if '::' in fb['function'] else fb['function']
                res['functions'][name] = {'success': fb.get('success'), 'mode': fb.get('mode:'),
                                          'ms': fb.get('time'), 'rlimit': fb.get('rlimit')}
    except (json.JSONDecodeError, ValueError):
        res['no_json'] = True
    for line in pr.stderr.splitlines():
        line = line.strip()
        if not line.startswith('{'):
            continue
        try:
            d = json.loads(line)
        except json.JSONDecodeError:
            continue
        cls = classify(d)
        if cls is None:
            continue
        sp = next((s for s in d.get('spans', []) if s.get('is_primary')), None)
        allsp = d.get('spans', [])
        res['diags'].append({
            'class': cls, 'message': d.get('message'),
            'line': sp['line_start'] if sp else None,
            'text': (sp['text'][0]['text'].strip() if sp and sp.get('text') else None),
            'other_lines': [s['line_start'] for s in allsp if not s.get('is_primary')],
            'other_text': [s['text'][0]['text'].strip() for s in allsp if not s.get('is_primary') and s.get('text')],
            'rendered': d.get('rendered'),
        })
    return res


def fn_at_line(file_text, line):
    """name of the innermost enclosing `fn` declared at or before `line` (1-based), and the section header."""
    lines = file_text.split('\n')
    fn, section = None, None
    for k in range(min(line, len(lines)) - 1, -1, -1):
        m = re.search(r'\bfn\s+([A-Za-z_][A-Za-z0-9_]*)', lines[k])
        if m and fn is None:
            fn = m.group(1)
        if lines[k].startswith('// ==== '):
            section = lines[k][8:].split('  ')[0]
            break
    return fn, section


def contract_marks(file_text, line):
    """the /*Cxx..*/ property markers in the contract (signature up to the body) of the function enclosing `line`: an obligation inside a
    function body that carries no marker of its own belongs to the properties its function's contract speaks about"""
    lines = file_text.split('\n')
    k = min(line, len(lines)) - 1
    while k >= 0 and not re.search(r'\bfn\s+[A-Za-z_][A-Za-z0-9_]*', lines[k]):
        k -= 1
    if k < 0:
        return []
    out = []
    for j in range(k, min(len(lines), k + 60)):
        out += re.findall(r'/\*\s*(C\d\d[^*]*)\*/', lines[j])
        t = lines[j].strip()
        if j > k and (t.endswith('{') and not t.startswith(('ensures', 'requires', 'decreases')) and 'ensures' not in t):
            break
        if re.search(r'/\*@-\*/\{', lines[j]):
            break
    return out


def scan_assumptions(file_text):
    """mechanical scan for everything that is assumed rather than proved in a generated unit file"""
    out = []
    lines = file_text.split('\n')
    for k, l in enumerate(lines):
        s = l.strip()
        if s.startswith('//'):
            continue
        if 'assume_specification' in s:
            m = re.search(r'\[\s*(.+?)\s*\]', s)
            out.append('assume_specification ' + (m.group(1) if m else s))
        elif 'external_body' in s:
            j = k + 1
            while j < len(lines) and not re.search(r'\b(fn|struct|enum)\b', lines[j]):
                j += 1
            m = re.search(r'\b(fn|struct|enum)\s+([A-Za-z_0-9]+)', lines[j]) if j < len(lines) else None
            out.append('external_body %s %s' % (m.group(1), m.group(2)) if m else 'external_body ?')
        elif 'external_type_specification' in s:
            j = k + 1
            m = re.search(r'struct\s+\w+\s*(?:<[^>]*>)?\s*\((.+)\)', lines[j]) if j < len(lines) else None
            out.append('external_type_specification ' + (m.group(1) if m else '?'))
        elif re.search(r'\badmit\s*\(', s) or re.search(r'\bassume\s*\(', s):
            out.append('assume/admit at generated line %d: %s' % (k + 1, s[:100]))
        elif 'exec_allows_no_decreases_clause' in s or 'no_decreases' in s:
            out.append('no-decreases at generated line %d' % (k + 1))
        elif re.search(r'\buninterp\s+spec\s+fn\s+(\w+)', s):
            out.append('uninterpreted spec fn ' + re.search(r'\buninterp\s+spec\s+fn\s+(\w+)', s).group(1))
        elif re.search(r'\baxiom\s+fn|broadcast\s+axiom|proof\s+fn\s+axiom_', s):
            m = re.search(r'fn\s+(\w+)', s)
            out.append('axiom ' + (m.group(1) if m else s[:60]))
    return sorted(set(out))


def count_clauses(file_text):
    """count spec clauses (requires/ensures/invariant/decreases lines' comma-separated entries are NOT split:
    we count top-level clause lines and assert statements inside item sections) - a measured, conservative count."""
    n_assert = len(re.findall(r'\bassert\s*(?:forall\b|\()', file_text))
    n_ens = len(re.findall(r'\bensures\b', file_text))
    n_req = len(re.findall(r'\brequires\b', file_text))
    n_inv = len(re.findall(r'\binvariant(?:_except_break)?\b', file_text))
    n_dec = len(re.findall(r'\bdecreases\b', file_text))
    return {'assert': n_assert, 'ensures_blocks': n_ens, 'requires_blocks': n_req, 'invariant_blocks': n_inv,
            'decreases': n_dec}
