#!/bin/sh
# run every registered check on the (clean) tree, rewrite evidence + MANIFEST, validate
cd "$(dirname "$0")/.."
[ -z "$(git -C /repo status --porcelain)" ] || { echo "/repo is not clean"; exit 2; }
rc=0
for p in $(python3 -c "import json;print(' '.join(c['property_id'] for c in json.load(open('MANIFEST.json'))['checks']))"); do
  ./check $p | tail -1 || rc=1
done
python3 tools/mkmanifest.py && python3-vt tools/validate.py | tail -1
exit $rc
