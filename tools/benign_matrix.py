#!/usr/bin/env python3
"""apply each behaviour-preserving refactoring under <dir>/r*/patch.diff, run the checks of every property whose units extract
something from a touched file, undo; a benign change must never produce exit 1 (VIOLATION).  Development tool."""
import importlib, json, os, re, subprocess, sys
VERIF = os.path.dirname(os.path.dirname(os.path.abspath(__file__)))
sys.path.insert(0, os.path.join(VERIF, 'tools')); sys.path.insert(0, os.path.join(VERIF, 'units'))
import registry
file_props = {}
for pid, spec in registry.PROPS.items():
    for u in spec.get('units', []):
        for it in importlib.import_module(u).UNIT.items:
            if not it.root:
                file_props.setdefault(it.src, set()).add(pid)
    if spec.get('kani'):
        file_props.setdefault('lib/src/integer.rs', set()).add(pid)
rows = []
for base in sys.argv[1:]:
    for d in sorted(os.listdir(base)):
        patch = os.path.join(base, d, 'patch.diff')
        if not os.path.exists(patch):
            continue
        files = sorted(set(re.findall(r'^\+\+\+ b/(\S+)', open(patch).read(), flags=re.M)))
        props = sorted(set().union(*[file_props.get(f, set()) for f in files])) or ['C07']
        assert subprocess.run(['git', '-C', '/repo', 'status', '--porcelain'], capture_output=True, text=True).stdout.strip() == ''
        if subprocess.run(['git', '-C', '/repo', 'apply', patch]).returncode != 0:
            rows.append((base, d, files, 'patch does not apply')); continue
        res = {}
        try:
            for p in props:
                pr = subprocess.run([os.path.join(VERIF, 'check'), p], capture_output=True, text=True, cwd=VERIF, timeout=1800)
                res[p] = pr.returncode
                if pr.returncode == 1:
                    res[p] = '1 ' + ' | '.join(l for l in pr.stdout.splitlines() if l.startswith('VIOLATION') or 'failed obligation' in l)[:400]
        finally:
            subprocess.run(['git', '-C', '/repo', 'checkout', '--', '.'])
        rows.append((base, d, files, res))
        print(os.path.basename(base), d, files, res, flush=True)
json.dump(rows, open('/tmp/benign-results.json', 'w'), indent=1, default=str)
