#!/usr/bin/env python3
"""Run every seeded change under /verif/seeded/<prop>-<v>/ against its property's check: apply the patch to /repo, run
./check <prop>, record exit status + verdict lines, and undo the patch straight afterwards.  Writes meta.json per seed and
seeded/RESULTS.md.  (Development tool: never part of a registered check.)"""
import json, os, re, subprocess, sys
VERIF = os.path.dirname(os.path.dirname(os.path.abspath(__file__)))
SEEDED = os.path.join(VERIF, 'seeded')
props = {}
for l in open(os.path.join(VERIF, 'properties.jsonl')):
    p = json.loads(l); props[p['id']] = p['title']
rows = []
only = sys.argv[1:]
for d in sorted(os.listdir(SEEDED)):
    full = os.path.join(SEEDED, d)
    if not os.path.isdir(full) or (only and d not in only):
        continue
    pid = d.split('-')[0]
    patch = os.path.join(full, 'patch.diff')
    assert subprocess.run(['git', '-C', '/repo', 'status', '--porcelain'], capture_output=True, text=True).stdout.strip() == '', '/repo not clean'
    ap = subprocess.run(['git', '-C', '/repo', 'apply', patch], capture_output=True, text=True)
    if ap.returncode != 0:
        rows.append((d, 'patch does not apply', '', '')); continue
    try:
        pr = subprocess.run([os.path.join(VERIF, 'check'), pid], capture_output=True, text=True, cwd=VERIF, timeout=1800)
    finally:
        subprocess.run(['git', '-C', '/repo', 'checkout', '--', '.'])
    out = pr.stdout
    viol = [l for l in out.splitlines() if l.startswith('VIOLATION')]
    failed = [l.strip() for l in out.splitlines() if l.strip().startswith('failed obligation')][:2]
    wit = [l.strip() for l in out.splitlines() if l.strip().startswith('failing input')][:1]
    und = [l for l in out.splitlines() if l.startswith('UNDECIDED')]
    verdict = 'CAUGHT' if pr.returncode == 1 and viol else ('undecided (exit 2)' if pr.returncode == 2 else 'missed (exit 0)')
    how = ''
    if viol:
        how = 'bounded stand-in on the real code' if ('verifier could not process' in out or 'bounded search on the real code found' in out) and not any('unit=' in l and 'fn=None' not in l for l in failed) else 'failed obligation'
        how += '; no input' if 'no-failing-input-found' in viol[0] else '; replayed failing input'
    notes = open(os.path.join(full, 'notes.md')).read() if os.path.exists(os.path.join(full, 'notes.md')) else ''
    conf = json.load(open(os.path.join(full, 'confirm.json'))) if os.path.exists(os.path.join(full, 'confirm.json')) else {}
    files = sorted(set(re.findall(r'^\+\+\+ b/(\S+)', open(patch).read(), flags=re.M)))
    meta = {'property': pid, 'property_title': props.get(pid), 'seed': d, 'files_changed': files,
            'needs_to_manifest': (re.search(r'(?is)(needs|manifest|trigger)[^\n]*\n(.{0,600})', notes).group(0)[:700] if re.search(r'(?i)(needs|manifest|trigger)', notes) else notes[:500]),
            'independently_confirmed': {'command_tests': 'cargo nextest run --workspace --no-fail-fast --offline (with the change applied)',
                                        'command_demo': 'bash demo/run.sh <checkout> (with and without the change)', **conf},
            'check_run': {'cmd': './check %s' % pid, 'exit': pr.returncode, 'verdict': verdict, 'how': how,
                          'violation_lines': viol, 'failed_obligations': failed, 'witness': wit, 'undecided': und}}
    json.dump(meta, open(os.path.join(full, 'meta.json'), 'w'), indent=1)
    rows.append((d, verdict, how, (failed[0] if failed else (und[0] if und else ''))[:160]))
    print(d, verdict, how)
with open(os.path.join(SEEDED, 'RESULTS.md'), 'a' if only else 'w') as f:
    if not only:
        f.write('# Seeded changes (written by independent sub-agents from the property text only) vs. the checks\n\n| seed | verdict | how | first reported obligation |\n|---|---|---|---|\n')
    for r in rows:
        f.write('| %s | %s | %s | %s |\n' % tuple(x.replace('|', '\\|') for x in r))
