#!/usr/bin/env python3
"""cross_matrix [seed-names...]: apply each seeded change, run EVERY check, undo; list the properties other than the seed's own whose check
prints VIOLATION (each is either a property the change really breaks too, or a false alarm to look into).  Development tool."""
import concurrent.futures as cf, json, os, subprocess, sys
VERIF = os.path.dirname(os.path.dirname(os.path.abspath(__file__)))
props = [c['property_id'] for c in json.load(open(os.path.join(VERIF, 'MANIFEST.json')))['checks']]
names = sys.argv[1:] or sorted(d for d in os.listdir(os.path.join(VERIF, 'seeded')) if os.path.exists(os.path.join(VERIF, 'seeded', d, 'patch.diff')))
out = {}


def run(p):
    pr = subprocess.run([os.path.join(VERIF, 'check'), p], capture_output=True, text=True, cwd=VERIF, timeout=3000)
    lines = [l for l in pr.stdout.splitlines() if 'failed obligation' in l or l.startswith('UNDECIDED')]
    return p, pr.returncode, lines[:2]


for n in names:
    patch = os.path.join(VERIF, 'seeded', n, 'patch.diff')
    assert subprocess.run(['git', '-C', '/repo', 'status', '--porcelain'], capture_output=True, text=True).stdout.strip() == ''
    if subprocess.run(['git', '-C', '/repo', 'apply', patch], capture_output=True).returncode != 0:
        print(n, 'patch does not apply', flush=True); continue
    try:
        with cf.ThreadPoolExecutor(max_workers=5) as ex:
            res = list(ex.map(run, props))
    finally:
        subprocess.run(['git', '-C', '/repo', 'checkout', '--', '.'])
    own = n.split('-')[0]
    others = [(p, l) for (p, rc, l) in res if rc == 1 and p != own]
    ownrc = [rc for (p, rc, l) in res if p == own]
    out[n] = {'own': ownrc, 'others': others}
    print(n, 'own rc', ownrc, 'other VIOLATIONS:', [(p, (l[0][:160] if l else '')) for p, l in others], flush=True)
json.dump(out, open('/var/tmp/typeshare-verif/cross.json', 'w'), indent=1)
