#!/usr/bin/env python3
"""regenerate MANIFEST.json from units/registry.py (PROPS, NOT_APPLICABLE) - keeps the interface file valid."""
import json, os, sys
HERE = os.path.dirname(os.path.abspath(__file__)); VERIF = os.path.dirname(HERE)
sys.path.insert(0, HERE); sys.path.insert(0, os.path.join(VERIF, 'units'))
import registry

checks = []
for pid in sorted(registry.PROPS):
    p = registry.PROPS[pid]
    checks.append({
        'property_id': pid,
        'quick_cmd': './check %s --tier quick' % pid,
        'thorough_cmd': './check %s --tier thorough' % pid,
        'evidence_file': 'evidence/%s.json' % pid,
        'replay_cmd_template': './check %s --replay {path}' % pid,
        'engine': p.get('engine', 'verus'),
        'level_claimed': {'category': 'proof', 'text': p['level_text'], 'design_ref': p.get('design_ref', 'DESIGN.md section 5')},
        'level_note': p['level_note'],
        'technique': p['technique'],
    })
man = {
    'version': 1,
    'setup_cmd': './setup.sh',
    'hooks': {
        'guard': 'none - no hook or instrumentation is added to /repo; contracts are inserted into copies of the functions that tools/rsx.py re-extracts from /repo\'s working tree on every run (erasure-checked)',
        'enable': 'n/a (checks read /repo sources directly; replays compile the extracted text or depend on /repo crates by path)',
        'baseline_off_cmd': 'cd /repo && cargo test --workspace --no-fail-fast --offline',
        'source_commits': registry.SOURCE_COMMITS,
        'add_only': True,
    },
    'engines': [
        {'name': 'verus', 'path': 'tools/vunit.py', 'serves_properties': sorted(p for p in registry.PROPS if registry.PROPS[p].get('units')),
         'kind_free_text': 'Verus 0.2026.09.13 (Z3) on single files assembled from functions extracted verbatim from /repo + inserted requires/ensures/invariant/decreases/proof text'},
        {'name': 'kani', 'path': 'units/kint.py', 'serves_properties': sorted(p for p in registry.PROPS if registry.PROPS[p].get('kani')),
         'kind_free_text': 'Kani 0.68 / CBMC 6.11 function contracts + loop-free full-domain harnesses on a generated crate holding a verbatim copy of lib/src/integer.rs'},
    ],
    'checks': checks,
    'not_applicable': [{'property_id': k, 'reason': v} for k, v in sorted(registry.NOT_APPLICABLE.items())],
    'notes': 'exit 2 from a check means undecided (lost anchor, construct outside the verifier, resource limit without witness) and is never an alarm. See DESIGN.md.',
}
with open(os.path.join(VERIF, 'MANIFEST.json'), 'w') as f:
    json.dump(man, f, indent=1)
print('MANIFEST.json: %d checks, %d not applicable' % (len(checks), len(man['not_applicable'])))
