#!/usr/bin/env python3
import json, sys, glob
try:
    import jsonschema
except ImportError:
    sys.path.insert(0, '/opt/veriftools/pyvenv/lib/python3.11/site-packages')
    import jsonschema
jsonschema.validate(json.load(open('/verif/MANIFEST.json')), json.load(open('/root/.vp/MANIFEST.schema.json')))
es = json.load(open('/root/.vp/EVIDENCE.schema.json'))
for p in glob.glob('/verif/evidence/*.json'):
    jsonschema.validate(json.load(open(p)), es); print('ok', p)
print('manifest ok')
