#!/usr/bin/env python3
"""check.py <Cxx> [--tier quick|thorough] [--replay <path>] | --rebaseline | --all

Decides one property by contract-based deductive verification of the code in /repo's working tree.
exit 0  every obligation generated from the current tree was discharged (KNOWN-FINDING lines possible)
exit 1  a named obligation that is discharged on the pinned tree fails: `VIOLATION property=<id> replay=<path>`
exit 2  undecided (lost anchor, construct outside the verifier's reach, rlimit without witness): never an alarm
"""
import argparse
import concurrent.futures as cf
import importlib
import json
import os
import shutil
import sys
import tempfile
import time

HERE = os.path.dirname(os.path.abspath(__file__))
VERIF = os.path.dirname(HERE)
sys.path.insert(0, HERE)
sys.path.insert(0, os.path.join(VERIF, 'units'))

import rsx  # noqa: E402
import vunit  # noqa: E402
from vunit import Undecided  # noqa: E402

WORK = os.environ.get('VERIF_WORK', '/var/tmp/typeshare-verif')
LEDGER = os.path.join(VERIF, 'baseline', 'ledger.json')
KNOWN = os.path.join(VERIF, 'known_findings.json')

import registry  # noqa: E402  (units/registry.py: property -> units, kani crates, witnesses, texts)


def load_units(names):
    return [importlib.import_module(n).UNIT for n in names]


def load_ledger():
    try:
        with open(LEDGER) as f:
            return json.load(f)
    except FileNotFoundError:
        return {}


def canary_edits(unit, loops=True):
    """assert(false) at the start of every function body and every loop body of every extracted item: each must FAIL,
    showing that no precondition / invariant set is contradictory and that the bodies are really being checked."""
    extra, n = {}, 0
    for it in unit.items:
        if it.wrap and 'verifier::external' in it.wrap[0]:
            continue  # compiled but not under contract: nothing to guard
        try:
            with open(vunit.pinned_path(unit, it), encoding='utf-8') as f:
                pinned = f.read()
        except FileNotFoundError:
            continue
        eds = []
        names = rsx.fn_names(pinned)
        for fn in names:
            eds.append(rsx.ins(rsx.A.body_start(fn=fn), ' proof { assert(false); /*canary %s.%s*/ } ' % (it.name, fn), tag='canary'))
            n += 1
        if names and loops:
            outer = names[0]
            try:
                for k in range(rsx.n_loops(pinned, outer)):
                    eds.append(rsx.ins(rsx.A.loop_body(k, fn=outer), ' proof { assert(false); /*canary %s.loop%d*/ } ' % (it.name, k), tag='canary'))
                    n += 1
            except rsx.ItemNotFound:
                pass
        extra[it.name] = eds
    return extra, n


def run_unit(unit, workdir, tier, ledger, seed):
    """-> result dict with status in pass | violation | undecided"""
    res = {'unit': unit.name, 'status': 'pass', 'failed': [], 'reason': None, 'backend': 'verus/z3'}
    try:
        text, prov = vunit.build(unit)
    except Undecided as ex:
        res.update(status='undecided', reason=str(ex))
        return res
    path = os.path.join(workdir, unit.name + '.rs')
    with open(path, 'w', encoding='utf-8') as f:
        f.write(text)
    res['file'] = path
    res['provenance'] = prov
    res['assumptions'] = vunit.scan_assumptions(text)
    res['clauses'] = vunit.count_clauses(text)
    r = vunit.run_verus(path)
    res['verus'] = {k: r.get(k) for k in ('ok', 'verified', 'errors', 'wall_s', 'smt_ms', 'cmd', 'verus_version')}
    res['functions'] = r['functions']
    diags = r['diags']
    if any(d['class'] == 'rlimit' for d in diags) and not any(d['class'] == 'failed' for d in diags):
        r2 = vunit.run_verus(path, rlimit=40, seed=(seed % 1000) + 1)
        res['verus_retry'] = {k: r2.get(k) for k in ('ok', 'verified', 'errors', 'wall_s', 'smt_ms', 'cmd')}
        if r2['ok']:
            r, diags = r2, r2['diags']
            res['functions'] = r2['functions']
            res['verus'] = res['verus_retry']
    failed = [d for d in diags if d['class'] == 'failed']
    frontend = [d for d in diags if d['class'] == 'frontend']
    rlim = [d for d in diags if d['class'] == 'rlimit']
    for d in failed + rlim:
        fn, section = vunit.fn_at_line(text, d['line'] or 1)
        d['function'], d['section'] = fn, section
        d['contract_marks'] = vunit.contract_marks(text, d['line'] or 1)
    led = ledger.get(unit.name, {})
    if frontend or r.get('no_json') or r.get('timeout') or r.get('vir_error'):
        msg = frontend[0]['message'] if frontend else ('verus produced no result: ' + (r.get('stderr') or '')[-400:])
        res.update(status='undecided', reason='verifier front end rejected the generated unit (not a failed obligation): ' + msg,
                   diags=frontend[:5])
        return res
    if failed:
        res.update(status='violation', failed=failed + rlim)
        return res
    if rlim:
        res.update(status='rlimit', failed=rlim)
        return res
    if not r['ok']:
        res.update(status='undecided', reason='verus reported failure without a classified diagnostic: ' + (r.get('stderr') or '')[-400:])
        return res
    missing = [f for f in unit.functions if not r['functions'].get(f, {}).get('success')]
    if missing:
        res.update(status='undecided', reason='functions under contract not reported verified: %s' % missing)
        return res
    if led and r['verified'] < led.get('verified', 0):
        res.update(status='undecided', reason='obligation count dropped: %d < ledger %d' % (r['verified'], led['verified']))
        return res
    # vacuity guard
    extra, n = canary_edits(unit)
    if n:
        try:
            try:
                ctext, _ = vunit.build(unit, extra_edits=extra)
            except Undecided:
                # a loop that is outlined as a whole cannot take a canary: guard the function bodies only
                extra, n = canary_edits(unit, loops=False)
                ctext, _ = vunit.build(unit, extra_edits=extra)
            cpath = os.path.join(workdir, unit.name + '_canary.rs')
            with open(cpath, 'w', encoding='utf-8') as f:
                f.write(ctext)
            cr = vunit.run_verus(cpath)
            hit = set()
            for d in cr['diags']:
                if d['class'] == 'failed' and d.get('text') and '/*canary' in d['text']:
                    hit.add(d['text'])
            res['canaries'] = {'inserted': n, 'failed_as_expected': len(hit), 'wall_s': cr['wall_s']}
            if len(hit) < n:
                res.update(status='undecided', reason='vacuity guard: only %d of %d canary assertions failed' % (len(hit), n))
                return res
        except Undecided as ex:
            res.update(status='undecided', reason='canary build: ' + str(ex))
            return res
    return res


PANIC_CLASSES = ('precondition not satisfied', 'possible arithmetic', 'possible division', 'possible bit shift', 'index out of bounds',
                 'decreases not satisfied', 'could not prove termination', 'may not terminate', 'possible truncation', 'unreachable')


def panic_like(wit):
    """does the failing input found by a bounded stand-in show a panic, abort, overflow or hang (C07), as opposed to a wrong answer?"""
    import re as _re
    msg = json.dumps(wit or {}).lower()
    return bool(_re.search(r'\bpanic|\babort|did not terminate|\bhangs?\b|\bspins?\b|stack overflow|non-zero exit without|timed out|\btimeout|rc=101|rc=134', msg))


def bounded_relevant(pid, wit):
    """a stand-in shared by several properties labels what it found, e.g. "(C03/C11: exactly once)" or "(C06)": a label naming other
    properties only means the input is not a counterexample to pid"""
    import re as _re
    msg = json.dumps((wit or {}).get('input') or wit or {})
    labels = set()
    for c in _re.findall(r'\((C\d\d[^)]*)\)', msg):
        labels |= set(_re.findall(r'C\d\d', c))
    return (not labels) or (pid in labels) or pid == 'C07'


def relevant_to(pid, d):
    """does the failed obligation d speak about property pid?  Contract clauses carry /*Cxx..*/ markers; C07 (no panic, termination) owns
    the panic-freedom / termination obligations; an obligation without any marker belongs to every property its unit serves (except
    that a purely functional one - postcondition, assertion, invariant - is not C07's)."""
    import re as _re
    text = ' '.join(str(x) for x in ([d.get('text')] + (d.get('other_text') if isinstance(d.get('other_text'), list) else [d.get('other_text')])) if x)
    marks = set()
    for c in _re.findall(r'/\*(.*?)\*/', text, flags=_re.S):
        if _re.match(r'\s*C\d\d', c):
            ms = set(_re.findall(r'C\d\d', c))
            # the rename contracts (C16) are also the IR kernels of C01 (field position) and C02 (variant position)
            if 'C16' in ms:
                if 'variant' not in c:
                    ms.add('C01')
                if 'field' not in c:
                    ms.add('C02')
            marks |= ms
    own_marks = set(marks)
    if not marks:
        # no marker on the failed clause itself: the markers of the enclosing function's contract decide
        for c in d.get('contract_marks') or []:
            ms = set(_re.findall(r'C\d\d', c))
            if 'C16' in ms:
                if 'variant' not in c:
                    ms.add('C01')
                if 'field' not in c:
                    ms.add('C02')
            marks |= ms
    msg = (d.get('message') or '').lower()
    panicky = any(c in msg for c in PANIC_CLASSES) and 'lemma' not in text
    if pid == 'C07':
        return panicky or 'C07' in marks
    if panicky and not own_marks and any(k_ in msg for k_ in ('termination', 'decreases not satisfied', 'may not terminate')):
        # a termination obligation (decreases) that carries no property marker of its own is C07's alone: that a function under contract for
        # another property may now diverge says nothing about that property's clauses
        return False
    if marks:
        return pid in marks
    return True


def write_replay(pid, unit_res, witness, idx):
    os.makedirs(os.path.join(VERIF, 'replays'), exist_ok=True)
    path = os.path.join(VERIF, 'replays', '%s-%s-%d.json' % (pid, unit_res['unit'].replace('/', '_'), idx))
    body = {
        'property': pid, 'unit': unit_res['unit'], 'backend': unit_res.get('backend'),
        'failed_obligations': [{k: d.get(k) for k in ('class', 'message', 'function', 'section', 'line', 'text', 'other_text', 'rendered')}
                               for d in unit_res.get('failed', [])],
        'verifier_cmd': (unit_res.get('verus') or {}).get('cmd') or unit_res.get('cmd'),
        'witness': witness,
        'how_to_replay': './check %s --replay %s' % (pid, path),
    }
    with open(path, 'w') as f:
        json.dump(body, f, indent=1)
    return path


def load_known():
    try:
        with open(KNOWN) as f:
            return json.load(f)
    except FileNotFoundError:
        return {'findings': []}


def main():
    ap = argparse.ArgumentParser()
    ap.add_argument('prop', nargs='?')
    ap.add_argument('--tier', default=os.environ.get('VERIF_TIER', 'quick'))
    ap.add_argument('--replay')
    ap.add_argument('--rebaseline', action='store_true')
    ap.add_argument('--keep', action='store_true')
    args = ap.parse_args()
    seed = int(os.environ.get('VERIF_SEED', '0') or 0)
    tier = args.tier if args.tier in ('quick', 'thorough') else 'quick'
    os.environ['VERIF_TIER'] = tier   # the bounded searches enlarge their bounds in the thorough tier
    os.environ['VERIF_SEED'] = str(seed)

    if args.rebaseline:
        return registry.rebaseline(WORK)
    pid = args.prop
    if pid not in registry.PROPS:
        print('unknown or unclaimed property %r; claimed: %s' % (pid, ' '.join(sorted(registry.PROPS))))
        return 2
    if args.replay:
        os.environ['VERIF_PID'] = pid
        return registry.replay(pid, args.replay, WORK)

    t0 = time.time()
    os.environ['VERIF_PID'] = pid      # stand-ins shared by several properties make only this property's comparisons
    spec = registry.PROPS[pid]
    os.makedirs(WORK, exist_ok=True)
    workdir = tempfile.mkdtemp(prefix='%s-' % pid, dir=WORK)
    ledger = load_ledger()
    results = []
    try:
        units = load_units(spec.get('units', []))
        with cf.ThreadPoolExecutor(max_workers=8) as ex:
            futs = [ex.submit(run_unit, u, workdir, tier, ledger, seed) for u in units]
            kfuts = [ex.submit(registry.run_kani, k, workdir, tier, seed) for k in spec.get('kani', [])]
            bfuts = [ex.submit(registry.run_bounded, b, workdir, seed) for b in spec.get('bounded', [])]
            for f in futs + kfuts + bfuts:
                results.append(f.result())
        # thorough: proof stability under other seeds / larger rlimit
        stability = []
        if tier == 'thorough':
            for r in results:
                if r.get('backend') == 'verus/z3' and r['status'] == 'pass':
                    for s in (7, 23, 101):
                        rr = vunit.run_verus(r['file'], rlimit=40, seed=s)
                        stability.append({'unit': r['unit'], 'seed': s, 'ok': rr['ok'], 'wall_s': rr['wall_s']})
            extra = registry.thorough_extra(pid, workdir, seed)
            results.extend(extra)

        # ---- verdicts
        violations, undecided = [], []
        for r in results:
            if r.get('bounded') and r['status'] == 'violation' and not bounded_relevant(pid, r.get('witness')):
                # the failing input the stand-in found is labelled with other properties (a search shared by several properties)
                r['status'] = 'pass'
                r['note'] = 'the stand-in found a failing input that belongs to another property: ' + json.dumps((r.get('witness') or {}).get('input'))[:200]
                r['failed'] = []
                continue
            if r.get('bounded') and r['status'] == 'violation':
                if pid == 'C07' and not panic_like(r.get('witness')):
                    # the stand-in found an input on which the code answers wrongly, not one on which it panics or hangs: not C07's business
                    r['status'] = 'pass'
                    r['note'] = 'a functional mismatch was found (reported under the property it belongs to), no panic / hang'
                    r['failed'] = []
                    continue
                violations.append((r, r['witness']))
                continue
            if r['status'] == 'violation':
                # a unit may carry clauses of several properties: only the failed obligations that speak about THIS property make a
                # violation of it; if others failed, this property's own clauses were proved against callee contracts that no longer
                # hold as a whole => undecided for this property (never an alarm, never a pass)
                rel = [d for d in r['failed'] if relevant_to(pid, d)]
                if not rel:
                    r['status'] = 'undecided'
                    r['reason'] = ('obligations of other properties failed in this unit (%s); the clauses of %s were proved modularly against '
                                   'contracts that no longer hold as a whole' % ('; '.join(sorted({(d.get('message') or '')[:60] + ' @' + str(d.get('function')) for d in r['failed']}))[:300], pid))
                    r['other_property_failures'] = r['failed']
                    r['failed'] = []
                    undecided.append(r)
                    continue
                r['failed'] = rel
            if r['status'] in ('violation', 'rlimit'):
                wit = None
                try:
                    wit = registry.witness(pid, r, workdir, seed)
                except Exception as ex:  # witness search is best effort and never decides
                    wit = {'found': False, 'error': repr(ex)}
                if r['status'] == 'rlimit' and not (wit and wit.get('found')):
                    undecided.append(r)
                    r['reason'] = 'resource limit on %s and no failing input found' % [d.get('function') for d in r['failed']]
                    continue
                violations.append((r, wit))
            elif r['status'] == 'undecided' and r.get('bounded'):
                undecided.append(r)
            elif r['status'] == 'undecided':
                # The verifier could not process the unit (changed code uses a construct outside its reach, or an anchor
                # was lost).  Bounded stand-in, labelled as such: search for a concrete failing input on the real code.
                # A found input is a real violation (replayed on the real code); none found => stays undecided (exit 2).
                wit = None
                try:
                    wit = registry.witness(pid, r, workdir, seed)
                except Exception as ex:
                    wit = {'found': False, 'error': repr(ex)}
                if wit and wit.get('found') and not (pid == 'C07' and not panic_like(wit)) and bounded_relevant(pid, wit):
                    r['failed'] = [{'class': 'bounded-stand-in', 'function': None, 'section': r['unit'],
                                    'message': 'verifier could not process the current code (%s); bounded search on the real code found a failing input' % (r.get('reason') or '')[:300],
                                    'text': None}]
                    r['bounded_stand_in'] = True
                    violations.append((r, wit))
                else:
                    r['witness_search'] = wit
                    undecided.append(r)

        # ---- known findings (never written at run time)
        kf_lines, kf_unlisted = registry.known_findings(pid, load_known(), workdir, seed)
        for v in kf_unlisted:
            violations.append((v['result'], v['witness']))

        wall = time.time() - t0
        ev = registry.evidence(pid, tier, seed, results, stability, violations, undecided, kf_lines, wall)
        os.makedirs(os.path.join(VERIF, 'evidence'), exist_ok=True)
        with open(os.path.join(VERIF, 'evidence', pid + '.json'), 'w') as f:
            json.dump(ev, f, indent=1)

        for r in results:
            v = r.get('verus') or {}
            print('[%s] unit %-12s %-10s %s verified=%s errors=%s wall=%.1fs %s' % (
                pid, r['unit'], r['status'], r.get('backend', ''), v.get('verified', r.get('verified', '-')),
                v.get('errors', r.get('errors', '-')), v.get('wall_s', r.get('wall_s', 0)) or 0,
                ('canaries %d/%d' % (r['canaries']['failed_as_expected'], r['canaries']['inserted'])) if r.get('canaries') else ''))
        for l in kf_lines:
            print(l)
        rc = 0
        if violations:
            for idx, (r, wit) in enumerate(violations):
                path = write_replay(pid, r, wit, idx)
                for d in r.get('failed', [])[:6]:
                    print('  failed obligation: unit=%s fn=%s: %s | %s' % (r['unit'], d.get('function'), d.get('message'), d.get('text')))
                tail = '' if (wit and wit.get('found')) else ' no-failing-input-found'
                if wit and wit.get('found'):
                    print('  failing input (replayed on the real code): %s' % json.dumps(wit.get('input'))[:400])
                print('VIOLATION property=%s replay=%s%s' % (pid, path, tail))
            rc = 1
        elif undecided:
            for r in undecided:
                print('UNDECIDED property=%s unit=%s: %s' % (pid, r['unit'], r.get('reason')))
                ws = r.get('witness_search')
                if ws:
                    print('  bounded stand-in on the real code: %s' % (ws.get('searched') or ws.get('error') or ws.get('note') or ws))
            rc = 2
        else:
            print('OK property=%s: %d obligations discharged in %.1fs' % (pid, ev['coverage']['discharged'], wall))
        return rc
    finally:
        if not args.keep and not os.environ.get('VERIF_KEEP'):
            shutil.rmtree(workdir, ignore_errors=True)
        else:
            print('work dir kept: ' + workdir)


if __name__ == '__main__':
    sys.exit(main())
