"""U-opt_swift: the statements of Swift::write_struct that write one stored property (T11: lifted from the loop over the fields), see optcommon."""
from rsx import A, ins, rep, drop
from vunit import Item, Unit
import fmtcommon as F
import optcommon as O

SRC = 'core/src/language/swift.rs'

PRELUDE = O.PRELUDE + r'''
// ---------- T7 stubs (field types the Swift struct only stores)
#[verifier::external_body] pub struct GenericConstraints { _p: u8 }
#[verifier::external_body] pub struct AtomicBool { _p: u8 }
impl Swift {
    pub open spec fn cfg(&self) -> TCfg { TCfg { lang: Lang::Swift, map: self.type_mappings@, prefix: self.prefix@, no_pointer_slice: false } }
''' + O.FORMAT_TYPE_STUB % {'fmt': 'fmt_swift'} + r'''
}
/// parser.rs::remove_dash_from_identifier o swift_keyword_aware_rename: the property name Swift declares for a wire name (a pure function)
pub uninterp spec fn swift_ident(name: Seq<char>) -> Seq<char>;
/// stands for the Cow<str> swift_keyword_aware_rename returns (only `.as_ref()` is taken from it)
#[verifier::external_body] pub struct SwiftName { _p: u8 }
pub uninterp spec fn escaped_of(n: SwiftName) -> Seq<char>;
impl SwiftName {
    #[verifier::external_body]
    pub fn as_ref(&self) -> (r: &str) ensures r@ == escaped_of(*self) { unimplemented!() }
}
pub uninterp spec fn swift_escape(name: Seq<char>) -> Seq<char>;
#[verifier::external_body]
fn swift_keyword_aware_rename(name: &String) -> (r: SwiftName) ensures escaped_of(r) == swift_escape(name@) { unimplemented!() }
pub uninterp spec fn undash(name: Seq<char>) -> Seq<char>;
#[verifier::external_body]
fn remove_dash_from_identifier(name: &str) -> (r: String) ensures r@ == undash(name@) { unimplemented!() }
/// the generic parameter list of the struct being written
pub struct RustStruct { pub generic_types: Vec<String> }
'''

WRAP = ('''impl Swift {
/// T11: the statements of write_struct's loop `for f in &rs.fields` that write the stored property of `f`
fn stored_property_block(&mut self, w: &mut WriteSink, rs: &RustStruct, f: &RustField) -> (r: io::Result<()>)
    requires obeys_key_model::<String>(), dom(f.ty),
    ensures /*C04*/ r is Ok ==> exists|pre: Seq<char>, t: Seq<char>, post: Seq<char>| #[trigger] wit3(pre, t, post)
            && field_type_ok(old(self).cfg(), rs.generic_types@, *f, SupportedLanguage::Swift, t)
            && final(w)@ == old(w)@ + pre + member(Lang::Swift, undash(swift_escape(f.id.renamed@)), t, *f) + post,
        final(self).cfg() == old(self).cfg(),
{
    let ghost w0 = w@;
''', '''
    proof {
        let pre = wfmt_stored_property_block_1_p0();
        let post = wfmt_stored_property_block_1_p3() + "\\n"@;
        // the override case: the override, with the `?` of an Option<T> field (literal of the format! site)
        fmt_stored_property_block_0_p0_chars(); fmt_stored_property_block_0_p1_chars(); reveal_strlit("?");
        assert(wit3(pre, case_type@, post));
        assert(w@ =~= w0 + pre + member(Lang::Swift, undash(swift_escape(f.id.renamed@)), case_type@, *f) + post);
    }
    Ok(())
}
}
''')

BLOCK = [
]

UNIT = Unit(
    name='opt_swift', props=['C04', 'C07'], pre_verus=O.PRE_VERUS, spec_files=['std_slices.rs', 'seqjoin.rs', 'typexpr.rs', 'txt.rs', 'optmark.rs'], prelude=PRELUDE,
    items=O.base_items('Swift', SRC) + [
        Item('stored_property_block', SRC, ['impl Language for Swift {', 'fn write_struct'], BLOCK, wrap=WRAP,
             block=(A.text('coding_keys.push(remove_dash_from_identifier( swift_keyword_aware_rename(&f.id.renamed).as_ref(), )); }'),
                    A.loop_end(0)),
             auto=('fmt', 'strlit', 'then_some', 'map_err_q')),
    ],
    functions=['Swift::stored_property_block', 'RustType::is_optional', 'RustType::is_double_optional'],
    trusted=O.TRUSTED + ['T11: the statements writing one stored property are lifted out of write_struct\'s loop into a function of (self, w, rs, f); the rest of '
                         'write_struct (header, coding keys, initialiser) is not under contract',
                         'stubs: swift_keyword_aware_rename / remove_dash_from_identifier are pure functions of the name'],
    undecided=O.UNDECIDED + ['Swift: the initialiser parameters repeat the member with the same marker expression (second copy, not under contract)'],
)
UNIT.crate_attrs = '#![feature(allocator_api)]'
UNIT.forbid = F.FORBID
UNIT.allowed_calls = O.ALLOWED


def native(workdir):
    import optsearch
    return optsearch.native(workdir)


def replay_args(inp):
    import optsearch
    return optsearch.replay_args(inp)
