"""U-doc_<lang>: write_comment / write_comments of one line-comment back end (Kotlin, Swift: `///`; Scala, Go: `//`), verbatim, over a
ghost text sink.  Serves C15 (kernel): whatever the doc text contains - line breaks, carriage returns, comment terminators, quote
sequences, backslashes - the text the writer appends is a sequence of whole lines, each  indentation + `//` + text without a line break
+ LF: every byte of the doc text lies inside a line comment.  C07: no panic."""
from rsx import A, ins, rep, drop
from vunit import Item, Unit
import fmtcommon as F
import optcommon as O

PRE_VERUS = O.PRE_VERUS + 'use vstd::std_specs::iter::IteratorSpec;\n'

PRELUDE = r'''
// ---------- T7 stubs
#[verifier::external_body] pub struct IoError { _p: u8 }
/// stands for `dyn Write`: the text written so far
#[verifier::external_body] pub struct WriteSink { _p: u8 }
impl View for WriteSink { type V = Seq<char>; uninterp spec fn view(&self) -> Seq<char>; }

/// T4: `s.split(|c| c == '\n' || c == '\r')` - the pieces between line breaks (std: str::split with a char predicate: no piece
/// contains a character the predicate accepts; at least one piece)
#[verifier::external_body]
fn split_eol(comment: &str) -> (r: Vec<&str>)
    ensures r@.len() >= 1, forall|i: int| 0 <= i < r@.len() ==> no_eol(#[trigger] r@[i]@)
{ unimplemented!() }
/// `"\t".repeat(n)`: n tab characters
pub uninterp spec fn tabs(n: usize) -> Seq<char>;
#[verifier::external_body]
fn tabs_of(n: usize) -> (r: String)
    ensures r@ == tabs(n), all_tabs(tabs(n))
{ unimplemented!() }
/// str::trim_end: removes trailing white space - a function of the text that introduces no line break
pub uninterp spec fn trimmed(s: Seq<char>) -> Seq<char>;
#[verifier::external_body]
fn trim_end_of(s: &str) -> (r: &str)
    ensures r@ == trimmed(s@), no_eol(s@) ==> no_eol(r@)
{ unimplemented!() }

/// a line  indentation + marker + text + LF  whose marker starts with `//` and whose text has no line break is a comment line
pub proof fn lemma_marker(m: Seq<char>, line: Seq<char>, ws: Seq<char>, nl: Seq<char>)
    requires m.len() >= 2, m[0] == '/', m[1] == '/', no_eol(m), no_eol(line), all_tabs(ws), nl =~= lf()
    ensures comment_line(ws + m + line + nl)
{
    let rest = m.subrange(2, m.len() as int) + line;
    assert(wit2(ws, rest));
    assert(m =~= slashes() + m.subrange(2, m.len() as int));
    assert(ws + m + line + nl =~= ws + slashes() + rest + lf());
}
'''


def comment_edits(split_span, split_arg, line_text):
    """split_span: the `for` header as written; split_arg: the expression that is split; line_text: spec text of what is written per line"""
    site = 'wfmt_write_comment_0'
    return [
        rep(A.text('&mut dyn Write'), '&mut WriteSink', tag='T7'),
        ins(A.ret(), '(r: ', where='before'), ins(A.ret(), ')', where='after'),
        ins(A.sig(), '''
        ensures /*C15 C10: every byte of the doc text lies inside a line comment, each comment line ends at its line feed*/
            r is Ok ==> exists|t: Seq<char>| #[trigger] commented(t) && final(w)@ == old(w)@ + t,
''', cid='write_comment.contract'),
        ins(A.body_start(), '''
        let ghost w0 = w@;
        proof { lemma_commented_empty(); assert(w@ =~= w0 + Seq::<char>::empty()); }'''),
        rep(A.span(split_span, "c == '\\r')"), 'let lines__ = split_eol(%s); for line in it: lines__.iter()' % split_arg, tag='T4',
            note='str::split with the predicate "is a line break": the pieces between line breaks, bound to a name'),
        ins(A.loop(0), '''
            invariant exists|t: Seq<char>| #[trigger] commented(t) && w@ == w0 + t,
                forall|i: int| 0 <= i < lines__@.len() ==> no_eol(#[trigger] lines__@[i]@),
''', cid='write_comment.invariant'),
        ins(A.loop_body(0), '''
            let ghost t0 = choose|t: Seq<char>| #[trigger] commented(t) && w@ == w0 + t;
            let ghost wa = w@;'''),
        ins(A.loop_end(0), '''
            proof {
                // the marker is whatever the literal says: it has to start with `//` and contain no line break; the text before it is indentation
                %(site)s_p0_chars(); %(site)s_p1_chars(); %(site)s_p2_chars();
                reveal_strlit("\\n");
                assert(*line == lines__@[it.index@]);
                let text = %(line)s;
                assert(no_eol(text));
                let ws = %(site)s_p0() + tabs(indent);
                assert(all_tabs(ws));
                let all = ws + %(site)s_p1() + (text + %(site)s_p2()) + "\\n"@;
                assert(w@ =~= wa + all);
                lemma_marker(%(site)s_p1(), text + %(site)s_p2(), ws, "\\n"@);
                lemma_commented_push(t0, all);
                assert(w@ =~= w0 + (t0 + all));
            }
        ''' % {'site': site, 'line': line_text}),
    ]


# `comments.iter().try_for_each(|comment| F(comment))`  ->  the loop that runs F and returns the first Err (std: Iterator::try_for_each); F stays verbatim
TRY_HEAD = '''let ghost w0 = w@;
        proof { lemma_commented_empty(); assert(w@ =~= w0 + Seq::<char>::empty()); }
        for comment in it: comments.iter()
            invariant exists|t: Seq<char>| #[trigger] commented(t) && w@ == w0 + t,
        {
            let ghost t0 = choose|t: Seq<char>| #[trigger] commented(t) && w@ == w0 + t;
            let ghost wa = w@;
            match ('''
TRY_TAIL = ''') { Ok(()) => {}, Err(e__) => return Err(e__) }
            proof {
                let t1 = choose|t: Seq<char>| #[trigger] commented(t) && w@ == wa + t;
                lemma_commented_concat(t0, t1);
                assert(w@ =~= w0 + (t0 + t1));
            }
        }
        Ok(())'''


def comments_edits():
    return [
        rep(A.text('&mut dyn Write'), '&mut WriteSink', tag='T7'),
        ins(A.ret(), '(r: ', where='before'), ins(A.ret(), ')', where='after'),
        ins(A.sig(), '''
        ensures /*C15 C10*/ r is Ok ==> exists|t: Seq<char>| #[trigger] commented(t) && final(w)@ == old(w)@ + t,
''', cid='write_comments.contract'),
        rep(A.span('comments .iter()', '.try_for_each(|comment|'), TRY_HEAD, tag='T14b',
            note='iter().try_for_each(|c| F(c)) is the loop that runs F(c) and returns the first Err (std); F stays verbatim'),
        rep(A.next_tok('write_comment(w, indent, comment)', ')'), TRY_TAIL, tag='T14b'),
    ]


def make_unit(name, struct, src, impl_path, split_span='for line in comment', split_arg='comment', line_text='line@', free_fns=False, closure_var='comment'):
    w = None if free_fns else ('impl %s {\n' % struct, '\n}\n')
    prelude = PRELUDE + ('' if free_fns else 'pub struct %s { _p: u8 }\n' % struct)
    path = (lambda f: ['fn ' + f]) if free_fns else (lambda f: [impl_path, 'fn ' + f])
    cs = comments_edits()
    if closure_var != 'comment':
        cs = [e for e in cs]
        cs[4] = rep(A.span('comments .iter()', '.try_for_each(|%s|' % closure_var), TRY_HEAD.replace('for comment in it', 'for %s in it' % closure_var), tag='T14b')
        cs[5] = rep(A.next_tok('write_comment(w, indent, %s)' % closure_var, ')'), TRY_TAIL, tag='T14b')
    items = [
        Item('write_comment', src, path('write_comment'), comment_edits(split_span, split_arg, line_text), wrap=w,
             auto=('fmt', ('tok', '"\\t".repeat(indent)', 'tabs_of(indent)', 'T3'), ('tok', 'line.trim_end()', 'trim_end_of(line)', 'T3'))),
        Item('write_comments', src, path('write_comments'), cs, wrap=w),
    ]
    u = Unit(
        name=name, props=['C15', 'C07'], pre_verus=PRE_VERUS, spec_files=['txt.rs', 'seqjoin.rs', 'commented.rs'], prelude=prelude, items=items,
        functions=([] if free_fns else []) + ['%swrite_comment' % ('' if free_fns else struct + '::'), '%swrite_comments' % ('' if free_fns else struct + '::')],
        trusted=[
            'T14: the writeln! site is verified through the contract generated from its literal; the marker is the literal\'s own text (ghost '
            'constant + a generated lemma spelling its characters)',
            'T4: `s.split(|c| c == \'\\n\' || c == \'\\r\')` verified as iteration over the pieces between line breaks (std str::split: no piece contains a '
            'separator character); T14b: iter().try_for_each(F) verified as the loop returning the first Err; F verbatim',
            'stubs: "\\t".repeat(n) is indentation; str::trim_end introduces no line break',
        ],
        undecided=[
            'that every doc string of the source reaches a comment writer and that all of its text is reproduced (parse_comment_attrs: syn; the '
            'contract bounds where the text may go, not that it is complete) - bounded stand-in doc-search',
            'TypeScript (block comments: `*/` escaped) and Python (docstrings: `\"\"\"` escaped) build their comment with replace / join chains: '
            'bounded stand-in doc-search only',
        ],
    )
    u.forbid = F.FORBID
    u.allowed_calls = {'iter', 'write_comment'}
    return u
