"""U-serdecase: the ORACLE side of C16.  serde_derive 1.0.214's own `RenameRule::apply_to_variant` / `apply_to_field`
(vendor/serde_derive-1.0.214/case.rs, copied unmodified from the offline cargo registry) proved equal to the Seq<char>
specification in spec/serde_case.rs - the same specification the typeshare code is verified against in unit `rename`.
The hand-written specification is thus only the meeting point of two proofs about two pieces of real code."""
import os

import vunit
from rsx import A, ins, rep, drop
from vunit import Item, Unit

ROOT = os.path.join(vunit.VERIF, 'vendor', 'serde_derive-1.0.214')

PRELUDE = r'''
use self::RenameRule::*;
/// the rename_all string each rule is registered under in serde's RENAME_RULES table (read off case.rs; `from_str` is not under contract)
pub open spec fn rule_name(r: RenameRule) -> Seq<char> {
    match r {
        RenameRule::None => seq![],
        RenameRule::LowerCase => R_LOWER(), RenameRule::UpperCase => R_UPPER(), RenameRule::PascalCase => R_PASCAL(),
        RenameRule::CamelCase => R_CAMEL(), RenameRule::SnakeCase => R_SNAKE(), RenameRule::ScreamingSnakeCase => R_SSNAKE(),
        RenameRule::KebabCase => R_KEBAB(), RenameRule::ScreamingKebabCase => R_SKEBAB(),
    }
}
pub open spec fn rank(r: RenameRule) -> nat {
    match r { RenameRule::ScreamingKebabCase => 2, RenameRule::ScreamingSnakeCase => 1, RenameRule::KebabCase => 1, RenameRule::CamelCase => 1, _ => 0 }
}
proof fn lemma_rule_names()
    ensures
        R_LOWER() != R_UPPER(), R_LOWER() != R_PASCAL(), R_LOWER() != R_CAMEL(), R_LOWER() != R_SNAKE(), R_LOWER() != R_SSNAKE(), R_LOWER() != R_KEBAB(), R_LOWER() != R_SKEBAB(),
        R_UPPER() != R_PASCAL(), R_UPPER() != R_CAMEL(), R_UPPER() != R_SNAKE(), R_UPPER() != R_SSNAKE(), R_UPPER() != R_KEBAB(), R_UPPER() != R_SKEBAB(),
        R_PASCAL() != R_CAMEL(), R_PASCAL() != R_SNAKE(), R_PASCAL() != R_SSNAKE(), R_PASCAL() != R_KEBAB(), R_PASCAL() != R_SKEBAB(),
        R_CAMEL() != R_SNAKE(), R_CAMEL() != R_SSNAKE(), R_CAMEL() != R_KEBAB(), R_CAMEL() != R_SKEBAB(),
        R_SNAKE() != R_SSNAKE(), R_SNAKE() != R_KEBAB(), R_SNAKE() != R_SKEBAB(),
        R_SSNAKE() != R_KEBAB(), R_SSNAKE() != R_SKEBAB(),
        R_KEBAB() != R_SKEBAB(),
        R_LOWER().len() > 0, R_UPPER().len() > 0, R_PASCAL().len() > 0, R_CAMEL().len() > 0, R_SNAKE().len() > 0, R_SSNAKE().len() > 0, R_KEBAB().len() > 0, R_SKEBAB().len() > 0,
{
    reveal_strlit("lowercase"); reveal_strlit("UPPERCASE"); reveal_strlit("PascalCase"); reveal_strlit("camelCase");
    reveal_strlit("snake_case"); reveal_strlit("SCREAMING_SNAKE_CASE"); reveal_strlit("kebab-case"); reveal_strlit("SCREAMING-KEBAB-CASE");
    assert(R_LOWER()[0] == 'l' && R_UPPER()[0] == 'U' && R_PASCAL()[0] == 'P' && R_CAMEL()[0] == 'c' && R_SNAKE()[0] == 's'
        && R_SSNAKE()[0] == 'S' && R_KEBAB()[0] == 'k' && R_SKEBAB()[0] == 'S');
    assert(R_SSNAKE()[9] == '_' && R_SKEBAB()[9] == '-');
}
proof fn lemma_dash_up_commute(x: Seq<char>)
    ensures ascii_up(dash(x)) == dash(ascii_up(x))
{ assert(ascii_up(dash(x)) =~= dash(ascii_up(x))); }
'''

SNAKE_LOOP = [
    rep(A.text('for (i, ch) in variant.char_indices()'), """let mut it__ = variant.char_indices();
                proof { assert(variant@.skip(0) =~= variant@); }
                loop""", tag='T4'),
    ins(A.loop(0), """
                    invariant_except_break
                        0 <= ci_pos(it__) <= variant@.len(),
                        ci_rest(it__) == variant@.skip(ci_pos(it__)),
                        snake@ + sd_snake(ci_rest(it__), ci_pos(it__) == 0) =~= sd_snake(variant@, true),
                    ensures snake@ =~= sd_snake(variant@, true)
                    decreases ci_rest(it__).len()
                """, cid='apply_to_variant.snake_invariant'),
    ins(A.loop_body(0), """
                    let ghost pos0 = ci_pos(it__);
                    match it__.next() { Some((i, ch)) => {
                    proof { assert(variant@.skip(pos0).drop_first() =~= variant@.skip(pos0 + 1)); }""", tag='T4'),
    ins(A.loop_end(0), """
                    } Option::None => { break; } }
                """, tag='T4'),
]

VARIANT = [
    ins(A.ret(), '(r: ', where='before'), ins(A.ret(), ')', where='after'),
    ins(A.sig(), """
        requires /*serde panics (rustc rejects the derive) otherwise*/ self == RenameRule::CamelCase ==> sd_slice1_ok(variant@)
        ensures /*oracle == specification*/ r@ == serde_variant(rule_name(self), variant@)
        decreases rank(self)
    """, cid='apply_to_variant.contract'),
    ins(A.body_start(), """
        proof { lemma_rule_names(); lemma_dash_up_commute(sd_snake(variant@, true)); }"""),
    rep(A.text('variant[..1].to_ascii_lowercase() + &variant[1..]'), 'outlined_lower_first(variant)', tag='T3', cid='o_lf_variant'),
] + SNAKE_LOOP + [
    ins(A.text('SnakeCase.apply_to_variant(variant).replace'), 'outlined_dash(', where='before', tag='T3'),
    rep(A.text(""".replace('_', "-")""", nth=1), ')', tag='T3', cid='o_dash'),
    ins(A.text('ScreamingSnakeCase .apply_to_variant(variant) .replace'), 'outlined_dash(', where='before', tag='T3'),
    rep(A.text(""".replace('_', "-")""", nth=2), ')', tag='T3', cid='o_dash'),
]

FIELD = [
    ins(A.ret(), '(r: ', where='before'), ins(A.ret(), ')', where='after'),
    ins(A.sig(), """
        requires self == RenameRule::CamelCase ==> sd_slice1_ok(sd_pascal(field@, true))
        ensures /*oracle == specification*/ r@ == serde_field(rule_name(self), field@)
        decreases rank(self)
    """, cid='apply_to_field.contract'),
    ins(A.body_start(), """
        proof { lemma_rule_names(); lemma_dash_up_commute(field@); }"""),
    ins(A.text('for ch in'), ' it:'),
    ins(A.text('for ch in field.chars()'), """proof { assert(field@.skip(0) =~= field@); }
                """, where='before'),
    ins(A.loop(0), """
                    invariant
                        0 <= it.index@ <= field@.len(),
                        pascal@ + sd_pascal(field@.skip(it.index@), capitalize) =~= sd_pascal(field@, true),
                """, cid='apply_to_field.pascal_invariant'),
    ins(A.loop_body(0), """
                    proof {
                        let rest = field@.skip(it.index@);
                        assert(rest.drop_first() =~= field@.skip(it.index@ + 1));
                        assert(rest[0] == ch);
                    }"""),
    ins(A.loop_after(0), """
                proof { assert(field@.skip(field@.len() as int) =~= Seq::<char>::empty()); }"""),
    rep(A.text('pascal[..1].to_ascii_lowercase() + &pascal[1..]'), 'outlined_lower_first_string(&pascal)', tag='T3', cid='o_lf_pascal'),
    rep(A.text("""field.replace('_', "-")"""), 'outlined_dash_str(field)', tag='T3', cid='o_dash_str'),
    ins(A.text('ScreamingSnakeCase.apply_to_field(field).replace'), 'outlined_dash(', where='before', tag='T3'),
    rep(A.text(""".replace('_', "-")""", nth=2), ')', tag='T3', cid='o_dash2'),
]

W = ('impl RenameRule {\n', '\n}\n')
UNIT = Unit(
    name='serdecase',
    props=['C16'],
    spec_files=['chars.rs', 'serde_case.rs'],
    prelude=PRELUDE,
    items=[
        Item('enum_RenameRule', 'case.rs', ['enum RenameRule'], root=ROOT),
        Item('apply_to_variant', 'case.rs', ['impl RenameRule {', 'fn apply_to_variant'], VARIANT, wrap=W, root=ROOT),
        Item('apply_to_field', 'case.rs', ['impl RenameRule {', 'fn apply_to_field'], FIELD, wrap=W, root=ROOT),
    ],
    outlines={
        'o_lf_variant': """fn outlined_lower_first(variant: &str) -> (r: String)
    requires sd_slice1_ok(variant@)   // std: str range indexing panics unless the range ends on char boundaries
    ensures r@ == lower_first(variant@)""",
        'o_lf_pascal': {'decl': """fn outlined_lower_first_string(pascal: &String) -> (r: String)
    requires sd_slice1_ok(pascal@)
    ensures r@ == lower_first(pascal@)""", 'compile': False},
        'o_dash': {'decl': """fn outlined_dash(s: String) -> (r: String)
    ensures r@ == dash(s@)""", 'prefix': 's'},
        'o_dash2': {'decl': """fn outlined_dash2(s: String) -> (r: String)
    ensures r@ == dash(s@)""", 'prefix': 's'},
        'o_dash_str': """fn outlined_dash_str(field: &str) -> (r: String)
    ensures r@ == dash(field@)""",
    },
    functions=['RenameRule::apply_to_variant', 'RenameRule::apply_to_field'],
    trusted=[
        'vendored file: vendor/serde_derive-1.0.214/case.rs (sha256 in vendor/.../SHA256), the version pinned in /repo/Cargo.lock',
        'the same std string contracts as unit rename (spec/chars.rs); outlined: `s[..1].to_ascii_lowercase() + &s[1..]` is lower_first(s) when it '
        'does not panic; `.replace(\'_\', "-")` is dash()',
        'serde\'s RENAME_RULES table (name -> rule) is read, `from_str` is not under contract',
    ],
    undecided=[],
)
