"""replay of known-finding witnesses against the REAL crates: /verif/replay (path dependencies on /repo/core)."""
import os
import shutil
import subprocess
import time
import threading

import vunit

_lock = threading.Lock()
_bin = {}


def replay_bin():
    """build (cached target dir outside /repo and /verif) and return the verif-replay binary; None if it cannot be built"""
    with _lock:
        if 'exe' in _bin:
            return _bin['exe']
        work = os.environ.get('VERIF_WORK', '/var/tmp/typeshare-verif')
        tgt = os.path.join(work, 'replay-target')
        crate = os.path.join(vunit.VERIF, 'replay')
        shutil.copy(os.path.join(vunit.REPO, 'Cargo.lock'), os.path.join(crate, 'Cargo.lock'))
        pr = subprocess.run(['cargo', 'build', '--release', '--offline', '--target-dir', tgt], cwd=crate, capture_output=True, text=True,
                            timeout=1200, env=dict(os.environ, CARGO_NET_OFFLINE='true'))
        exe = os.path.join(tgt, 'release', 'verif-replay')
        _bin['exe'] = exe if pr.returncode == 0 and os.path.exists(exe) else None
        _bin['err'] = pr.stderr[-2000:]
        return _bin['exe']


def replay_known(kf, workdir):
    """True iff the finding's witness still fails on the real code"""
    exe = replay_bin()
    if not exe:
        raise RuntimeError('replay binary does not build: ' + _bin.get('err', ''))
    for attempt in range(8):
        try:
            pr = subprocess.run([exe] + kf['witness']['args'], capture_output=True, text=True, timeout=120, cwd=vunit.VERIF)
            break
        except OSError as ex:   # ETXTBSY right after the build: retry
            if ex.errno != 26 or attempt == 7:
                raise
            time.sleep(0.05 * (attempt + 1))
    return pr.returncode == 1
