"""U-swiftvoid: the Swift functions that write the definition of CodableVoid once the flag is raised - Swift::end_file, get_codable_contents and
write_codable, verbatim, over a ghost text sink.  Serves C12 (kernel, the step from RECORDED to WRITTEN for Swift in single-file mode): if the
CodableVoid flag is set (unit fmt_swift proves that translating `()` sets it) and the back end writes one file, the text end_file appends
contains the declaration `public struct CodableVoid` - taken from the literal of get_codable_contents."""
from rsx import A, ins, rep, drop
from vunit import Item, Unit
import fmtcommon as F
import optcommon as O

SRC = 'core/src/language/swift.rs'

PRELUDE = r'''
// ---------- T7 stubs
#[verifier::external_body] pub struct IoError { _p: u8 }
#[verifier::external_body] pub struct WriteSink { _p: u8 }
impl View for WriteSink { type V = Seq<char>; uninterp spec fn view(&self) -> Seq<char>; }
/// T7: std::sync::atomic::AtomicBool - the CodableVoid flag (load reads it)
#[verifier::external_body] pub struct AtomicBool { _p: u8 }
pub enum Ordering { SeqCst }
impl AtomicBool {
    pub uninterp spec fn is_set(&self) -> bool;
    #[verifier::external_body]
    pub fn load(&self, o: Ordering) -> (r: bool) ensures r == self.is_set() { unimplemented!() }
}
/// the part of struct Swift these functions read
pub struct Swift { pub should_emit_codable_void: AtomicBool, pub multi_file: bool }
/// trigger plumbing for "the output is earlier text + a + declaration + b"
pub open spec fn wit2(a: Seq<char>, b: Seq<char>) -> bool { true }
/// the declaration every use of the helper type refers to
pub open spec fn void_decl() -> Seq<char> { "public struct CodableVoid"@ }
pub open spec fn declares_void(t: Seq<char>) -> bool { exists|a: Seq<char>, b: Seq<char>| #[trigger] wit2(a, b) && t == a + void_decl() + b }
/// outlined (T3): `self.get_default_decorators().chain(self.codablevoid_constraints.iter().map(|s| s.as_str())).collect::<Vec<_>>()`
#[verifier::external_body]
fn codable_decorators(this: &Swift) -> (r: Vec<&str>) { unimplemented!() }
/// outlined (T3): `if !decs.contains(&CODABLE) { decs.push(CODABLE); }` + `decs.join(", ")`: the protocol list, some text
#[verifier::external_body]
fn protocol_list(decs: Vec<&str>) -> (r: String) { unimplemented!() }
'''

CONTENTS = [
    ins(A.ret(), '(r: ', where='before'), ins(A.ret(), ')', where='after'),
    ins(A.sig(), '''
        ensures /*C12: the contents declare CodableVoid*/ declares_void(r@),
''', cid='get_codable_contents.contract'),
    rep(A.span('self .get_default_decorators()', '.collect::<Vec<_>>()'), 'codable_decorators(self)', tag='T3', note='which protocols are listed is not part of the clause'),
    rep(A.span('if !decs.contains(&CODABLE) {', 'decs.push(CODABLE); }'), '', tag='T3', note='folded into protocol_list'),
    rep(A.text('decs.join(", ")'), 'protocol_list(decs)', tag='T3'),
    ins(A.text('format!('), 'let r__: String = ', where='before'),
    ins(A.body_end(), ''';
        proof {
            // the declaration is whatever the literal says: its first piece has to end with `public struct CodableVoid` + `: `
            fmt_get_codable_contents_0_p0_chars();
            reveal_strlit("public struct CodableVoid");
            let p0 = fmt_get_codable_contents_0_p0();
            let n = void_decl().len() as int;
            let k = p0.len() - 2 - n;
            assert(k >= 0);
            let a = p0.subrange(0, k);
            let tail = p0.subrange(k + n, p0.len() as int);
            assert(p0 =~= a + void_decl() + tail);
            let b = r__@.subrange(k + n, r__@.len() as int);
            assert(wit2(a, b));
            assert(r__@ =~= a + void_decl() + b);
        }
        r__
    '''),
]

WRITE = [
    rep(A.text('&mut dyn Write'), '&mut WriteSink', tag='T7'),
    ins(A.ret(), '(r: ', where='before'), ins(A.ret(), ')', where='after'),
    ins(A.sig(), '''
        ensures /*C12*/ r is Ok ==> final(w)@ == old(w)@ + output_string@ + "\\n"@,
''', cid='write_codable.contract'),
]

ENDFILE = [
    rep(A.text('&mut dyn Write'), '&mut WriteSink', tag='T7'),
    ins(A.ret(), '(r: ', where='before'), ins(A.ret(), ')', where='after'),
    ins(A.sig(), '''
        ensures /*C12: once `CodableVoid` has been used (flag raised) a single-file output ends with its definition*/
            (r is Ok && old(self).should_emit_codable_void.is_set() && !old(self).multi_file) ==> exists|t: Seq<char>| #[trigger] declares_void(t) && final(w)@ == old(w)@ + t,
''', cid='end_file.contract'),
    ins(A.body_start(), '''
        let ghost w0 = w@;'''),
    ins(A.text('Ok(())'), '''proof {
            if self.should_emit_codable_void.is_set() && !self.multi_file {
                let t = w@.subrange(w0.len() as int, w@.len() as int);
                assert(w@ =~= w0 + t);
                let c = choose|c: Seq<char>| #[trigger] declares_void(c) && w@ == w0 + c + "\\n"@;
                let (a, b) = choose|a: Seq<char>, b: Seq<char>| #[trigger] wit2(a, b) && c == a + void_decl() + b;
                assert(wit2(a, b + "\\n"@));
                assert(t =~= a + void_decl() + (b + "\\n"@));
                assert(declares_void(t));
            }
        }
        ''', where='before'),
]

UNIT = Unit(
    name='swiftvoid', props=['C12', 'C07'], pre_verus=O.PRE_VERUS, spec_files=['txt.rs'], prelude=PRELUDE,
    items=[
        Item('get_codable_contents', SRC, ['impl Swift {', 'fn get_codable_contents'], CONTENTS, wrap=('impl Swift {\n', '\n}\n'), auto=('fmt',)),
        Item('write_codable', SRC, ['impl Swift {', 'fn write_codable'], WRITE, wrap=('impl Swift {\n', '\n}\n'), auto=('fmt',)),
        Item('end_file', SRC, ['impl Language for Swift {', 'fn end_file'], ENDFILE, wrap=('impl Swift {\n', '\n}\n')),
    ],
    functions=['Swift::get_codable_contents', 'Swift::write_codable', 'Swift::end_file'],
    trusted=['T14: the format! / writeln! sites through contracts generated from their literals (the declaration is the literal\'s own text: ghost constant + character lemma)',
             'T7: AtomicBool::load reads the flag (sequential code); struct Swift reduced to the two fields these functions read',
             'outlined: the decorator chain and the protocol list (`Codable` + configured decorators joined by ", "): some text'],
    undecided=['folder output (multi_file): post_generation -> write_codable_file (unit write has its file-system contract; the `.map_err(..)?` glue of post_generation is not under contract)',
               'that every use of CodableVoid lies in a file the definition reaches (multi-file: the shared Codable.swift) - bounded stand-in helper-search'],
)
UNIT.forbid = F.FORBID
UNIT.allowed_calls = {'load'}


def native(workdir):
    import helpersearch
    return helpersearch.native(workdir)


def replay_args(inp):
    import helpersearch
    return helpersearch.replay_args(inp)
