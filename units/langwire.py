"""U-langwire: cli/src/main.rs::language, verbatim (cargo features go + python), over the real Config / *Params definitions
(cli/src/config.rs), the real back-end structs (core/src/language/*.rs) and SupportedLanguage.  Serves C20 (the last hop):
every setting of the effective configuration - command-line values and file-only values alike - reaches the back end that
generates the output, unchanged, in the field of the same name; the back end is the one selected by --lang.  The clauses are
GENERATED from the current *Params struct definitions, so a new setting that is not wired through fails the unit.  C07."""
import re

import rsx
import vunit
from rsx import A, ins, rep, drop
from vunit import Item, Unit
from cfg import struct_fields

FEATS = {'go', 'python'}
CFG = 'cli/src/config.rs'
L = 'core/src/language/'

PRE_VERUS = r'''
use std::collections::{HashMap, HashSet};
'''

PRELUDE = r'''
// ---------- T7 stubs (field types these structs only store)
#[verifier::external_body] #[verifier::reject_recursive_types(K)] #[verifier::reject_recursive_types(V)] pub struct BTreeMap<K, V> { _k: ::core::marker::PhantomData<(K, V)> }
#[verifier::external_body] #[verifier::reject_recursive_types(K)] pub struct BTreeSet<K> { _k: ::core::marker::PhantomData<K> }
#[verifier::external_body] pub struct AtomicBool { _p: u8 }
/// swift.rs GenericConstraints::from_config(list): splits and de-duplicates the configured constraints - a pure function of the list
#[verifier::external_body] pub struct GenericConstraints { _p: u8 }
pub uninterp spec fn constraints_of(v: Vec<String>) -> GenericConstraints;
impl GenericConstraints {
    #[verifier::external_body]
    pub fn from_config(constraints: Vec<String>) -> (r: Self)
        ensures r == constraints_of(constraints)
    { unimplemented!() }
}

/// T7: `Box<dyn Language>` (trait objects are outside Verus): which back end, with which settings
pub enum LangBox { Swift(Swift), Kotlin(Kotlin), Scala(Scala), TypeScript(TypeScript), Go(Go), Python(Python) }
pub trait IntoLang: Sized { spec fn boxed(self) -> LangBox; }
impl IntoLang for Swift { open spec fn boxed(self) -> LangBox { LangBox::Swift(self) } }
impl IntoLang for Kotlin { open spec fn boxed(self) -> LangBox { LangBox::Kotlin(self) } }
impl IntoLang for Scala { open spec fn boxed(self) -> LangBox { LangBox::Scala(self) } }
impl IntoLang for TypeScript { open spec fn boxed(self) -> LangBox { LangBox::TypeScript(self) } }
impl IntoLang for Go { open spec fn boxed(self) -> LangBox { LangBox::Go(self) } }
impl IntoLang for Python { open spec fn boxed(self) -> LangBox { LangBox::Python(self) } }
/// `Box::new(x)` in a `Box<dyn Language>` position
#[verifier::external_body]
fn box_lang<T: IntoLang>(x: T) -> (r: LangBox)
    ensures r == x.boxed()
{ unimplemented!() }

// `..Default::default()`: the derived Default of each back end (some value; the fields the literal names are what matters)
pub trait DefaultStub: Sized {
    spec fn dflt_spec() -> Self;
    fn dflt() -> (r: Self)
        ensures r == Self::dflt_spec();
}
pub uninterp spec fn default_swift() -> Swift;
impl DefaultStub for Swift { open spec fn dflt_spec() -> Self { default_swift() } #[verifier::external_body] fn dflt() -> (r: Self) { unimplemented!() } }
pub uninterp spec fn default_kotlin() -> Kotlin;
impl DefaultStub for Kotlin { open spec fn dflt_spec() -> Self { default_kotlin() } #[verifier::external_body] fn dflt() -> (r: Self) { unimplemented!() } }
pub uninterp spec fn default_scala() -> Scala;
impl DefaultStub for Scala { open spec fn dflt_spec() -> Self { default_scala() } #[verifier::external_body] fn dflt() -> (r: Self) { unimplemented!() } }
pub uninterp spec fn default_typescript() -> TypeScript;
impl DefaultStub for TypeScript { open spec fn dflt_spec() -> Self { default_typescript() } #[verifier::external_body] fn dflt() -> (r: Self) { unimplemented!() } }
pub uninterp spec fn default_go() -> Go;
impl DefaultStub for Go { open spec fn dflt_spec() -> Self { default_go() } #[verifier::external_body] fn dflt() -> (r: Self) { unimplemented!() } }
pub uninterp spec fn default_python() -> Python;
impl DefaultStub for Python { open spec fn dflt_spec() -> Self { default_python() } #[verifier::external_body] fn dflt() -> (r: Self) { unimplemented!() } }
'''

# (SupportedLanguage variant, Config field, *Params struct, back-end struct, source file)
LANGS = [('Swift', 'swift', 'SwiftParams', 'Swift', 'swift.rs'), ('Kotlin', 'kotlin', 'KotlinParams', 'Kotlin', 'kotlin.rs'),
         ('Scala', 'scala', 'ScalaParams', 'Scala', 'scala.rs'), ('TypeScript', 'typescript', 'TypeScriptParams', 'TypeScript', 'typescript.rs'),
         ('Go', 'go', 'GoParams', 'Go', 'go.rs'), ('Python', 'python', 'PythonParams', 'Python', 'python.rs')]


def make_unit():
    items = []
    for (_, _, params, _, _) in LANGS:
        items.append(Item('struct_' + params, CFG, ['struct ' + params], features=FEATS))
    items.append(Item('struct_Config', CFG, ['struct Config'], features=FEATS))
    items.append(Item('enum_SupportedLanguage', L + 'mod.rs', ['enum SupportedLanguage']))
    for (_, _, _, st, f) in LANGS:
        items.append(Item('struct_' + st, L + f, ['struct ' + st]))
    clauses = []
    for (variant, cf, params, st, _) in LANGS:
        it = [i for i in items if i.name == 'struct_' + params][0]
        try:
            fields = struct_fields(vunit.current_item_text(it))
        except Exception:
            fields = []
        eqs = []
        for (n, _t) in fields:
            if st == 'Swift' and n == 'default_generic_constraints':
                eqs.append('b.%s == constraints_of(config.%s.%s)' % (n, cf, n))
            else:
                eqs.append('b.%s == config.%s.%s' % (n, cf, n))
        if st == 'Swift':
            eqs.append('b.multi_file == multi_file')
        clauses.append('            SupportedLanguage::%s => r is %s && ({ let b = r->%s_0; %s }),' % (variant, st, st, ' && '.join(eqs) or 'true'))
    contract = '''
    ensures
        /*C20: the back end selected by --lang receives every setting of the effective configuration in the field of the same name*/
        match language_type {
%s
        },
''' % '\n'.join(clauses)
    edits = [
        rep(A.text('Box<dyn Language>'), 'LangBox', tag='T7', note='trait objects are outside Verus: the enum says which back end with which settings'),
        ins(A.ret(), '(r: ', where='before'), ins(A.ret(), ')', where='after'),
        ins(A.sig(), contract, cid='language.contract'),
    ]
    items.append(Item('language', 'cli/src/main.rs', ['fn language'], edits, features=FEATS,
                      auto=(('tok', 'Box::new(', 'box_lang(', 'T7'), ('tok', 'Default::default()', 'DefaultStub::dflt()', 'T7'))))
    return Unit(
        name='langwire', props=['C20', 'C07'], pre_verus=PRE_VERUS, prelude=PRELUDE, items=items,
        functions=['language'],
        trusted=[
            'T7: Box<dyn Language> is verified as an enum over the six back-end structs (Box::new(x) as its injection); `..Default::default()` '
            'is some value of the struct (derived Default, uninterpreted) - only the fields the literal names are constrained',
            'stub: GenericConstraints::from_config is a pure function of the configured list',
        ],
        undecided=[
            'that the back ends USE these fields when generating (text emission)',
            'cargo feature sets without go / python (the match arms that panic there are unreachable only because clap rejects the language)',
        ],
    )


UNIT = make_unit()
UNIT.allowed_calls = {'is_empty', 'clone', 'len', 'to_owned'}     # closed-world check: language() may only call what the unit defines (box_lang, dflt, from_config)
