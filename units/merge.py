"""U-merge: the sequential core of schedule-independence and of item conservation.
core/src/parser.rs: ParsedData::add_assign (T2 re-homed), ParsedData::push, ParsedData::is_empty;
core/src/visitors.rs: TypeShareVisitor::collect_result; core/src/reconcile.rs: the sort block of reconcile_aliases (T11).
Serves C06 (merged item vectors are a function of the multiset of per-file results), C03 (nothing parsed is dropped,
duplicated or invented between the parser and the writer; errors are kept), C07 (total)."""
from rsx import A, ins, rep, drop
from vunit import Item, Unit

PRE_VERUS = r'''
use std::collections::{HashMap, HashSet, BTreeSet};
use vstd::std_specs::hash::*;
use vstd::seq_lib::*;
use vstd::relations::*;
'''

PRELUDE = r'''
// ---------- T7: opaque stand-ins for types this unit only moves around
#[verifier::external_body] pub struct RustField { _p: u8 }
#[verifier::external_body] pub struct RustType { _p: u8 }
#[verifier::external_body] pub struct RustConstExpr { _p: u8 }
#[verifier::external_body] pub struct DecoratorMap { _p: u8 }
#[verifier::external_body] pub struct RustEnumVariant { _p: u8 }
#[verifier::external_body] pub struct CrateName { _p: u8 }
#[verifier::external_body] pub struct ParseError { _p: u8 }
#[verifier::external_body] pub struct PathBuf { _p: u8 }   // std::path::PathBuf (only stored and passed on)

// ---------- assumed std contracts
/// the `Ord` of an item type as a relation (the three hand-written impls compare `id.original`; they are `external`)
pub uninterp spec fn ord_le<T>(a: T, b: T) -> bool;
/// std: "This sort is stable ... sorts the slice" - sorted w.r.t. Ord, same elements
pub assume_specification<T: Ord> [<[T]>::sort] (s: &mut [T])
    ensures sorted_by(final(s)@, |a: T, b: T| ord_le(a, b)),
            final(s)@.to_multiset() == old(s)@.to_multiset();
/// std: String's Ord is the lexicographic byte order; as a relation on the views (uninterpreted - only its argument matters here)
pub uninterp spec fn str_ord(a: Seq<char>, b: Seq<char>) -> core::cmp::Ordering;
pub assume_specification [<String as Ord>::cmp] (a: &String, b: &String) -> (r: core::cmp::Ordering)
    ensures r == str_ord(a@, b@);
pub open spec fn enum_shared(e: RustEnum) -> RustEnumShared {
    match e { RustEnum::Unit(shared) => shared, RustEnum::Algebraic { tag_key, content_key, shared } => shared }
}

// ---------- C06 vocabulary
/// no two different items of one kind share a sort key (Ord restricted to the items is a total order)
pub open spec fn distinct_keys<T>() -> bool { total_ordering(|a: T, b: T| ord_le(a, b)) }
'''

ADD_ASSIGN = [
    ins(A.sig(), '''
        ensures
            /*C06-C03 concat*/ final(self).structs@ == old(self).structs@ + rhs.structs@,
            final(self).enums@ == old(self).enums@ + rhs.enums@,
            final(self).aliases@ == old(self).aliases@ + rhs.aliases@,
            final(self).consts@ == old(self).consts@ + rhs.consts@,
            /*C03 C08 errors kept*/ final(self).errors@ == old(self).errors@ + rhs.errors@,
            final(self).import_types@ == old(self).import_types@.union(rhs.import_types@),
            final(self).type_names@ == old(self).type_names@.union(rhs.type_names@),
            final(self).file_name == rhs.file_name, final(self).crate_name == rhs.crate_name, final(self).multi_file == rhs.multi_file,
    ''', cid='add_assign.contract'),
    rep(A.text('self.import_types.extend(rhs.import_types)'), 'outlined_extend_imports(&mut self.import_types, rhs.import_types)', tag='T3',
        cid='o_ext1', note='HashSet::extend is generic over IntoIterator; no specification possible without an iterator model'),
    rep(A.text('self.type_names.extend(rhs.type_names)'), 'outlined_extend_names(&mut self.type_names, rhs.type_names)', tag='T3', cid='o_ext2'),
]

PUSH = [
    ins(A.sig(), '''
        ensures
            /*C03 exactly the matching vector grows by exactly that item*/
            match rust_thing {
                RustItem::Struct(s) => final(self).structs@ == old(self).structs@.push(s) && final(self).enums@ == old(self).enums@
                    && final(self).aliases@ == old(self).aliases@ && final(self).consts@ == old(self).consts@,
                RustItem::Enum(e) => final(self).enums@ == old(self).enums@.push(e) && final(self).structs@ == old(self).structs@
                    && final(self).aliases@ == old(self).aliases@ && final(self).consts@ == old(self).consts@,
                RustItem::Alias(a) => final(self).aliases@ == old(self).aliases@.push(a) && final(self).structs@ == old(self).structs@
                    && final(self).enums@ == old(self).enums@ && final(self).consts@ == old(self).consts@,
                RustItem::Const(c) => final(self).consts@ == old(self).consts@.push(c) && final(self).structs@ == old(self).structs@
                    && final(self).enums@ == old(self).enums@ && final(self).aliases@ == old(self).aliases@,
            },
            final(self).errors@ == old(self).errors@,
            final(self).import_types == old(self).import_types,
            final(self).file_name == old(self).file_name, final(self).crate_name == old(self).crate_name, final(self).multi_file == old(self).multi_file,
    ''', cid='push.contract'),
]

IS_EMPTY = [
    ins(A.ret(), '(r: ', where='before'), ins(A.ret(), ')', where='after'),
    ins(A.sig(), '''
        ensures /*C03: a file whose only content is an error is NOT discarded*/
            r == (self.structs@.len() == 0 && self.enums@.len() == 0 && self.aliases@.len() == 0 && self.consts@.len() == 0 && self.errors@.len() == 0),
    ''', cid='is_empty.contract'),
]

COLLECT = [
    ins(A.sig(), '''
        ensures
            /*C03: pushed*/ match result {
                Ok(data) => (match data {
                    RustItem::Struct(s) => final(self).parsed_data.structs@ == old(self).parsed_data.structs@.push(s),
                    RustItem::Enum(e) => final(self).parsed_data.enums@ == old(self).parsed_data.enums@.push(e),
                    RustItem::Alias(a) => final(self).parsed_data.aliases@ == old(self).parsed_data.aliases@.push(a),
                    RustItem::Const(c) => final(self).parsed_data.consts@ == old(self).parsed_data.consts@.push(c),
                }) && final(self).parsed_data.errors@ == old(self).parsed_data.errors@,
                Err(_) => true,
            },
            /*C03 C08: a failed item is reported (recorded as an error of this file) rather than silently omitted*/ match result {
                Ok(_) => true,
                Err(error) =>
                    final(self).parsed_data.errors@.len() == old(self).parsed_data.errors@.len() + 1
                    && final(self).parsed_data.errors@.last().error == error
                    && final(self).parsed_data.errors@.drop_last() == old(self).parsed_data.errors@
                    && final(self).parsed_data.structs@ == old(self).parsed_data.structs@ && final(self).parsed_data.enums@ == old(self).parsed_data.enums@
                    && final(self).parsed_data.aliases@ == old(self).parsed_data.aliases@ && final(self).parsed_data.consts@ == old(self).parsed_data.consts@,
            },
    ''', cid='collect_result.contract'),
    rep(A.text('self.file_path.to_string_lossy().into_owned()'), 'outlined_file_name(&self.file_path)', tag='T3', cid='o_fname',
        note='Path::to_string_lossy: Cow<str>, no vstd specification'),
]

SORT_WRAP = ('''fn sort_block(parsed_data: &mut ParsedData)
    ensures
        /*C06 every kind is sorted and keeps exactly its items*/
        sorted_by(final(parsed_data).structs@, |a: RustStruct, b: RustStruct| ord_le(a, b)), final(parsed_data).structs@.to_multiset() == old(parsed_data).structs@.to_multiset(),
        sorted_by(final(parsed_data).enums@, |a: RustEnum, b: RustEnum| ord_le(a, b)), final(parsed_data).enums@.to_multiset() == old(parsed_data).enums@.to_multiset(),
        sorted_by(final(parsed_data).aliases@, |a: RustTypeAlias, b: RustTypeAlias| ord_le(a, b)), final(parsed_data).aliases@.to_multiset() == old(parsed_data).aliases@.to_multiset(),
        sorted_by(final(parsed_data).consts@, |a: RustConst, b: RustConst| ord_le(a, b)), final(parsed_data).consts@.to_multiset() == old(parsed_data).consts@.to_multiset(),
        /*C03 C08 errors untouched*/ final(parsed_data).errors@ == old(parsed_data).errors@,
{
''', '\n}\n')

EXT = ('#[verifier::external]\n', '\n')


def CMP(ty, key):
    """T2: the body of `impl Ord for <ty> :: cmp`, re-homed as an inherent method so that it can carry a contract: the sort key of
    every item kind is exactly the Rust name (`id.original`), compared as strings"""
    return [ins(A.ret(), '(r: ', where='before'), ins(A.ret(), ')', where='after'),
            rep(A.text('std::cmp::Ordering'), 'core::cmp::Ordering', tag='T2'),
            ins(A.sig(), '''
        ensures /*C06 sort key = the item's Rust name*/ r == str_ord(%s, %s),
    ''' % (key.replace('X', 'self'), key.replace('X', 'other')), cid='cmp_%s.contract' % ty)]


SHARED = [ins(A.ret(), '(r: ', where='before'), ins(A.ret(), ')', where='after'),
          ins(A.sig(), '''
        ensures *r == enum_shared(*self),
    ''', cid='shared.contract')]
RT = 'core/src/rust_types.rs'

UNIT = Unit(
    name='merge',
    props=['C06', 'C03', 'C07'],
    spec_files=['chars.rs', 'std_extra.rs'],
    pre_verus=PRE_VERUS,
    prelude=PRELUDE,
    items=[
        Item('struct_Id', RT, ['struct Id']),
        Item('struct_RustStruct', RT, ['struct RustStruct']),
        Item('struct_RustConst', RT, ['struct RustConst']),
        Item('struct_RustTypeAlias', RT, ['struct RustTypeAlias']),
        Item('enum_RustEnum', RT, ['enum RustEnum']),
        Item('struct_RustEnumShared', RT, ['struct RustEnumShared']),
        Item('enum_RustItem', RT, ['enum RustItem']),
        Item('RustEnum_shared', RT, ['impl RustEnum {', 'fn shared'], SHARED, wrap=('impl RustEnum {\n', '\n}\n')),
        Item('cmp_RustStruct', RT, ['impl Ord for RustStruct {', 'fn cmp'], CMP('RustStruct', 'X.id.original@'), wrap=('impl RustStruct { // T2\n', '\n}\n')),
        Item('cmp_RustConst', RT, ['impl Ord for RustConst {', 'fn cmp'], CMP('RustConst', 'X.id.original@'), wrap=('impl RustConst { // T2\n', '\n}\n')),
        Item('cmp_RustTypeAlias', RT, ['impl Ord for RustTypeAlias {', 'fn cmp'], CMP('RustTypeAlias', 'X.id.original@'), wrap=('impl RustTypeAlias { // T2\n', '\n}\n')),
        Item('cmp_RustEnum', RT, ['impl Ord for RustEnum {', 'fn cmp'], CMP('RustEnum', 'enum_shared(*X).id.original@'), wrap=('impl RustEnum { // T2\n', '\n}\n')),
        # the hand-written comparison impls: compiled (rustc needs them for sort / HashSet) but NOT under contract
        Item('impl_PartialEq_RustStruct', RT, ['impl PartialEq for RustStruct'], wrap=EXT),
        Item('impl_Eq_RustStruct', RT, ['impl Eq for RustStruct'], wrap=EXT),
        Item('impl_PartialOrd_RustStruct', RT, ['impl PartialOrd for RustStruct'], wrap=EXT),
        Item('impl_Ord_RustStruct', RT, ['impl Ord for RustStruct'], wrap=EXT),
        Item('impl_PartialEq_RustConst', RT, ['impl PartialEq for RustConst'], wrap=EXT),
        Item('impl_Eq_RustConst', RT, ['impl Eq for RustConst'], wrap=EXT),
        Item('impl_PartialOrd_RustConst', RT, ['impl PartialOrd for RustConst'], wrap=EXT),
        Item('impl_Ord_RustConst', RT, ['impl Ord for RustConst'], wrap=EXT),
        Item('impl_PartialEq_RustTypeAlias', RT, ['impl PartialEq for RustTypeAlias'], wrap=EXT),
        Item('impl_Eq_RustTypeAlias', RT, ['impl Eq for RustTypeAlias'], wrap=EXT),
        Item('impl_PartialOrd_RustTypeAlias', RT, ['impl PartialOrd for RustTypeAlias'], wrap=EXT),
        Item('impl_Ord_RustTypeAlias', RT, ['impl Ord for RustTypeAlias'], wrap=EXT),
        Item('impl_PartialEq_RustEnum', RT, ['impl PartialEq for RustEnum'], wrap=EXT),
        Item('impl_Eq_RustEnum', RT, ['impl Eq for RustEnum'], wrap=EXT),
        Item('impl_PartialOrd_RustEnum', RT, ['impl PartialOrd for RustEnum'], wrap=EXT),
        Item('impl_Ord_RustEnum', RT, ['impl Ord for RustEnum'], wrap=EXT),
        Item('struct_ImportedType', 'core/src/visitors.rs', ['struct ImportedType']),
        Item('struct_ErrorInfo', 'core/src/parser.rs', ['struct ErrorInfo']),
        Item('struct_ParsedData', 'core/src/parser.rs', ['struct ParsedData']),
        Item('add_assign', 'core/src/parser.rs', ['impl AddAssign<ParsedData> for ParsedData {', 'fn add_assign'], ADD_ASSIGN,
             wrap=('impl ParsedData { // T2: re-homed from `impl AddAssign<ParsedData> for ParsedData`\n', '\n}\n')),
        Item('push', 'core/src/parser.rs', ['impl ParsedData {', 'fn push'], PUSH, wrap=('impl ParsedData {\n', '\n}\n')),
        Item('is_empty', 'core/src/parser.rs', ['impl ParsedData {', 'fn is_empty'], IS_EMPTY, wrap=('impl ParsedData {\n', '\n}\n')),
        Item('struct_ParseContext', 'core/src/context.rs', ['struct ParseContext']),
        Item('struct_TypeShareVisitor', 'core/src/visitors.rs', ['struct TypeShareVisitor']),
        Item('collect_result', 'core/src/visitors.rs', ["impl<'a> TypeShareVisitor<'a> {", 'fn collect_result'], COLLECT,
             wrap=("impl<'a> TypeShareVisitor<'a> {\n", '\n}\n')),
        Item('sort_block', 'core/src/reconcile.rs', ['fn reconcile_aliases'], wrap=SORT_WRAP,
             block=(A.loop_after(4), A.text('parsed_data.import_types = import_types .into_iter()'))),
    ],
    outlines={
        'o_ext1': {'decl': '''fn outlined_extend_imports(dst: &mut HashSet<ImportedType>, src: HashSet<ImportedType>)
    ensures final(dst)@ == old(dst)@.union(src@)''', 'compile': False},
        'o_ext2': {'decl': '''fn outlined_extend_names(dst: &mut HashSet<String>, src: HashSet<String>)
    ensures final(dst)@ == old(dst)@.union(src@)''', 'compile': False},
        'o_fname': {'decl': 'fn outlined_file_name(file_path: &PathBuf) -> (r: String)', 'compile': False},
    },
    epilogue=r'''
#[verifier::external] impl PartialEq for ImportedType { fn eq(&self, o: &Self) -> bool { unimplemented!() } }
#[verifier::external] impl Eq for ImportedType {}
#[verifier::external] impl core::hash::Hash for ImportedType { fn hash<H: core::hash::Hasher>(&self, s: &mut H) { unimplemented!() } }

/// C06, one kind of item: whatever order the per-file results arrived in (a, b: two folds of the same per-file vectors,
/// hence the same multiset by the add_assign contract), the vector after the sort block is the same sequence -
/// provided no two different items share a sort key (otherwise: known finding kf-duplicate-names).
proof fn lemma_arrival_order_independent<T>(a: Seq<T>, b: Seq<T>, a2: Seq<T>, b2: Seq<T>)
    requires
        distinct_keys::<T>(),
        a.to_multiset() == b.to_multiset(),
        sorted_by(a2, |x: T, y: T| ord_le(x, y)), a2.to_multiset() == a.to_multiset(),
        sorted_by(b2, |x: T, y: T| ord_le(x, y)), b2.to_multiset() == b.to_multiset(),
    ensures a2 == b2
{
    lemma_sorted_unique(a2, b2, |x: T, y: T| ord_le(x, y));
}
/// concatenating two per-file vectors in either order gives the same multiset
proof fn lemma_concat_comm<T>(x: Seq<T>, y: Seq<T>)
    ensures (x + y).to_multiset() == (y + x).to_multiset()
{
    lemma_seq_union_to_multiset_commutative(x, y);
}
''',
    functions=['RustStruct::cmp', 'RustConst::cmp', 'RustTypeAlias::cmp', 'RustEnum::cmp', 'ParsedData::add_assign', 'ParsedData::push', 'ParsedData::is_empty', 'TypeShareVisitor::collect_result', 'RustEnum::shared', 'sort_block',
               'lemma_arrival_order_independent', 'lemma_concat_comm'],
    trusted=[
        'std: <[T]>::sort leaves the slice sorted w.r.t. Ord (as the uninterpreted relation ord_le) with the same multiset of elements',
        'std: HashSet::extend(other) is set union; vstd contracts of Vec::append/push/is_empty, HashSet::insert, String::clone',
        'the hand-written PartialEq/Eq/PartialOrd/Ord impls of RustStruct/RustEnum/RustTypeAlias/RustConst are compiled but external; the '
        'four `Ord::cmp` bodies are additionally extracted (same token range) as inherent methods and proved to compare exactly `id.original` '
        '(std: String::cmp as the uninterpreted relation str_ord); that `sort()` uses these impls, and ord_le == (cmp != Greater), is assumed',
        'outlined (T3): Path::to_string_lossy().into_owned() (file name recorded with an error; not part of the property)',
        'T7 stubs: RustField, RustType, RustConstExpr, DecoratorMap, RustEnumVariant, CrateName, ParseError are opaque',
    ],
    undecided=[
        'threads, the parallel directory walker and the channel (no thread support in Verus contracts for this code; Kani has none)',
        'hash-seed dependent picks outside the merge (used_imports fallback, find_type, TypeVar emission order in python.rs): iterator/closure or text code',
        'that the visitor reaches every annotated item and only those, and that is_skipped selects exactly the non-skipped members (syn walks)',
        'that each back end writes one definition per item (text emission)',
    ],
)


# ------------------------------------------------------------------------------------ witness search / replay
def native(workdir):
    """bounded search on the REAL crates (replay binary with path dependencies on /repo/core): 6 distributions of a 10-item
    corpus over 3 files x all 6 arrival orders; output bytes, definition counts and recorded errors compared."""
    import os
    import kf_replay
    exe = kf_replay.replay_bin()
    if not exe:
        return None, 'replay binary does not build: ' + kf_replay._bin.get('err', '')
    w = os.path.join(workdir, 'native_merge.sh')
    with open(w, 'w') as f:
        f.write('#!/bin/sh\nsub=$1; shift\nexec %s merge-$sub "$@"\n' % exe)
    os.chmod(w, 0o755)
    return w, ''


def replay_args(inp):
    return [str(inp['distribution']), ','.join(str(x) for x in inp['order'])]
