"""U-doc_kotlin: Kotlin::write_comment / write_comments (see doccommon)."""
import doccommon as D

UNIT = D.make_unit('doc_kotlin', 'Kotlin', 'core/src/language/kotlin.rs', 'impl Kotlin {')


def native(workdir):
    import docsearch
    return docsearch.native(workdir)


def replay_args(inp):
    import docsearch
    return docsearch.replay_args(inp)
