"""U-fmt_<lang>: the type-expression translators of one back end, verbatim: the Language trait's default format_type /
format_simple_type / format_generic_type / format_generic_parameters (core/src/language/mod.rs) where the back end does not
override them, and the back end's own type_map / format_special_type (and overrides), re-homed (T2) as inherent methods of the
back end's struct.  Serves C05 (kernel): for every type expression of the IR - any depth, any generic parameters in scope, any
type_mappings table, any prefix - what format_type answers IS a translation in the sense of spec/typexpr.rs (written from the
property), or a refusal where the property admits one.  C07: no panic (TypeScript's `panic!` for 64-bit integers is unreachable
for parser output), recursion terminates."""
from rsx import A, ins, rep, drop
from vunit import Item, Unit

RT = 'core/src/rust_types.rs'
MOD = 'core/src/language/mod.rs'

PRE_VERUS = r'''
use std::collections::{HashMap, HashSet};
use vstd::std_specs::hash::*;
use vstd::std_specs::iter::IteratorSpec;
'''

PRELUDE_COMMON = r'''
pub mod strlemmas {
    use vstd::prelude::*;
    /// the empty string literal contributes nothing to a concatenation
    pub broadcast proof fn lemma_empty_literal_left(x: Seq<char>)
        ensures #[trigger] (""@ + x) == x
    { reveal_strlit(""); assert(""@ + x =~= x); }
}
broadcast use {vstd::std_specs::hash::group_hash_axioms, strlemmas::lemma_empty_literal_left};

/// std: AsRef<T> for Box<T> borrows the boxed value
pub assume_specification<T: ?Sized, A: std::alloc::Allocator> [<std::boxed::Box<T, A> as std::convert::AsRef<T>>::as_ref] (b: &std::boxed::Box<T, A>) -> (r: &T)
    ensures r == &**b;
/// std: ToOwned for a Clone type clones
pub assume_specification<T: Clone> [<T as std::borrow::ToOwned>::to_owned] (x: &T) -> (r: T)
    ensures r == *x;

/// T16: `special_ty.to_string()` (Display for SpecialRustType, a format!-built spelling): the lookup key, uninterpreted
#[verifier::external_body]
fn special_to_string(s: &SpecialRustType) -> (r: String)
    ensures r == special_key(*s)
{ unimplemented!() }
/// itertools `.join(sep)` / `[String]::join(sep)` on the collected arguments
#[verifier::external_body]
fn join_strings(v: Vec<String>, sep: &str) -> (r: String)
    ensures r@ == join(strs(v@), sep@)
{ unimplemented!() }

pub proof fn lemma_strs_push(v: Seq<String>, x: String)
    ensures strs(v.push(x)) =~= strs(v).push(x@)
{}
'''

# ------------------------------------------------------------------------------------------------ shared default methods (mod.rs)
def contract_format_type():
    return [
        ins(A.ret(), '(r: ', where='before'), ins(A.ret(), ')', where='after'),
        ins(A.sig(), '''
        requires obeys_key_model::<String>(), dom(*ty),
        ensures /*C05*/ answers(old(self).cfg(), generic_types@, *ty, r), final(self).cfg() == old(self).cfg(),
        decreases *ty, 1int
''', cid='format_type.contract'),
    ]


def simple_contract(gt):
    return [
        ins(A.ret(), '(r: ', where='before'), ins(A.ret(), ')', where='after'),
        ins(A.sig(), '''
        requires obeys_key_model::<String>(),
        ensures /*C05: a user type keeps its (mapped, else prefixed) name; a generic parameter is never prefixed*/
            r is Ok, r->Ok_0@ == simple_name(old(self).cfg(), %s@, *base), final(self).cfg() == old(self).cfg(),
''' % gt, cid='format_simple_type.contract'),
    ]


DEFAULT_SIMPLE = simple_contract('_generic_types')

GENERIC_CONTRACT = '''
        requires obeys_key_model::<String>(), forall|k: int| 0 <= k < parameters@.len() ==> dom(#[trigger] parameters@[k]),
        ensures /*C05: mapped, else the (prefixed) name followed by ALL translated arguments in order*/
            match r { Ok(s) => generic_ok(old(self).cfg(), generic_types@, *base, parameters@, s@),
                      Err(_) => generic_may_fail(old(self).cfg(), generic_types@, *base, parameters@) },
            final(self).cfg() == old(self).cfg(),
        decreases parameters@, 0int
'''
# T14b: `xs.iter().map(|p| F(p)).collect::<Result<Vec<_>, _>>()` followed by `?` is the loop that pushes F(p) and returns the first Err
# (std: FromIterator for Result short-circuits at the first Err); closures capturing `&mut self` are outside Verus
COLLECT_HEAD = '''let ghost c0 = self.cfg();
            let mut acc: Vec<String> = Vec::new();
            for p in it: parameters.iter()
                invariant obeys_key_model::<String>(), self.cfg() == c0, c0 == old(self).cfg(), mapped(c0, *base) is None,
                    forall|k: int| 0 <= k < parameters@.len() ==> dom(#[trigger] parameters@[k]),
                    acc@.len() == it.index@,
                    /*C05*/ forall|k: int| 0 <= k < it.index@ ==> tx_ok(c0, generic_types@, #[trigger] parameters@[k], acc@[k]@),
            {
                proof { assert(parameters@[it.index@] == *p); assert(decreases_to!(parameters@ => parameters@[it.index@])); }
                match ('''
COLLECT_TAIL = ''') {
                    Ok(x) => { acc.push(x); }
                    Err(e) => { proof { assert(tx_may_fail(c0, generic_types@, parameters@[it.index@])); } return Err(e); }
                }
            }
            proof {
                let ps = strs(acc@);
                assert(ps.len() == parameters@.len());
                /*C05*/ assert forall|k: int| 0 <= k < parameters@.len() implies tx_ok(c0, generic_types@, #[trigger] parameters@[k], ps[k]) by {}
            }
            let parameters = acc;'''


def default_generic():
    return [
        ins(A.ret(), '(r: ', where='before'), ins(A.ret(), ')', where='after'),
        ins(A.sig(), GENERIC_CONTRACT, cid='format_generic_type.contract'),
        # the closure body F(p) stays verbatim between the two replaced frames
        rep(A.span('let parameters: Result<Vec<String>, RustTypeFormatError> = parameters', '.map(|p|'), COLLECT_HEAD, tag='T14b',
            note='iter().map(|p| F).collect::<Result<Vec<_>,_>>()? is the loop pushing F, returning the first Err (std FromIterator for Result); F stays verbatim'),
        rep(A.span(') .collect();', 'let parameters = parameters?;'), COLLECT_TAIL, tag='T14b'),
        # bool::then(|| E).unwrap_or_default()  ->  if b { E } else { String::new() }   (E itself stays verbatim)
        rep(A.span('(!parameters.is_empty())', '.then(||'), '(if !parameters.is_empty() {', tag='T14b',
            note='bool::then(f).unwrap_or_default() is `if b { f() } else { String::default() }` (std)'),
        rep(A.text(') .unwrap_or_default()'), '} else { String::new() })', tag='T14b'),
    ]


def generic_parameters(open_, close, join_text='parameters.into_iter().join('):
    """the separator literal stays in the code: only the receiver of the join is rewritten"""
    return [
        ins(A.ret(), '(r: ', where='before'), ins(A.ret(), ')', where='after'),
        ins(A.sig(), '''
        ensures r@ == "%s"@ + join(strs(parameters@), ", "@) + "%s"@, final(self).cfg() == old(self).cfg(),
''' % (open_, close), cid='format_generic_parameters.contract'),
        rep(A.text(join_text), 'join_strings(parameters, ', tag='T3', note='itertools / slice join: the strings separated by the given separator'),
    ]


TYPE_MAP = [
    ins(A.ret(), '(r: ', where='before'), ins(A.ret(), ')', where='after'),
    ins(A.sig(), '''
        ensures r@ == old(self).cfg().map, final(self).cfg() == old(self).cfg(), *final(self) == *old(self),
''', cid='type_map.contract'),
]

SPECIAL_CONTRACT = '''
        requires obeys_key_model::<String>(), dom_special(*special_ty),
        ensures /*C05*/ answers_special(old(self).cfg(), generic_types@, *special_ty, r), final(self).cfg() == old(self).cfg(),
        decreases *special_ty, 0int
'''


def _unused_common_items(struct_name):
    w = ('impl %s {\n' % struct_name, '\n}\n')
    return w, [
        Item('enum_RustType', RT, ['enum RustType']),
        Item('enum_SpecialRustType', RT, ['enum SpecialRustType']),
        Item('enum_RustTypeFormatError', RT, ['enum RustTypeFormatError']),
    ]


TRUSTED_COMMON = [
    'T14: a format!("a{}b", x) site is verified as a call whose contract (r == "a" + x + "b") is GENERATED from the literal in the current source; '
    'std::fmt semantics of `{}` for str / String / &T / usize assumed (spec/txt.rs)',
    'T14b: iter().map(F).collect::<Result<Vec<_>,_>>()? verified as the loop that pushes F(p) and returns the first Err; '
    'bool::then(f).unwrap_or_default() verified as if/else (std semantics)',
    'T15: "lit".into() / .to_string() and x.into() for x: &String verified as String construction with the same text',
    'T16: the type_mappings key of a built-in / container type (Display for SpecialRustType) is an uninterpreted function of the type',
    'assumed: String satisfies vstd\'s hash-table key model (precondition obeys_key_model::<String>()); vstd HashMap / Vec / slice-iterator models; '
    'Box::as_ref, ToOwned::to_owned, <[T]>::contains, itertools join as documented',
    'domain: type expressions without u64 / i64 / usize / isize (the parser rejects them: C08\'s domain, not decided here)',
]
UNDECIDED_COMMON = [
    'that references and smart pointers disappear and paths are cut to their last segment: TryFrom<&syn::Type> (syn, outside both verifiers) - bounded stand-in type-search',
    'where the translated type expression is placed in the generated text (write_* methods: text emission)',
    'whitespace inside a translated type expression is fixed by the specification (", " between arguments): a spacing-only change is reported although harmless',
]


def make_unit(name, struct, src, lang, cfg_body, prelude_extra, special_edits, overrides=None, gen_brackets=('<', '>'),
              gen_params_override=None, extra_items=(), trusted_extra=(), undecided_extra=(), special_auto=('fmt', 'strlit'), x12=None):
    """overrides: {method: (edits, auto)} for methods the back end defines itself (taken from `impl Language for X`);
    every other method of the four is the trait's default (mod.rs)."""
    overrides = overrides or {}
    w = ('impl %s {\n' % struct, '\n}\n')
    impl = 'impl Language for %s {' % struct
    prelude = PRELUDE_COMMON + prelude_extra + '''
impl %s {
    pub open spec fn cfg(&self) -> TCfg { %s }
}
''' % (struct, cfg_body)
    items = [
        Item('enum_RustType', RT, ['enum RustType']),
        Item('enum_SpecialRustType', RT, ['enum SpecialRustType']),
        Item('enum_RustTypeFormatError', RT, ['enum RustTypeFormatError']),
        Item('struct_' + struct, src, ['struct ' + struct]),
        Item('type_map', src, [impl, 'fn type_map'], TYPE_MAP, wrap=w),
        Item('format_type', MOD, ['trait Language', 'fn format_type'], contract_format_type(), wrap=w),
    ]
    defaults = {
        'format_simple_type': (DEFAULT_SIMPLE, INTO_RULES),
        'format_generic_type': (default_generic(), ('fmt',) + INTO_RULES),
        'format_generic_parameters': (generic_parameters('<', '>'), ('fmt',)),
    }
    taken = {}
    for m in ('format_simple_type', 'format_generic_type', 'format_generic_parameters'):
        if m in overrides:
            edits, auto = overrides[m]
            items.append(Item(m, src, [impl, 'fn ' + m], edits, wrap=w, auto=tuple(auto) + INTO_RULES))
            taken[m] = 'override in ' + src
        else:
            edits, auto = defaults[m]
            items.append(Item(m, MOD, ['trait Language', 'fn ' + m], edits, wrap=w, auto=auto))
            taken[m] = 'trait default'
    items.append(Item('format_special_type', src, [impl, 'fn format_special_type'], special_edits, wrap=w, auto=tuple(special_auto) + (KEY_RULE,)))
    items += list(extra_items)
    if x12:
        apply_x12(items, x12)
    u = Unit(
        name=name, props=['C05', 'C07'] + (['C12'] if x12 else []), pre_verus=PRE_VERUS, spec_files=['std_slices.rs', 'seqjoin.rs', 'typexpr.rs', 'txt.rs'], prelude=prelude, items=items,
        functions=['%s::%s' % (struct, f) for f in ('format_type', 'format_simple_type', 'format_generic_type', 'format_generic_parameters',
                                                    'format_special_type', 'type_map')],
        trusted=TRUSTED_COMMON + [
            'T2: trait default methods are verified as inherent methods of %s; which of format_simple_type / format_generic_type / '
            'format_generic_parameters the back end overrides is fixed in the unit (%s) and an override appearing or disappearing makes the '
            'extraction fail (undecided)' % (struct, ', '.join('%s: %s' % kv for kv in sorted(taken.items())))] + list(trusted_extra),
        undecided=UNDECIDED_COMMON + list(undecided_extra),
    )
    u.forbid = FORBID
    u.allowed_calls = ALLOWED_CALLS
    u.crate_attrs = '#![feature(allocator_api)]   // only to NAME the allocator parameter of Box in an assumed specification'
    u.overridden = sorted(overrides)
    u.struct, u.src = struct, src
    return u


SPECIAL_HEAD = [
    ins(A.ret(), '(r: ', where='before'), ins(A.ret(), ')', where='after'),
    ins(A.sig(), SPECIAL_CONTRACT, cid='format_special_type.contract'),
]


INTO_RULES = ('strlit',)
KEY_RULE = ('tok', 'special_ty.to_string()', 'special_to_string(special_ty)', 'T16')


def special_key_reps(n):
    return []


def _old_special_key_reps(n):
    """T16 for each of the n occurrences of `special_ty.to_string()`"""
    if n == 1:
        return [rep(A.text('special_ty.to_string()'), 'special_to_string(special_ty)', tag='T16')]
    return [rep(A.text('special_ty.to_string()', nth=k + 1), 'special_to_string(special_ty)', tag='T16') for k in range(n)]


# constructs Verus accepts without giving their result any meaning: if one is still present in a function under contract after the
# rewriting rules, a failed proof would say nothing about the code => the unit answers "undecided" instead of running
FORBID = ['format!', 'write!', 'writeln!', '.into()', '.to_string()', 'String::from(']

# std / vstd-specified calls the translators may make besides the functions defined in the unit (closed-world check of vunit.build)
ALLOWED_CALLS = {'get', 'contains', 'to_owned', 'clone', 'as_ref', 'push', 'push_str', 'is_empty', 'iter', 'new', 'as_slice', 'store', 'len'}


def apply_x12(items, x):
    """C12 clauses of a back end, added to the contracts of its formatting functions: x['frame'] - the helper bookkeeping only grows (every
    function); x['ty'] / x['gen'] / x['special'] - helpers recorded when the translation of a type / an argument list / a built-in type
    reaches them; x['inv'] - the same for the arguments translated so far (loop invariant of format_generic_type)."""
    import copy
    FRAME = 'final(self).cfg() == old(self).cfg(),'
    per = {'format_type.contract': x.get('ty', ''), 'format_generic_type.contract': x.get('gen', ''), 'format_special_type.contract': x.get('special', ''),
           'format_simple_type.contract': '', 'format_generic_parameters.contract': '', 'type_map.contract': None}
    for it in items:
        new = []
        for e in it.edits:
            e = copy.copy(e)
            if e.cid in per and per[e.cid] is not None and FRAME in e.text:
                e.text = e.text.replace(FRAME, FRAME + '\n            ' + x['frame'] + ('\n            ' + per[e.cid] if per[e.cid] else ''), 1)
            if e.kind == 'rep' and 'acc@.len() == it.index@,' in e.text and x.get('inv'):
                e.text = e.text.replace('acc@.len() == it.index@,', 'acc@.len() == it.index@, ' + x['inv'], 1)
            new.append(e)
        it.edits = new
