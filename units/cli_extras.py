"""bounded stand-in: scenario 'extras' of units/clirun.py on the real `typeshare` binary built from /repo"""
import json
import os

import clirun


def native(workdir):
    w = os.path.join(workdir, 'native_cli_extras.sh')
    with open(w, 'w') as f:
        f.write('#!/bin/sh\nexec python3 %s extras "$@"\n' % os.path.join(clirun.HERE, 'clirun.py'))
    os.chmod(w, 0o755)
    return w, ''


native.__doc__ = clirun.SCENARIOS['extras'].__doc__


def replay_args(inp):
    return [json.dumps(inp)]


def replay_known(kf, workdir):
    """does the recorded finding still reproduce on the real binary?"""
    import subprocess
    import sys
    pr = subprocess.run([sys.executable, os.path.join(clirun.HERE, 'clirun.py'), 'extras', 'check', json.dumps(kf['witness']['payload'])],
                        capture_output=True, text=True, timeout=600)
    return 'WITNESS ' in pr.stdout
