"""U-doc_go: the free functions write_comment / write_comments of go.rs (see doccommon)."""
import doccommon as D

UNIT = D.make_unit('doc_go', 'Go', 'core/src/language/go.rs', None, free_fns=True)


def native(workdir):
    import docsearch
    return docsearch.native(workdir)


def replay_args(inp):
    import docsearch
    return docsearch.replay_args(inp)
