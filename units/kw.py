"""U-kw: the two keyword-escaping helpers, verbatim: core/src/language/swift.rs::swift_keyword_aware_rename and
core/src/language/python.rs::python_property_aware_rename.  Serves C10 (kernel, one clause): a name that collides with a keyword of the
back end's table is written in the escaped form the back end promises (Swift: in backquotes; Python: with a trailing underscore),
every other name is written as it is (Swift) / in snake case (Python).  C07."""
from rsx import A, ins, rep, drop
from vunit import Item, Unit
import fmtcommon as F

PRELUDE = r'''
// ---------- T7: Cow<'a, str> as an opaque text value (whether it is borrowed or owned is not observable in what is written)
#[verifier::external_body] pub struct Cow { _p: u8 }
impl View for Cow { type V = Seq<char>; uninterp spec fn view(&self) -> Seq<char>; }
impl Txt for Cow { open spec fn tv(&self) -> Seq<char> { self@ } open spec fn dv(&self) -> Seq<char> { debug_str(self@) } }
pub trait IntoCow: Sized { spec fn text(self) -> Seq<char>; }
impl IntoCow for String { open spec fn text(self) -> Seq<char> { self@ } }
impl<'a> IntoCow for &'a String { open spec fn text(self) -> Seq<char> { self@ } }
impl<'a> IntoCow for &'a str { open spec fn text(self) -> Seq<char> { self@ } }
/// `name.into()` with T: Into<Cow<str>>
#[verifier::external_body]
fn into_cow<T: IntoCow>(name: T) -> (r: Cow) ensures r@ == name.text() { unimplemented!() }
/// `Cow::Owned(s)`
#[verifier::external_body]
fn cow_owned(s: String) -> (r: Cow) ensures r@ == s@ { unimplemented!() }
/// the back end's table SWIFT_KEYWORDS (a const slice of string literals: outside what Verus accepts as a const) - "where the backend promises to"
pub uninterp spec fn swift_listed(name: Seq<char>) -> bool;
/// outlined (T3): `SWIFT_KEYWORDS.contains(&name.as_ref())`
#[verifier::external_body]
fn swift_keywords_contain(name: &Cow) -> (r: bool) ensures r == swift_listed(name@) { unimplemented!() }

/// convert_case: `name.to_case(Case::Snake)` (external crate; a function of the name)
pub uninterp spec fn snake_of(name: Seq<char>) -> Seq<char>;
#[verifier::external_body]
fn to_snake(name: &str) -> (r: String) ensures r@ == snake_of(name@) { unimplemented!() }
/// the back end's table of Python keywords (a lazily built HashSet<String>)
pub uninterp spec fn python_listed(name: Seq<char>) -> bool;
/// outlined (T3): `get_python_keywords().contains(&snake_name)`
#[verifier::external_body]
fn python_keywords_contain(name: &String) -> (r: bool) ensures r == python_listed(name@) { unimplemented!() }
'''

SWIFT = [
    rep(A.span("fn swift_keyword_aware_rename<'a, T>(name: T) -> Cow<'a, str>", "T: Into<Cow<'a, str>>,"),
        '''fn swift_keyword_aware_rename<T: IntoCow>(name: T) -> (r: Cow)
    ensures
        /*C10: a name listed as a Swift keyword is written in backquotes, any other name unchanged*/
        swift_listed(name.text()) ==> r@ == "`"@ + name.text() + "`"@,
        !swift_listed(name.text()) ==> r@ == name.text(),
''', tag='T7', note='the generic signature over Into<Cow<str>> with the stand-in types'),
    rep(A.text('SWIFT_KEYWORDS.contains(&name.as_ref())'), 'swift_keywords_contain(&name)', tag='T3'),
    ins(A.text('Cow::Owned('), 'proof { fmt_swift_keyword_aware_rename_0_p0_chars(); fmt_swift_keyword_aware_rename_0_p1_chars(); reveal_strlit("`"); }\n        ', where='before'),
]

PY = [
    ins(A.ret(), '(r: ', where='before'), ins(A.ret(), ')', where='after'),
    ins(A.sig(), '''
    ensures
        /*C10: a name whose snake-case form is listed as a Python keyword is written with a trailing underscore, any other name in snake case*/
        python_listed(snake_of(name@)) ==> r@ == name@ + "_"@,
        !python_listed(snake_of(name@)) ==> r@ == snake_of(name@),
''', cid='python_property_aware_rename.contract'),
    rep(A.text('name.to_case(Case::Snake)'), 'to_snake(name)', tag='T3'),
    rep(A.text('get_python_keywords().contains(&snake_name)'), 'python_keywords_contain(&snake_name)', tag='T3'),
    ins(A.text('true =>'), ' { proof { fmt_python_property_aware_rename_0_p0_chars(); fmt_python_property_aware_rename_0_p1_chars(); reveal_strlit("_"); }', where='after'),
    ins(A.next_tok('format!("{}_", name)', ','), ' }', where='before'),
]

UNIT = Unit(
    name='kw', props=['C10', 'C07'], pre_verus='', spec_files=['txt.rs'], prelude=PRELUDE,
    items=[
        Item('swift_keyword_aware_rename', 'core/src/language/swift.rs', ['fn swift_keyword_aware_rename'], SWIFT,
             auto=('fmt', ('tok', 'name.into()', 'into_cow(name)', 'T7'), ('tok', 'Cow::Owned(', 'cow_owned(', 'T7'))),
        Item('python_property_aware_rename', 'core/src/language/python.rs', ['fn python_property_aware_rename'], PY, auto=('fmt',)),
    ],
    functions=['swift_keyword_aware_rename', 'python_property_aware_rename'],
    trusted=[
        'T7: Cow<str> as an opaque text value; Into<Cow<str>> for String / &String / &str keeps the text',
        'the keyword tables (SWIFT_KEYWORDS, get_python_keywords) are uninterpreted predicates: the property speaks of what the back end promises to escape',
        'convert_case::to_case(Case::Snake) is an uninterpreted function of the name',
        'T14: format! through contracts generated from the literals',
    ],
    undecided=[
        'that every name written into a declaration position goes through these helpers, and that the escaped form is accepted by the target language',
        'whole-file syntax (declaration grammar, delimiters, literals) - bounded stand-in cli_wellformed',
    ],
)
UNIT.forbid = F.FORBID
UNIT.allowed_calls = set()


def native(workdir):
    import cli_wellformed
    return cli_wellformed.native(workdir)


def replay_args(inp):
    import cli_wellformed
    return cli_wellformed.replay_args(inp)
