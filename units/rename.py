"""U-rename: core/src/rename.rs (trait RenameExt + impl RenameExt for String, six methods) and core/src/parser.rs
(rename_all_to_case, get_ident) against serde_derive's algorithm as a Seq<char> specification (spec/serde_case.rs).
Serves C16 (agreement with serde outside the listed known-finding classes, all strings, no length bound) and
C07 (none of these functions can panic, all loops terminate)."""
from rsx import A, ins, rep, drop
from vunit import Item, Unit

PRE_VERUS = r'''
// T7: opaque stand-ins for types of crates Verus cannot load
pub mod proc_macro2 { use vstd::prelude::*; verus! { #[verifier::external_body] pub struct Ident { _p: u8 } } }
pub mod syn { use vstd::prelude::*; verus! { #[verifier::external_body] pub struct Attribute { _p: u8 } } }
'''

PRELUDE = r'''
// ---------- typeshare-side vocabulary and the known-finding classes of C16 (see known_findings.json)
/// "all-uppercase" in typeshare's sense: the identifier contains no ASCII lowercase letter
pub open spec fn allup(s: Seq<char>) -> bool { ascii_up(s) == s }
pub open spec fn has_upper(s: Seq<char>) -> bool { exists|i: int| 0 <= i < s.len() && unicode_is_upper(#[trigger] s[i]) }
pub open spec fn has_us(s: Seq<char>) -> bool { exists|i: int| 0 <= i < s.len() && (#[trigger] s[i]) == '_' }
pub open spec fn is_ascii_str(s: Seq<char>) -> bool { forall|i: int| 0 <= i < s.len() ==> ((#[trigger] s[i]) as u32) < 128 }

/// Unicode facts restricted to ASCII (std documentation of char::is_uppercase / str::to_lowercase / to_uppercase)
#[verifier::external_body]
pub proof fn axiom_unicode_ascii_upper(c: char)
    ensures (c as u32) < 128 ==> (unicode_is_upper(c) == is_ascii_upper(c)) {}
#[verifier::external_body]
pub proof fn axiom_unicode_ascii_case(s: Seq<char>)
    ensures is_ascii_str(s) ==> unicode_lower(s) == ascii_low(s) && unicode_upper(s) == ascii_up(s) {}

/// KNOWN-FINDING classes: field position (serde's apply_to_field is the oracle)
pub open spec fn kf_field(rule: Seq<char>, s: Seq<char>) -> bool {
    if rule == R_LOWER() { unicode_lower(s) != s }                         // kf-field-lowercase
    else if rule == R_UPPER() { unicode_upper(s) != ascii_up(s) }          // kf-nonascii-uppercase
    else if rule == R_PASCAL() || rule == R_CAMEL() { allup(s) }           // kf-allupper
    else if rule == R_SNAKE() || rule == R_SSNAKE() || rule == R_KEBAB() || rule == R_SKEBAB() { has_upper(s) }  // kf-field-uppercase-letter
    else { false }
}
/// KNOWN-FINDING classes: variant position (serde's apply_to_variant is the oracle)
pub open spec fn kf_variant(rule: Seq<char>, s: Seq<char>) -> bool {
    if rule == R_LOWER() { unicode_lower(s) != ascii_low(s) }              // kf-nonascii-lowercase
    else if rule == R_UPPER() { unicode_upper(s) != ascii_up(s) }          // kf-nonascii-uppercase
    else if rule == R_PASCAL() { allup(s) || has_us(s) || (s.len() > 0 && is_ascii_lower(s[0])) }  // kf-allupper, kf-variant-underscore, kf-variant-lower-initial
    else if rule == R_CAMEL() { allup(s) || has_us(s) }
    else if rule == R_SNAKE() || rule == R_SSNAKE() || rule == R_KEBAB() || rule == R_SKEBAB() { allup(s) }
    else { false }
}

// ---------- lemmas
proof fn lemma_dash_up_commute(x: Seq<char>)
    ensures ascii_up(dash(x)) == dash(ascii_up(x))
{
    assert(ascii_up(dash(x)) =~= dash(ascii_up(x)));
}

/// without '_' serde's PascalCase only touches the first char
proof fn lemma_sd_pascal_no_us(s: Seq<char>, cap: bool)
    requires !has_us(s)
    ensures sd_pascal(s, cap) == (if cap && s.len() > 0 { seq![up(s[0])] + s.drop_first() } else { s })
    decreases s.len()
{
    if s.len() == 0 {
    } else {
        assert(s[0] != '_');
        let t = s.drop_first();
        assert(!has_us(t)) by {
            if has_us(t) { let i = choose|i: int| 0 <= i < t.len() && t[i] == '_'; assert(s[i + 1] == '_'); }
        }
        lemma_sd_pascal_no_us(t, false);
        if !cap { assert(seq![s[0]] + t =~= s); }
    }
}

proof fn lemma_low_up(c: char) ensures low(up(c)) == low(c) {}

/// no Unicode-uppercase char => ASCII lowercasing is the identity
proof fn lemma_no_upper_low_id(s: Seq<char>, i: int)
    requires !has_upper(s), 0 <= i < s.len()
    ensures low(s[i]) == s[i], !unicode_is_upper(s[i])
{
    axiom_unicode_ascii_upper(s[i]);
}

/// distinctness of the eight rule names (string literals are opaque to the solver until revealed)
proof fn lemma_rule_names()
    ensures
        R_LOWER() != R_UPPER(), R_LOWER() != R_PASCAL(), R_LOWER() != R_CAMEL(), R_LOWER() != R_SNAKE(), R_LOWER() != R_SSNAKE(), R_LOWER() != R_KEBAB(), R_LOWER() != R_SKEBAB(),
        R_UPPER() != R_PASCAL(), R_UPPER() != R_CAMEL(), R_UPPER() != R_SNAKE(), R_UPPER() != R_SSNAKE(), R_UPPER() != R_KEBAB(), R_UPPER() != R_SKEBAB(),
        R_PASCAL() != R_CAMEL(), R_PASCAL() != R_SNAKE(), R_PASCAL() != R_SSNAKE(), R_PASCAL() != R_KEBAB(), R_PASCAL() != R_SKEBAB(),
        R_CAMEL() != R_SNAKE(), R_CAMEL() != R_SSNAKE(), R_CAMEL() != R_KEBAB(), R_CAMEL() != R_SKEBAB(),
        R_SNAKE() != R_SSNAKE(), R_SNAKE() != R_KEBAB(), R_SNAKE() != R_SKEBAB(),
        R_SSNAKE() != R_KEBAB(), R_SSNAKE() != R_SKEBAB(),
        R_KEBAB() != R_SKEBAB(),
{
    reveal_strlit("lowercase"); reveal_strlit("UPPERCASE"); reveal_strlit("PascalCase"); reveal_strlit("camelCase");
    reveal_strlit("snake_case"); reveal_strlit("SCREAMING_SNAKE_CASE"); reveal_strlit("kebab-case"); reveal_strlit("SCREAMING-KEBAB-CASE");
    assert(R_LOWER()[0] == 'l' && R_UPPER()[0] == 'U' && R_PASCAL()[0] == 'P' && R_CAMEL()[0] == 'c' && R_SNAKE()[0] == 's'
        && R_SSNAKE()[0] == 'S' && R_KEBAB()[0] == 'k' && R_SKEBAB()[0] == 'S');
    assert(R_SSNAKE()[9] == '_' && R_SKEBAB()[9] == '-');
}

// ---------- get_ident: what the syn-facing helpers return is uninterpreted (T7)
pub uninterp spec fn ident_text(id: &proc_macro2::Ident) -> Seq<char>;
pub uninterp spec fn strip_raw(s: Seq<char>) -> Seq<char>;
pub uninterp spec fn attrs_serde_rename(attrs: Seq<syn::Attribute>) -> Option<Seq<char>>;
/// stand-in for parser.rs::serde_rename (a syn walk): a pure function of the attribute list
#[verifier::external_body]
fn serde_rename(attrs: &[syn::Attribute]) -> (r: Option<String>)
    ensures match r { Some(s) => attrs_serde_rename(attrs@) == Some(s@), None => attrs_serde_rename(attrs@) is None }
{ unimplemented!() }
/// the identifier typeshare starts from: "???" without an ident, else the ident with the raw prefix removed
pub open spec fn original_of(ident: Option<&proc_macro2::Ident>) -> Seq<char> {
    match ident { None => "???"@, Some(id) => strip_raw(ident_text(id)) }
}
/// C16 / C01 at the IR level: the name typeshare computes for `original` under an optional container rule
pub open spec fn renamed_ok(original: Seq<char>, case: Option<String>, r: Seq<char>) -> bool {
    match case {
        None => r == original,
        Some(v) => (!known_rule(v@) ==> r == original)
            && (!kf_field(v@, original) ==> r == serde_field(v@, original))
            && (!kf_variant(v@, original) ==> r == serde_variant(v@, original)),
    }
}
'''

IMPL_EDITS = [
    # ================= to_camel_case (repaired by the `fix:` commit; see known_findings.json)
    ins(A.ret(fn='to_camel_case'), '(camel: ', where='before'), ins(A.ret(fn='to_camel_case'), ')', where='after'),
    ins(A.sig(fn='to_camel_case'), """
        ensures /*C16 field camelCase*/ !allup(self@) ==> camel@ == lower_first(sd_pascal(self@, true)),
    """, cid='to_camel_case.contract'),
    ins(A.text('for ch in', nth=1), ' it:'),
    ins(A.loop(0, fn='to_camel_case'), """
            invariant
                first == (it.index@ == 0),
                it.index@ == 0 ==> camel@.len() == 0,
                it.index@ > 0 ==> camel@ == seq![low(pascal@[0])] + pascal@.subrange(1, it.index@),
        """, cid='to_camel_case.invariant'),
    ins(A.text('camel.push(ch.to_ascii_lowercase());'), """
                proof { assert(camel@ =~= seq![low(pascal@[0])] + pascal@.subrange(1, 1)); }""", where='after'),
    ins(A.text('camel.push(ch);'), """
                proof { assert(camel@ =~= seq![low(pascal@[0])] + pascal@.subrange(1, it.index@ + 1)); }""", where='after'),
    ins(A.loop_after(0, fn='to_camel_case'), """
        proof {
            if pascal@.len() > 0 { assert(pascal@.subrange(1, pascal@.len() as int) =~= pascal@.drop_first()); }
            assert(camel@ =~= lower_first(pascal@));
        }"""),
    # ================= to_pascal_case
    ins(A.ret(fn='to_pascal_case'), '(pascal: ', where='before'), ins(A.ret(fn='to_pascal_case'), ')', where='after'),
    ins(A.sig(fn='to_pascal_case'), """
        ensures /*C16 field PascalCase*/ !allup(self@) ==> pascal@ == sd_pascal(self@, true),
    """, cid='to_pascal_case.contract'),
    ins(A.text('for ch in', nth=2), ' it:'),
    ins(A.text('for ch in self.chars()'), """proof { assert(self@.skip(0) =~= self@); }
        """, where='before'),
    ins(A.loop(0, fn='to_pascal_case'), """
            invariant
                to_lowercase == allup(self@),
                0 <= it.index@ <= self@.len(),
                !to_lowercase ==> pascal@ + sd_pascal(self@.skip(it.index@), capitalize) =~= sd_pascal(self@, true),
        """, cid='to_pascal_case.invariant'),
    ins(A.loop_body(0, fn='to_pascal_case'), """
            proof {
                let rest = self@.skip(it.index@);
                assert(rest.drop_first() =~= self@.skip(it.index@ + 1));
                assert(rest[0] == ch);
            }"""),
    ins(A.loop_after(0, fn='to_pascal_case'), """
        proof { assert(self@.skip(self@.len() as int) =~= Seq::<char>::empty()); }"""),
    # ================= to_snake_case   (T4: `for (i, ch) in self.char_indices()` desugared to loop { match it.next() })
    ins(A.ret(fn='to_snake_case'), '(snake: ', where='before'), ins(A.ret(fn='to_snake_case'), ')', where='after'),
    ins(A.sig(fn='to_snake_case'), """
        ensures
            /*C16 variant snake_case*/ !allup(self@) ==> snake@ == sd_snake(self@, true),
            /*C16 field snake_case*/ !has_upper(self@) ==> snake@ == self@,
    """, cid='to_snake_case.contract'),
    rep(A.text('for (i, ch) in self.char_indices()'), """let mut it__ = self.char_indices();
        proof { assert(self@.skip(0) =~= self@); assert(self@.take(0) =~= Seq::<char>::empty()); }
        loop""", tag='T4', note='CharIndices has no vstd ghost iterator'),
    ins(A.loop(0, fn='to_snake_case'), """
            invariant_except_break
                0 <= ci_pos(it__) <= self@.len(),
                ci_rest(it__) == self@.skip(ci_pos(it__)),
                !is_uppercase ==> snake@ + sd_snake(ci_rest(it__), ci_pos(it__) == 0) =~= sd_snake(self@, true),
                !has_upper(self@) ==> snake@ =~= self@.take(ci_pos(it__)),
            invariant
                is_uppercase == allup(self@),
            ensures
                !is_uppercase ==> snake@ =~= sd_snake(self@, true),
                !has_upper(self@) ==> snake@ =~= self@,
            decreases ci_rest(it__).len()
        """, cid='to_snake_case.invariant'),
    ins(A.loop_body(0, fn='to_snake_case'), """
            let ghost pos0 = ci_pos(it__);
            let ghost snake0 = snake@;
            match it__.next() { Some((i, ch)) => {
            proof {
                assert(self@.skip(pos0).drop_first() =~= self@.skip(pos0 + 1));
                assert(self@.skip(pos0)[0] == self@[pos0]);
                assert(ch == self@[pos0]);
                if !has_upper(self@) { lemma_no_upper_low_id(self@, pos0); }
            }""", tag='T4'),
    ins(A.loop_end(0, fn='to_snake_case'), """
            proof {
                if !has_upper(self@) { assert(snake@ =~= self@.take(pos0 + 1)); }
            }
            } None => {
                proof { assert(self@.skip(pos0).len() == 0); assert(self@.take(pos0) =~= self@); }
                break; } }
        """, tag='T4'),
    # ================= to_screaming_snake_case
    ins(A.ret(fn='to_screaming_snake_case'), '(r: ', where='before'), ins(A.ret(fn='to_screaming_snake_case'), ')', where='after'),
    ins(A.sig(fn='to_screaming_snake_case'), """
        ensures
            /*C16 variant SCREAMING_SNAKE_CASE*/ !allup(self@) ==> r@ == ascii_up(sd_snake(self@, true)),
            /*C16 field SCREAMING_SNAKE_CASE*/ !has_upper(self@) ==> r@ == ascii_up(self@),
    """, cid='to_screaming_snake_case.contract'),
    # ================= to_kebab_case
    ins(A.ret(fn='to_kebab_case'), '(r: ', where='before'), ins(A.ret(fn='to_kebab_case'), ')', where='after'),
    ins(A.sig(fn='to_kebab_case'), """
        ensures
            /*C16 variant kebab-case*/ !allup(self@) ==> r@ == dash(sd_snake(self@, true)),
            /*C16 field kebab-case*/ !has_upper(self@) ==> r@ == dash(self@),
    """, cid='to_kebab_case.contract'),
    ins(A.text('self.to_snake_case().replace'), 'outlined_replace_us_dash(', where='before', tag='T3'),
    rep(A.text(""".replace('_', "-")"""), ')', tag='T3', cid='o_replace', note='str::replace is generic over Pattern; no vstd specification'),
    # ================= to_screaming_kebab_case
    ins(A.ret(fn='to_screaming_kebab_case'), '(r: ', where='before'), ins(A.ret(fn='to_screaming_kebab_case'), ')', where='after'),
    ins(A.sig(fn='to_screaming_kebab_case'), """
        ensures
            /*C16 variant SCREAMING-KEBAB-CASE*/ !allup(self@) ==> r@ == ascii_up(dash(sd_snake(self@, true))),
            /*C16 field SCREAMING-KEBAB-CASE*/ !has_upper(self@) ==> r@ == ascii_up(dash(self@)),
    """, cid='to_screaming_kebab_case.contract'),
]


def _arm(lit, call):
    return [rep(A.text('"%s" =>' % lit), 'if m__ == "%s" {' % lit, tag='T8'),
            rep(A.next_tok(call, ','), '} else', tag='T8')]


CASE_EDITS = [
    ins(A.ret(), '(r: ', where='before'), ins(A.ret(), ')', where='after'),
    ins(A.sig(), """
    ensures /*C16*/ renamed_ok(original@, *case, r@),
""", cid='rename_all_to_case.contract'),
    # T8: rustc lowers string-literal patterns to PartialEq::eq calls; Verus knows only one direction for a `match`
    rep(A.text('match value.as_str() {'), """{ let m__ = value.as_str();
            proof { lemma_rule_names(); lemma_dash_up_commute(sd_snake(original@, true)); lemma_dash_up_commute(original@);
                    if !has_us(original@) { lemma_sd_pascal_no_us(original@, true); if original@.len() > 0 { lemma_low_up(original@[0]); } }
                    if original@.len() > 0 && !has_us(original@) && !is_ascii_lower(original@[0]) { assert(seq![up(original@[0])] + original@.drop_first() =~= original@); }
                    if original@.len() > 0 {
                        let p = seq![up(original@[0])] + original@.drop_first();
                        assert(p.drop_first() =~= original@.drop_first()); assert(p[0] == up(original@[0]));
                        assert(lower_first(p) =~= lower_first(original@));
                    }
            }""", tag='T8'),
] + _arm('lowercase', 'original.to_lowercase()') + _arm('UPPERCASE', 'original.to_uppercase()') \
  + _arm('PascalCase', 'original.to_pascal_case()') + _arm('camelCase', 'original.to_camel_case()') \
  + _arm('snake_case', 'original.to_snake_case()') + _arm('SCREAMING_SNAKE_CASE', 'original.to_screaming_snake_case()') \
  + _arm('kebab-case', 'original.to_kebab_case()') + _arm('SCREAMING-KEBAB-CASE', 'original.to_screaming_kebab_case()') + [
    rep(A.text('_ =>'), '{', tag='T8'),
    rep(A.next_tok('_ => original', ','), '}', tag='T8'),
]

IDENT_EDITS = [
    ins(A.ret(), '(r: ', where='before'), ins(A.ret(), ')', where='after'),
    ins(A.sig(), """
    ensures
        r.original@ == original_of(ident),
        /*C01/C16: serde(rename) wins, else the container rule applied to the identifier (raw prefix removed)*/
        match attrs_serde_rename(attrs@) {
            Some(s) => r.renamed@ == s && r.serde_rename,
            None => renamed_ok(original_of(ident), *rename_all, r.renamed@) && !r.serde_rename,
        },
""", cid='get_ident.contract'),
    rep(A.text('ident.map_or("???".to_string(), |id| id.to_string().replace("r#", ""))'), 'outlined_original(ident)',
        tag='T3', cid='o_original', note='proc_macro2::Ident (T7 stub) - Display of an Ident cannot be executed by Verus'),
]

EPILOGUE = r'''
// ---------- C01 / C02: the known-finding classes do not touch conventionally named identifiers
pub open spec fn is_field_char(c: char) -> bool { is_ascii_lower(c) || ('0' <= c && c <= '9') || c == '_' }
/// snake_case field name: only a-z, 0-9, '_' and at least one letter
pub open spec fn conventional_field(s: Seq<char>) -> bool {
    (forall|i: int| 0 <= i < s.len() ==> is_field_char(#[trigger] s[i])) && (exists|i: int| 0 <= i < s.len() && is_ascii_lower(#[trigger] s[i]))
}
/// UpperCamelCase variant name: A-Z first, only ASCII letters and digits, at least one lowercase letter
pub open spec fn conventional_variant(s: Seq<char>) -> bool {
    s.len() > 0 && is_ascii_upper(s[0])
    && (forall|i: int| 0 <= i < s.len() ==> is_ascii_lower(#[trigger] s[i]) || is_ascii_upper(s[i]) || ('0' <= s[i] && s[i] <= '9'))
    && (exists|i: int| 0 <= i < s.len() && is_ascii_lower(#[trigger] s[i]))
}
proof fn lemma_not_allup(s: Seq<char>)
    requires exists|i: int| 0 <= i < s.len() && is_ascii_lower(#[trigger] s[i])
    ensures !allup(s)
{
    let i = choose|i: int| 0 <= i < s.len() && is_ascii_lower(#[trigger] s[i]);
    assert(ascii_up(s)[i] == up(s[i]));
    assert(up(s[i]) != s[i]);
}
/// C01: for a conventionally named field the contract of get_ident / rename_all_to_case has no carve-out
proof fn lemma_conventional_field_outside_findings(rule: Seq<char>, s: Seq<char>)
    requires conventional_field(s)
    ensures !kf_field(rule, s)
{
    lemma_not_allup(s);
    assert(is_ascii_str(s)) by { assert forall|i: int| 0 <= i < s.len() implies ((#[trigger] s[i]) as u32) < 128 by { assert(is_field_char(s[i])); } }
    axiom_unicode_ascii_case(s);
    assert(ascii_low(s) =~= s) by { assert forall|i: int| 0 <= i < s.len() implies ascii_low(s)[i] == s[i] by { assert(is_field_char(s[i])); } }
    assert(!has_upper(s)) by {
        if has_upper(s) { let i = choose|i: int| 0 <= i < s.len() && unicode_is_upper(#[trigger] s[i]); assert(is_field_char(s[i])); axiom_unicode_ascii_upper(s[i]); }
    }
}
/// C02: for an UpperCamelCase variant the contract has no carve-out
proof fn lemma_conventional_variant_outside_findings(rule: Seq<char>, s: Seq<char>)
    requires conventional_variant(s)
    ensures !kf_variant(rule, s)
{
    lemma_not_allup(s);
    assert(is_ascii_str(s)) by { assert forall|i: int| 0 <= i < s.len() implies ((#[trigger] s[i]) as u32) < 128 by { assert(is_ascii_lower(s[i]) || is_ascii_upper(s[i]) || ('0' <= s[i] && s[i] <= '9')); } }
    axiom_unicode_ascii_case(s);
    assert(!has_us(s)) by {
        if has_us(s) { let i = choose|i: int| 0 <= i < s.len() && (#[trigger] s[i]) == '_'; assert(is_ascii_lower(s[i]) || is_ascii_upper(s[i]) || ('0' <= s[i] && s[i] <= '9')); }
    }
}
'''

UNIT = Unit(
    name='rename',
    epilogue=EPILOGUE,
    props=['C16', 'C01', 'C02', 'C07'],
    spec_files=['chars.rs', 'std_extra.rs', 'serde_case.rs'],
    pre_verus=PRE_VERUS,
    prelude=PRELUDE,
    items=[
        Item('trait_RenameExt', 'core/src/rename.rs', ['trait RenameExt']),
        Item('impl_RenameExt', 'core/src/rename.rs', ['impl RenameExt for String {'], IMPL_EDITS),
        Item('struct_Id', 'core/src/rust_types.rs', ['struct Id']),
        Item('rename_all_to_case', 'core/src/parser.rs', ['fn rename_all_to_case'], CASE_EDITS),
        Item('get_ident', 'core/src/parser.rs', ['fn get_ident'], IDENT_EDITS),
    ],
    outlines={
        'o_replace': {'decl': """fn outlined_replace_us_dash(s: String) -> (r: String)
    ensures r@ == dash(s@)""", 'prefix': 's'},
        'o_original': {'decl': """fn outlined_original(ident: Option<&proc_macro2::Ident>) -> (r: String)
    ensures r@ == original_of(ident)""", 'compile': False},
    },
    functions=['string::String::to_camel_case', 'string::String::to_pascal_case', 'string::String::to_snake_case',
               'string::String::to_screaming_snake_case', 'string::String::to_kebab_case', 'string::String::to_screaming_kebab_case',
               'rename_all_to_case', 'get_ident', 'lemma_dash_up_commute', 'lemma_sd_pascal_no_us', 'lemma_rule_names',
               'lemma_conventional_field_outside_findings', 'lemma_conventional_variant_outside_findings'],
    trusted=[
        'std string contracts in spec/chars.rs (to_ascii_uppercase/lowercase on str and char, char::is_uppercase, str::to_lowercase/'
        'to_uppercase as uninterpreted Unicode maps, CharIndices::next with the byte offset abstracted to "zero iff first char")',
        'axiom: on ASCII, char::is_uppercase is A..Z and str::to_lowercase/to_uppercase are the ASCII maps (Unicode tables)',
        'outlined (T3): `s.replace(\'_\', "-")` maps every \'_\' to \'-\' and nothing else',
        'outlined (T3): the identifier text typeshare starts from (Ident::to_string with "r#" removed, "???" when absent) is uninterpreted',
        'stub (T7): parser.rs::serde_rename is a pure function of the attribute list (syn walk, not under contract)',
    ],
    undecided=[
        'that every backend binds exactly Id.renamed as the wire name (text emission; C01/C02)',
        'serde_rename / serde_rename_all attribute extraction (syn walks)',
    ],
)


# ------------------------------------------------------------------------------------ witness search / replay
NATIVE_MAIN = r"""
#[allow(dead_code)]
#[path = "@CASE_RS@"]
mod case;
use std::panic;

fn allup(s: &str) -> bool { s.to_ascii_uppercase() == s }
fn has_upper(s: &str) -> bool { s.chars().any(|c| c.is_uppercase()) }
fn has_us(s: &str) -> bool { s.contains('_') }
/// the KNOWN-FINDING classes, transcribed from the spec predicates kf_field / kf_variant
fn kf(rule: &str, pos: &str, s: &str) -> bool {
    let first_lower = s.chars().next().map_or(false, |c| c.is_ascii_lowercase());
    match (pos, rule) {
        ("field", "lowercase") => s.to_lowercase() != s,
        (_, "UPPERCASE") => s.to_uppercase() != s.to_ascii_uppercase(),
        ("field", "PascalCase") | ("field", "camelCase") => allup(s),
        ("field", "snake_case") | ("field", "SCREAMING_SNAKE_CASE") | ("field", "kebab-case") | ("field", "SCREAMING-KEBAB-CASE") => has_upper(s),
        ("variant", "lowercase") => s.to_lowercase() != s.to_ascii_lowercase(),
        ("variant", "PascalCase") => allup(s) || has_us(s) || first_lower,
        ("variant", "camelCase") => allup(s) || has_us(s),
        ("variant", _) if ["snake_case", "SCREAMING_SNAKE_CASE", "kebab-case", "SCREAMING-KEBAB-CASE"].contains(&rule) => allup(s),
        _ => false,
    }
}
const RULES: [&str; 9] = ["lowercase", "UPPERCASE", "PascalCase", "camelCase", "snake_case", "SCREAMING_SNAKE_CASE", "kebab-case", "SCREAMING-KEBAB-CASE", "bogus-rule"];

fn check(rule: &str, pos: &str, ident: &str) -> Option<String> {
    let (r2, i2) = (rule.to_string(), ident.to_string());
    let ts = panic::catch_unwind(move || rename_all_to_case(i2, &Some(r2)));
    let ts = match ts { Ok(t) => t, Err(_) => return Some("typeshare's rename_all_to_case panicked".into()) };
    let sd = match case::RenameRule::from_str(rule) {
        Err(_) => Some(ident.to_string()),
        Ok(r) => { let (p2, i3) = (pos.to_string(), ident.to_string());
            panic::catch_unwind(move || if p2 == "field" { r.apply_to_field(&i3) } else { r.apply_to_variant(&i3) }).ok() }
    };
    match sd {
        None => None, // serde itself rejects this identifier (rustc error): no oracle value
        Some(sd) => if !kf(rule, pos, ident) && ts != sd { Some(format!("typeshare gives {:?}, serde_derive gives {:?} (outside every listed known-finding class)", ts, sd)) } else { None }
    }
}
fn main() {
    panic::set_hook(Box::new(|_| {}));
    let a: Vec<String> = std::env::args().collect();
    if a.len() >= 5 && a[1] == "check" {
        if let Some(m) = check(&a[2], &a[3], &a[4]) { println!("WITNESS {{\"input\": {{\"rule\": {:?}, \"position\": {:?}, \"ident\": {:?}}}, \"fails\": {:?}}}", a[2], a[3], a[4], m); std::process::exit(1); }
        println!("input passes"); return;
    }
    // all identifiers up to length 5 over class representatives, then a dictionary
    let alpha: Vec<char> = vec!['a', 'b', 'A', 'B', '1', '_', 'é', 'É', 'ß'];
    let mut tried = 0u64;
    let mut idents: Vec<String> = vec![];
    for w in ["foo_bar", "FooBar", "fooBar", "URL", "HTTPServer", "address_line1", "AddressLine1", "x", "X", "__", "_a", "a_", "a__b", "r#type", "Étage", "étage_un", "straße", "ID2", "Id2X", "foo_1bar"] { idents.push(w.to_string()); }
    let mut cur: Vec<String> = vec![String::new()];
    let maxlen = if std::env::var("VERIF_TIER").map_or(false, |t| t == "thorough") { 6 } else { 5 };
    for _len in 1..=maxlen { let mut next = vec![]; for p in &cur { for c in &alpha { let mut q = p.clone(); q.push(*c); next.push(q); } } idents.extend(next.iter().cloned()); cur = next; }
    for id in &idents { for rule in RULES { for pos in ["field", "variant"] {
        tried += 1;
        if let Some(m) = check(rule, pos, id) { println!("WITNESS {{\"input\": {{\"rule\": {:?}, \"position\": {:?}, \"ident\": {:?}}}, \"fails\": {:?}}}", rule, pos, id, m); std::process::exit(1); }
    } } }
    println!("no failing input among {} (rule, position, identifier) triples: identifiers up to length {} over 9 class representatives + dictionary", tried, maxlen);
}
"""


def native_source(raw):
    """un-annotated CURRENT text of the trait, the impl and rename_all_to_case + serde_derive's real case.rs as oracle"""
    import os
    import vunit
    case_rs = os.path.join(vunit.VERIF, 'vendor', 'serde_derive-1.0.214', 'case.rs')
    return ('#![allow(dead_code, unused)]\n' + raw('trait_RenameExt') + '\n' + raw('impl_RenameExt') + '\n' + raw('rename_all_to_case')
            + '\n' + NATIVE_MAIN.replace('@CASE_RS@', case_rs))


def replay_args(inp):
    return [inp['rule'], inp['position'], inp['ident']]
