"""U-fmt_kotlin: Kotlin's type-expression translator (see fmtcommon)."""
from rsx import A, ins, rep, drop
import fmtcommon as F

SRC = 'core/src/language/kotlin.rs'

SPECIAL = F.SPECIAL_HEAD + F.special_key_reps(2)

UNIT = F.make_unit('fmt_kotlin', 'Kotlin', SRC, 'Kotlin',
                   'TCfg { lang: Lang::Kotlin, map: self.type_mappings@, prefix: self.prefix@, no_pointer_slice: false }',
                   '', SPECIAL,
                   overrides={'format_simple_type': (F.simple_contract('generic_types'), ('fmt',))})


def native(workdir):
    import typesearch
    return typesearch.native(workdir)


def replay_args(inp):
    import typesearch
    return typesearch.replay_args(inp)
