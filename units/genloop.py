"""U-genloop: the four generate_types bodies - core/src/language/mod.rs :: Language::generate_types (default method shared by TypeScript,
Kotlin, Swift) and the overrides in scala.rs, python.rs and go.rs - verbatim, each inside a stub trait whose writer methods record
what they are asked to write in a tracked ghost log.
Serves C03 / C11 at the writer boundary: exactly one write_* call per parsed item, of the matching kind, in the order topsort
returns - none dropped, duplicated or invented; C07."""
from rsx import A, ins, rep, drop
from vunit import Item, Unit

PRELUDE = r'''
// ---------- T7 stubs
#[verifier::external_body] pub struct WriteSink { _p: u8 }      // stands for `dyn Write` (trait objects are outside Verus)
#[verifier::external_body] pub struct IoError { _p: u8 }
#[verifier::external_body] pub struct CrateTypes { _p: u8 }
#[verifier::external_body] pub struct ScopedCrateTypes { _p: u8 }
#[verifier::external_body] pub struct RustStruct { _p: u8 }
#[verifier::external_body] pub struct RustEnum { _p: u8 }
#[verifier::external_body] pub struct RustTypeAlias { _p: u8 }
#[verifier::external_body] pub struct RustConst { _p: u8 }
#[verifier::external_body] pub struct ParsedRest { _p: u8 }
/// the fields generate_types reads
pub struct ParsedData { pub structs: Vec<RustStruct>, pub enums: Vec<RustEnum>, pub aliases: Vec<RustTypeAlias>, pub consts: Vec<RustConst>,
                        pub multi_file: bool, pub rest: ParsedRest }

/// what the writer methods were asked to write, in order
pub ghost struct EmitLog { pub emitted: Seq<RustItem> }

pub open spec fn all_items(d: ParsedData) -> Seq<RustItem> {
    d.aliases@.map_values(|a: RustTypeAlias| RustItem::Alias(a)) + d.structs@.map_values(|s: RustStruct| RustItem::Struct(s))
      + d.enums@.map_values(|e: RustEnum| RustItem::Enum(e)) + d.consts@.map_values(|c: RustConst| RustItem::Const(c))
}
/// stand-in for topsort.rs::topsort: reorders in place (units topo + deps carry what the order is)
#[verifier::external_body]
fn topsort(things: &mut Vec<RustItem>)
    ensures final(things)@.to_multiset() == old(things)@.to_multiset()
{ unimplemented!() }
#[verifier::external_body]
fn used_imports(data: &ParsedData, all_types: &CrateTypes) -> ScopedCrateTypes { unimplemented!() }
#[verifier::external_body]
fn outlined_new_sink() -> WriteSink { unimplemented!() }
'''

TRAIT_HEAD = '''pub trait Language {
    fn begin_file(&mut self, w: &mut WriteSink, parsed_data: &ParsedData) -> std::io::Result<()>;
    fn write_imports(&mut self, w: &mut WriteSink, imports: ScopedCrateTypes) -> std::io::Result<()>;
    fn end_file(&mut self, w: &mut WriteSink) -> std::io::Result<()>;
    fn write_type_alias(&mut self, w: &mut WriteSink, t: &RustTypeAlias, Tracked(log): Tracked<&mut EmitLog>) -> (r: std::io::Result<()>)
        ensures final(log).emitted == old(log).emitted.push(RustItem::Alias(*t));
    fn write_const(&mut self, w: &mut WriteSink, c: &RustConst, Tracked(log): Tracked<&mut EmitLog>) -> (r: std::io::Result<()>)
        ensures final(log).emitted == old(log).emitted.push(RustItem::Const(*c));
    fn write_struct(&mut self, w: &mut WriteSink, rs: &RustStruct, Tracked(log): Tracked<&mut EmitLog>) -> (r: std::io::Result<()>)
        ensures final(log).emitted == old(log).emitted.push(RustItem::Struct(*rs));
    fn write_enum(&mut self, w: &mut WriteSink, e: &RustEnum, Tracked(log): Tracked<&mut EmitLog>) -> (r: std::io::Result<()>)
        ensures final(log).emitted == old(log).emitted.push(RustItem::Enum(*e));

'''

GEN = [
    rep(A.text('&mut dyn Write'), '&mut WriteSink', tag='T7', note='trait objects are outside Verus; the sink is only passed on'),
    ins(A.text('data: ParsedData,'), ' Tracked(log): Tracked<&mut EmitLog>,', where='after'),
    ins(A.ret(), '(res: ', where='before'), ins(A.ret(), ')', where='after'),
    ins(A.sig(), '''
        ensures
            /*C03/C11 at the writer boundary: one write_* call per parsed item, of its kind; nothing dropped, duplicated or invented*/
            res is Ok ==> exists|order: Seq<RustItem>| final(log).emitted == old(log).emitted + order && order.to_multiset() == all_items(data).to_multiset(),
    ''', cid='generate_types.contract'),
    ins(A.body_start(), '''
        let ghost log0 = log.emitted;
        let ghost all = all_items(data);'''),
    rep(A.span('Vec::from_iter(', '.chain(consts.into_iter().map(RustItem::Const)), )'), 'outlined_collect_items(aliases, structs, enums, consts)', tag='T3', cid='o_collect'),
    ins(A.text('for thing in'), ' it:'),
    ins(A.text('for thing in &items'), '''let ghost sorted = items@;
        proof { assert(log.emitted =~= log0 + sorted.subrange(0, 0)); }
        ''', where='before'),
    ins(A.loop(0), '''
            invariant
                sorted == items@, sorted.to_multiset() == all.to_multiset(),
                0 <= it.index@ <= sorted.len(),
                log.emitted == log0 + sorted.subrange(0, it.index@),
        ''', cid='generate_types.invariant'),
    ins(A.loop_body(0), '''
            let ghost k = it.index@;
            let ghost before = log.emitted;'''),
    ins(A.text('RustItem::Enum(e) => self.write_enum(writable, e'), ', Tracked(log)', where='after'),
    ins(A.text('RustItem::Struct(s) => self.write_struct(writable, s'), ', Tracked(log)', where='after'),
    ins(A.text('RustItem::Alias(a) => self.write_type_alias(writable, a'), ', Tracked(log)', where='after'),
    ins(A.text('RustItem::Const(c) => self.write_const(writable, c'), ', Tracked(log)', where='after'),
    ins(A.loop_end(0), '''
            proof {
                assert(log.emitted == before.push(sorted[k]));
                assert(log0 + sorted.subrange(0, k + 1) =~= (log0 + sorted.subrange(0, k)).push(sorted[k]));
            }
        '''),
    ins(A.loop_after(0), '''
        proof { assert(sorted.subrange(0, sorted.len() as int) =~= sorted); }'''),
]

SCALA_HEAD = '''pub trait ScalaGen {
    fn begin_file(&mut self, w: &mut WriteSink, parsed_data: &ParsedData) -> std::io::Result<()>;
    fn end_file(&mut self, w: &mut WriteSink) -> std::io::Result<()>;
    fn unsigned_integer_used(&self, data: &ParsedData) -> bool;
    fn begin_package_object(&mut self, w: &mut WriteSink) -> std::io::Result<()>;
    fn write_unsigned_aliases(&mut self, w: &mut WriteSink) -> std::io::Result<()>;
    fn end_package_object(&mut self, w: &mut WriteSink) -> std::io::Result<()>;
    fn begin_package(&mut self, w: &mut WriteSink) -> std::io::Result<()>;
    fn end_package(&mut self, w: &mut WriteSink) -> std::io::Result<()>;
    fn write_type_alias(&mut self, w: &mut WriteSink, t: &RustTypeAlias, Tracked(log): Tracked<&mut EmitLog>) -> (r: std::io::Result<()>)
        ensures final(log).emitted == old(log).emitted.push(RustItem::Alias(*t));
    fn write_struct(&mut self, w: &mut WriteSink, rs: &RustStruct, Tracked(log): Tracked<&mut EmitLog>) -> (r: std::io::Result<()>)
        ensures final(log).emitted == old(log).emitted.push(RustItem::Struct(*rs));
    fn write_enum(&mut self, w: &mut WriteSink, e: &RustEnum, Tracked(log): Tracked<&mut EmitLog>) -> (r: std::io::Result<()>)
        ensures final(log).emitted == old(log).emitted.push(RustItem::Enum(*e));

'''

SCALA = [
    rep(A.text('&mut dyn Write'), '&mut WriteSink', tag='T7'),
    ins(A.text('data: ParsedData,'), ' Tracked(log): Tracked<&mut EmitLog>,', where='after'),
    ins(A.ret(), '(res: ', where='before'), ins(A.ret(), ')', where='after'),
    ins(A.sig(), '''
        ensures
            /*C03: Scala - every parsed item is written exactly once, or the run fails (constants cannot be generated: an error, not an omission)*/
            res is Ok ==> final(log).emitted == old(log).emitted + all_items(data),
    ''', cid='scala_generate_types.contract'),
    ins(A.body_start(), '''
        let ghost log0 = log.emitted;
        let ghost al = data.aliases@.map_values(|a: RustTypeAlias| RustItem::Alias(a));
        let ghost stv = data.structs@.map_values(|s: RustStruct| RustItem::Struct(s));
        let ghost env = data.enums@.map_values(|e: RustEnum| RustItem::Enum(e));'''),
    rep(A.span('std::io::Error::new(', 'c.id.original ), )'), 'outlined_unsupported_const(c)', tag='T3', cid='o_unsup'),
    ins(A.text('for a in'), ' ita:'),
    ins(A.loop(0), '''
                invariant log.emitted == log0 + al.subrange(0, ita.index@), al == data.aliases@.map_values(|a: RustTypeAlias| RustItem::Alias(a)),
                    0 <= ita.index@ <= al.len(),
            '''),
    ins(A.text('for a in data.aliases.iter()'), '''proof { assert(log.emitted =~= log0 + al.subrange(0, 0)); }
            ''', where='before'),
    ins(A.loop_body(0), '''
                let ghost k = ita.index@; let ghost before = log.emitted;'''),
    ins(A.text('self.write_type_alias(writable, a'), ', Tracked(log)', where='after'),
    ins(A.loop_end(0), '''
                proof { assert(al[k] == RustItem::Alias(*a)); assert(log0 + al.subrange(0, k + 1) =~= (log0 + al.subrange(0, k)).push(al[k])); }
            '''),
    ins(A.loop_after(0), '''
            proof { assert(al.subrange(0, al.len() as int) =~= al); }'''),
    ins(A.text('if !data.structs.is_empty() || !data.enums.is_empty() {'), '''proof { if data.aliases@.len() == 0 { assert(al =~= Seq::<RustItem>::empty()); assert(log.emitted =~= log0 + al); } }
        let ghost log1 = log.emitted;
        ''', where='before'),
    ins(A.text('for s in'), ' its:'),
    ins(A.text('for s in data.structs.iter()'), '''proof { assert(log.emitted =~= log1 + stv.subrange(0, 0)); }
            ''', where='before'),
    ins(A.loop(1), '''
                invariant log.emitted == log1 + stv.subrange(0, its.index@), stv == data.structs@.map_values(|s: RustStruct| RustItem::Struct(s)),
                    0 <= its.index@ <= stv.len(), log1 == log0 + al,
            '''),
    ins(A.loop_body(1), '''
                let ghost k = its.index@;'''),
    ins(A.text('self.write_struct(writable, s'), ', Tracked(log)', where='after'),
    ins(A.loop_end(1), '''
                proof { assert(stv[k] == RustItem::Struct(*s)); assert(log1 + stv.subrange(0, k + 1) =~= (log1 + stv.subrange(0, k)).push(stv[k])); }
            '''),
    ins(A.loop_after(1), '''
            proof { assert(stv.subrange(0, stv.len() as int) =~= stv); }
            let ghost log2 = log.emitted;'''),
    ins(A.text('for e in'), ' ite:'),
    ins(A.text('for e in data.enums.iter()'), '''proof { assert(log.emitted =~= log2 + env.subrange(0, 0)); }
            ''', where='before'),
    ins(A.loop(2), '''
                invariant log.emitted == log2 + env.subrange(0, ite.index@), env == data.enums@.map_values(|e: RustEnum| RustItem::Enum(e)),
                    0 <= ite.index@ <= env.len(), log2 == log1 + stv, log1 == log0 + al,
            '''),
    ins(A.loop_body(2), '''
                let ghost k = ite.index@;'''),
    ins(A.text('self.write_enum(writable, e'), ', Tracked(log)', where='after'),
    ins(A.loop_end(2), '''
                proof { assert(env[k] == RustItem::Enum(*e)); assert(log2 + env.subrange(0, k + 1) =~= (log2 + env.subrange(0, k)).push(env[k])); }
            '''),
    ins(A.loop_after(2), '''
            proof { assert(env.subrange(0, env.len() as int) =~= env); }'''),
    ins(A.text('self.end_file(writable)?;'), '''proof {
            if data.structs@.len() == 0 && data.enums@.len() == 0 { assert(stv =~= Seq::<RustItem>::empty()); assert(env =~= Seq::<RustItem>::empty()); }
            assert(data.consts@.len() == 0);
            assert(data.consts@.map_values(|c: RustConst| RustItem::Const(c)) =~= Seq::<RustItem>::empty());
            assert(log.emitted =~= log0 + all_items(data));
        }
        ''', where='before'),
]

PY_HEAD = '''pub trait PythonGen {
    fn begin_file(&mut self, w: &mut WriteSink, parsed_data: &ParsedData) -> std::io::Result<()>;
    fn write_all_imports(&mut self, w: &mut WriteSink) -> std::io::Result<()>;
    fn write_type_alias(&mut self, w: &mut WriteSink, t: &RustTypeAlias, Tracked(log): Tracked<&mut EmitLog>) -> (r: std::io::Result<()>)
        ensures final(log).emitted == old(log).emitted.push(RustItem::Alias(*t));
    fn write_const(&mut self, w: &mut WriteSink, c: &RustConst, Tracked(log): Tracked<&mut EmitLog>) -> (r: std::io::Result<()>)
        ensures final(log).emitted == old(log).emitted.push(RustItem::Const(*c));
    fn write_struct(&mut self, w: &mut WriteSink, rs: &RustStruct, Tracked(log): Tracked<&mut EmitLog>) -> (r: std::io::Result<()>)
        ensures final(log).emitted == old(log).emitted.push(RustItem::Struct(*rs));
    fn write_enum(&mut self, w: &mut WriteSink, e: &RustEnum, Tracked(log): Tracked<&mut EmitLog>) -> (r: std::io::Result<()>)
        ensures final(log).emitted == old(log).emitted.push(RustItem::Enum(*e));
    /// stand-in for the custom-JSON-translation helpers written after the items (iterator chain over a BTreeMap field + writeln!)
    fn write_custom_translations(&mut self, w: &mut WriteSink) -> std::io::Result<()>;

'''

PYTHON = [
    rep(A.text('&mut dyn Write'), '&mut WriteSink', tag='T7'),
    ins(A.text('data: ParsedData,'), ' Tracked(log): Tracked<&mut EmitLog>,', where='after'),
    ins(A.ret(), '(res: ', where='before'), ins(A.ret(), ')', where='after'),
    ins(A.sig(), '''
        ensures
            /*C03/C11 Python: one write_* call per parsed item, of its kind*/
            res is Ok ==> exists|order: Seq<RustItem>| final(log).emitted == old(log).emitted + order && order.to_multiset() == all_items(data).to_multiset(),
    ''', cid='python_generate_types.contract'),
    ins(A.body_start(), '''
        let ghost log0 = log.emitted;
        let ghost all = all_items(data);'''),
    rep(A.span('aliases .into_iter() .map(RustItem::Alias)', '.collect::<Vec<_>>()'), 'outlined_collect_items_py(aliases, structs, enums, consts)', tag='T3', cid='o_collect_py'),
    rep(A.text('let mut body: Vec<u8> = Vec::new();'), 'let mut body: WriteSink = outlined_new_sink();', tag='T7', note='the in-memory buffer is only passed on to the writer methods'),
    ins(A.text('for thing in'), ' it:'),
    ins(A.text('for thing in items'), '''let ghost sorted = items@;
        proof { assert(log.emitted =~= log0 + sorted.subrange(0, 0)); }
        ''', where='before'),
    ins(A.loop(0), '''
            invariant
                sorted.to_multiset() == all.to_multiset(),
                0 <= it.index@ <= sorted.len(), it.snapshot@.remaining() == sorted,
                it.history@ =~= sorted.take(it.index@ as int), it.iter.remaining() =~= sorted.skip(it.index@ as int),
                log.emitted == log0 + sorted.subrange(0, it.index@),
        ''', cid='python_generate_types.invariant'),
    ins(A.loop_body(0), '''
            let ghost k = it.index@;
            let ghost before = log.emitted;
            proof { assert(thing == sorted[k]); }'''),
    ins(A.text('RustItem::Enum(e) => self.write_enum(&mut body, &e'), ', Tracked(log)', where='after'),
    ins(A.text('RustItem::Struct(rs) => self.write_struct(&mut body, &rs'), ', Tracked(log)', where='after'),
    ins(A.text('RustItem::Alias(t) => self.write_type_alias(&mut body, &t'), ', Tracked(log)', where='after'),
    ins(A.text('RustItem::Const(c) => self.write_const(&mut body, &c'), ', Tracked(log)', where='after'),
    ins(A.loop_end(0), '''
            proof {
                assert(log.emitted == before.push(sorted[k]));
                assert(log0 + sorted.subrange(0, k + 1) =~= (log0 + sorted.subrange(0, k)).push(sorted[k]));
            }
        '''),
    ins(A.loop_after(0), '''
        proof { assert(sorted.subrange(0, sorted.len() as int) =~= sorted); }'''),
    rep(A.span('self.types_for_custom_json_translation .iter()', 'writeln!(w) })'), 'self.write_custom_translations(w)', tag='T3',
        cid=None, note='iterator chain + writeln!: stands behind a stub method of the trait'),
    rep(A.text('w.write_all(&body)'), 'outlined_flush(w, &body)', tag='T3', cid='o_flush'),
]

GO_HEAD = '''#[verifier::external_body] pub struct StructTypes { _p: u8 }
pub trait GoGen {
    fn begin_file(&mut self, w: &mut WriteSink, parsed_data: &ParsedData) -> std::io::Result<()>;
    fn write_all_imports(&mut self, w: &mut WriteSink) -> std::io::Result<()>;
    fn write_type_alias(&mut self, w: &mut WriteSink, t: &RustTypeAlias, Tracked(log): Tracked<&mut EmitLog>) -> (r: std::io::Result<()>)
        ensures final(log).emitted == old(log).emitted.push(RustItem::Alias(*t));
    fn write_const(&mut self, w: &mut WriteSink, c: &RustConst, Tracked(log): Tracked<&mut EmitLog>) -> (r: std::io::Result<()>)
        ensures final(log).emitted == old(log).emitted.push(RustItem::Const(*c));
    fn write_struct(&mut self, w: &mut WriteSink, rs: &RustStruct, Tracked(log): Tracked<&mut EmitLog>) -> (r: std::io::Result<()>)
        ensures final(log).emitted == old(log).emitted.push(RustItem::Struct(*rs));
    fn write_enum(&mut self, w: &mut WriteSink, e: &RustEnum, custom_structs: &StructTypes, Tracked(log): Tracked<&mut EmitLog>) -> (r: std::io::Result<()>)
        ensures final(log).emitted == old(log).emitted.push(RustItem::Enum(*e));

'''

GO = [
    rep(A.text('&mut dyn Write'), '&mut WriteSink', tag='T7'),
    ins(A.text('data: ParsedData,'), ' Tracked(log): Tracked<&mut EmitLog>,', where='after'),
    ins(A.ret(), '(res: ', where='before'), ins(A.ret(), ')', where='after'),
    ins(A.sig(), '''
        ensures
            /*C03/C11 Go: one write_* call per parsed item, of its kind*/
            res is Ok ==> exists|order: Seq<RustItem>| final(log).emitted == old(log).emitted + order && order.to_multiset() == all_items(data).to_multiset(),
    ''', cid='go_generate_types.contract'),
    ins(A.body_start(), '''
        let ghost log0 = log.emitted;
        let ghost all = all_items(data);'''),
    rep(A.span('aliases .into_iter() .map(RustItem::Alias)', '.collect::<Vec<_>>()'), 'outlined_collect_items_go(aliases, structs, enums, consts)', tag='T3', cid='o_collect_go'),
    rep(A.span('let mut types_mapping_to_struct = items', 'types_mapping_to_struct.insert(alias.id.original.as_str()); } }'),
        'let types_mapping_to_struct = outlined_struct_types(&items);', tag='T3', cid='o_structtypes',
        note='two iterator chains and a loop computing the set of type names that map to structs (read-only on `items`)'),
    rep(A.text('let mut body: Vec<u8> = Vec::new();'), 'let mut body: WriteSink = outlined_new_sink();', tag='T7'),
    ins(A.text('for thing in'), ' it:'),
    ins(A.text('for thing in &items'), '''let ghost sorted = items@;
        proof { assert(log.emitted =~= log0 + sorted.subrange(0, 0)); }
        ''', where='before'),
    ins(A.loop(1), '''
            invariant
                sorted == items@, sorted.to_multiset() == all.to_multiset(),
                0 <= it.index@ <= sorted.len(),
                log.emitted == log0 + sorted.subrange(0, it.index@),
        ''', cid='go_generate_types.invariant'),
    ins(A.loop_body(1), '''
            let ghost k = it.index@;
            let ghost before = log.emitted;'''),
    ins(A.text('RustItem::Enum(e) => self.write_enum(&mut body, e, &types_mapping_to_struct'), ', Tracked(log)', where='after'),
    ins(A.text('RustItem::Struct(s) => self.write_struct(&mut body, s'), ', Tracked(log)', where='after'),
    ins(A.text('RustItem::Alias(a) => self.write_type_alias(&mut body, a'), ', Tracked(log)', where='after'),
    ins(A.text('RustItem::Const(c) => self.write_const(&mut body, c'), ', Tracked(log)', where='after'),
    ins(A.loop_end(1), '''
            proof {
                assert(log.emitted == before.push(sorted[k]));
                assert(log0 + sorted.subrange(0, k + 1) =~= (log0 + sorted.subrange(0, k)).push(sorted[k]));
            }
        '''),
    ins(A.loop_after(1), '''
        proof { assert(sorted.subrange(0, sorted.len() as int) =~= sorted); }'''),
    rep(A.text('w.write_all(&body)'), 'outlined_flush_go(w, &body)', tag='T3', cid='o_flush_go'),
]

UNIT = Unit(
    name='genloop',
    props=['C03', 'C11', 'C07'],
    pre_verus='use vstd::std_specs::iter::IteratorSpec;\npub mod std { pub mod io { pub type Result<T> = core::result::Result<T, crate::IoError>; } }\n',
    prelude=PRELUDE,
    items=[
        Item('enum_RustItem', 'core/src/rust_types.rs', ['enum RustItem']),
        Item('generate_types', 'core/src/language/mod.rs', ['trait Language', 'fn generate_types'], GEN, wrap=(TRAIT_HEAD, '\n}\n')),
        Item('python_generate_types', 'core/src/language/python.rs', ['impl Language for Python {', 'fn generate_types'], PYTHON, wrap=(PY_HEAD, '\n}\n')),
        Item('go_generate_types', 'core/src/language/go.rs', ['impl Language for Go {', 'fn generate_types'], GO, wrap=(GO_HEAD, '\n}\n')),
        Item('scala_generate_types', 'core/src/language/scala.rs', ['impl Language for Scala {', 'fn generate_types'], SCALA, wrap=(SCALA_HEAD, '\n}\n')),
    ],
    outlines={
        'o_collect_py': {'decl': '''fn outlined_collect_items_py(aliases: Vec<RustTypeAlias>, structs: Vec<RustStruct>, enums: Vec<RustEnum>, consts: Vec<RustConst>) -> (r: Vec<RustItem>)
    ensures r@ == aliases@.map_values(|a: RustTypeAlias| RustItem::Alias(a)) + structs@.map_values(|s: RustStruct| RustItem::Struct(s))
                  + enums@.map_values(|e: RustEnum| RustItem::Enum(e)) + consts@.map_values(|c: RustConst| RustItem::Const(c))''', 'compile': False},
        'o_flush': {'decl': 'fn outlined_flush(w: &mut WriteSink, body: &WriteSink) -> (r: std::io::Result<()>)', 'compile': False},
        'o_collect_go': {'decl': '''fn outlined_collect_items_go(aliases: Vec<RustTypeAlias>, structs: Vec<RustStruct>, enums: Vec<RustEnum>, consts: Vec<RustConst>) -> (r: Vec<RustItem>)
    ensures r@ == aliases@.map_values(|a: RustTypeAlias| RustItem::Alias(a)) + structs@.map_values(|s: RustStruct| RustItem::Struct(s))
                  + enums@.map_values(|e: RustEnum| RustItem::Enum(e)) + consts@.map_values(|c: RustConst| RustItem::Const(c))''', 'compile': False},
        'o_structtypes': {'decl': 'fn outlined_struct_types(items: &Vec<RustItem>) -> (r: StructTypes)', 'compile': False},
        'o_flush_go': {'decl': 'fn outlined_flush_go(w: &mut WriteSink, body: &WriteSink) -> (r: std::io::Result<()>)', 'compile': False},
        'o_unsup': {'decl': 'fn outlined_unsupported_const(c: &RustConst) -> (r: IoError)', 'compile': False},
        'o_collect': {'decl': '''fn outlined_collect_items(aliases: Vec<RustTypeAlias>, structs: Vec<RustStruct>, enums: Vec<RustEnum>, consts: Vec<RustConst>) -> (r: Vec<RustItem>)
    ensures r@ == aliases@.map_values(|a: RustTypeAlias| RustItem::Alias(a)) + structs@.map_values(|s: RustStruct| RustItem::Struct(s))
                  + enums@.map_values(|e: RustEnum| RustItem::Enum(e)) + consts@.map_values(|c: RustConst| RustItem::Const(c))''', 'compile': False},
    },
    functions=['Language::generate_types', 'ScalaGen::generate_types', 'PythonGen::generate_types', 'GoGen::generate_types'],
    trusted=[
        'stub trait `Language`: every writer method records exactly the item it is given in the ghost EmitLog (text emission is not under contract); '
        '`dyn Write` replaced by an opaque sink (T7)',
        'stub topsort(): reorders in place (multiset preserved) - the kernel of that claim is proved in unit topo, the glue is not',
        'outlined (T3): Vec::from_iter(aliases.map(Alias).chain(structs.map(Struct)).chain(enums..).chain(consts..)) is the concatenation in that order',
    ],
    undecided=[
        'that each write_* method emits one well-formed definition for its item (text emission)',
    ],
)


# ------------------------------------------------------------------------------------ witness search / replay
def native(workdir):
    import merge
    return merge.native(workdir)


native.__doc__ = 'same bounded search as unit merge (definition counts and bytes through the real generate_types): see merge.native'


def replay_args(inp):
    import merge
    return merge.replay_args(inp)
