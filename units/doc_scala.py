"""U-doc_scala: Scala::write_comment / write_comments (see doccommon)."""
import doccommon as D

UNIT = D.make_unit('doc_scala', 'Scala', 'core/src/language/scala.rs', 'impl Scala {')


def native(workdir):
    import docsearch
    return docsearch.native(workdir)


def replay_args(inp):
    import docsearch
    return docsearch.replay_args(inp)
