"""U-topo: core/src/topsort.rs :: toposort_impl (+ nested inner), sort_by_indices<T>, and the call site in topsort.
Serves C11 (permutation; topological on DAGs), C07 (no panic, terminates), C03 (reordering conserves items)."""
from rsx import A, ins, rep, drop
from vunit import Item, Unit

SRC = 'core/src/topsort.rs'

PRELUDE = r'''
// ---------- spec vocabulary (C11)
pub open spec fn wf(g: Seq<Vec<usize>>) -> bool {
    forall|i: int, j: int| 0 <= i < g.len() && 0 <= j < g[i]@.len() ==> (#[trigger] g[i]@[j]) < g.len()
}
pub open spec fn all_lt(s: Seq<usize>, n: int) -> bool { forall|i: int| 0 <= i < s.len() ==> (#[trigger] s[i]) < n }
pub open spec fn nodup(s: Seq<usize>) -> bool { forall|i: int, j: int| 0 <= i < s.len() && 0 <= j < s.len() && i != j ==> s[i] != s[j] }
pub open spec fn disjoint(a: Seq<usize>, b: Seq<usize>) -> bool { forall|i: int, j: int| 0 <= i < a.len() && 0 <= j < b.len() ==> a[i] != b[j] }
pub open spec fn is_prefix(a: Seq<usize>, b: Seq<usize>) -> bool { a.len() <= b.len() && b.subrange(0, a.len() as int) == a }
pub open spec fn is_rank(g: Seq<Vec<usize>>, rank: Seq<nat>) -> bool {
    rank.len() == g.len()
    && forall|v: int, j: int| 0 <= v < g.len() && 0 <= j < g[v]@.len() ==> rank[(#[trigger] g[v]@[j]) as int] < rank[v]
}
/// the reference graph has no cycle (self references included): some rank strictly decreases along every edge
pub open spec fn acyclic(g: Seq<Vec<usize>>) -> bool { exists|rank: Seq<nat>| is_rank(g, rank) }
pub open spec fn the_rank(g: Seq<Vec<usize>>) -> Seq<nat> { choose|rank: Seq<nat>| is_rank(g, rank) }
/// C11: every node has all the nodes it refers to strictly earlier in the sequence
pub open spec fn closed(g: Seq<Vec<usize>>, p: Seq<usize>) -> bool {
    forall|k: int, j: int| 0 <= k < p.len() && 0 <= j < g[p[k] as int]@.len()
        ==> p.subrange(0, k).contains(#[trigger] g[p[k] as int]@[j])
}
/// DFS stack has strictly decreasing rank and `nodes` are below the top
pub open spec fn stack_ok(g: Seq<Vec<usize>>, seen: Seq<usize>, nodes: Seq<usize>) -> bool {
    let r = the_rank(g);
    (forall|i: int, j: int| #![trigger seen[i], seen[j]] 0 <= i < j < seen.len() ==> r[seen[i] as int] > r[seen[j] as int])
    && (seen.len() > 0 ==> forall|k: int| 0 <= k < nodes.len() ==> r[(#[trigger] nodes[k]) as int] < r[seen[seen.len() - 1] as int])
}
pub open spec fn range_seq(n: nat) -> Seq<usize> { Seq::new(n, |i: int| i as usize) }
/// C11 / C03: `p` is a permutation of 0..n
pub open spec fn is_perm(p: Seq<usize>, n: int) -> bool {
    p.len() == n
    && (forall|i: int| 0 <= i < n ==> (#[trigger] p[i]) < n)
    && (forall|i: int, j: int| 0 <= i < n && 0 <= j < n && i != j ==> p[i] != p[j])
}

// ---------- pigeonhole
proof fn lemma_len_le(s: Seq<usize>, n: int)
    requires nodup(s), all_lt(s, n), 0 <= n <= usize::MAX
    ensures s.len() <= n
    decreases n
{
    if s.len() == 0 { return; }
    if n == 0 { assert(s[0] < 0); return; }
    let v = (n - 1) as usize;
    if s.contains(v) {
        let idx = choose|i: int| 0 <= i < s.len() && s[i] == v;
        let t = s.remove(idx);
        assert forall|i: int| 0 <= i < t.len() implies (#[trigger] t[i]) < n - 1 by {
            let si = if i < idx { i } else { i + 1 };
            assert(t[i] == s[si]);
            assert(s[si] < n);
            if s[si] == v { assert(si == idx); }
        }
        assert(nodup(t)) by {
            assert forall|i: int, j: int| 0 <= i < t.len() && 0 <= j < t.len() && i != j implies t[i] != t[j] by {
                let si = if i < idx { i } else { i + 1 };
                let sj = if j < idx { j } else { j + 1 };
                assert(t[i] == s[si] && t[j] == s[sj]);
            }
        }
        lemma_len_le(t, n - 1);
    } else {
        assert forall|i: int| 0 <= i < s.len() implies (#[trigger] s[i]) < n - 1 by {
            assert(s[i] < n);
            if s[i] == v { assert(s.contains(v)); }
        }
        lemma_len_le(s, n - 1);
    }
}

proof fn lemma_len_eq(s: Seq<usize>, n: int)
    requires nodup(s), all_lt(s, n), 0 <= n <= usize::MAX, forall|v: usize| 0 <= v < n ==> s.contains(v)
    ensures s.len() == n
    decreases n
{
    if n == 0 { lemma_len_le(s, 0); return; }
    let v = (n - 1) as usize;
    assert(s.contains(v));
    let idx = choose|i: int| 0 <= i < s.len() && s[i] == v;
    let t = s.remove(idx);
    assert forall|i: int| 0 <= i < t.len() implies (#[trigger] t[i]) < n - 1 by {
        let si = if i < idx { i } else { i + 1 };
        assert(t[i] == s[si]);
        assert(s[si] < n);
        if s[si] == v { assert(si == idx); }
    }
    assert(nodup(t)) by {
        assert forall|i: int, j: int| 0 <= i < t.len() && 0 <= j < t.len() && i != j implies t[i] != t[j] by {
            let si = if i < idx { i } else { i + 1 };
            let sj = if j < idx { j } else { j + 1 };
            assert(t[i] == s[si] && t[j] == s[sj]);
        }
    }
    assert forall|w: usize| 0 <= w < n - 1 implies t.contains(w) by {
        assert(s.contains(w));
        let k = choose|i: int| 0 <= i < s.len() && s[i] == w;
        assert(k != idx);
        let tk = if k < idx { k } else { k - 1 };
        assert(t[tk] == w);
    }
    lemma_len_eq(t, n - 1);
}

// ---------- sort_by_indices vocabulary
pub open spec fn undone(ind: Seq<usize>, k: int) -> nat
    decreases k
{
    if k <= 0 { 0 } else { undone(ind, k - 1) + if ind[k - 1] != k - 1 { 1nat } else { 0nat } }
}
proof fn lemma_undone_same(a: Seq<usize>, b: Seq<usize>, k: int)
    requires 0 <= k <= a.len(), a.len() == b.len(), forall|j: int| 0 <= j < k ==> a[j] == b[j]
    ensures undone(a, k) == undone(b, k)
    decreases k
{
    if k > 0 { lemma_undone_same(a, b, k - 1); }
}
proof fn lemma_undone_step(ind: Seq<usize>, c: usize, k: int)
    requires 0 <= c < k <= ind.len(), ind[c as int] != c
    ensures undone(ind.update(c as int, c), k) < undone(ind, k)
    decreases k
{
    let upd = ind.update(c as int, c);
    if c == k - 1 {
        lemma_undone_same(ind, upd, k - 1);
    } else {
        lemma_undone_step(ind, c, k - 1);
        assert(upd[k - 1] == ind[k - 1]);
    }
}
/// state invariant relative to original permutation p and original data d
pub open spec fn st<T>(p: Seq<usize>, d: Seq<T>, ind: Seq<usize>, data: Seq<T>) -> bool {
    let n = p.len() as int;
    ind.len() == n && data.len() == n && d.len() == n
    && (forall|j: int| 0 <= j < n ==> (#[trigger] ind[j]) == j || ind[j] == p[j])
    && (forall|j: int| 0 <= j < n && (#[trigger] ind[j]) == j ==> data[j] == d[p[j] as int])
    && (forall|j: int| 0 <= j < n && (#[trigger] ind[j]) != j ==> data[j] == d[j])
    && (forall|j: int| 0 <= j < n && ind[(#[trigger] p[j]) as int] == p[j] ==> ind[j] == j)
}

// ---------- opaque stand-in for the item type at the call site (T7)
#[verifier::external_body]
pub struct RustItem { _p: u8 }
'''

TOPOSORT_EDITS = [
    # ---- outer contract: the C11 statement
    ins(A.ret(), '(ret: ', where='before'), ins(A.ret(), ')', where='after'),
    ins(A.sig(), '''
    requires wf(graph@)
    ensures
        /*C11-C03-perm*/ is_perm(ret@, graph@.len() as int),
        /*C11-topo*/ acyclic(graph@) ==> closed(graph@, ret@),
''', cid='toposort_impl.contract'),
    # ---- inner contract
    ins(A.sig(fn='inner'), '''
        requires
            wf(graph@), all_lt(nodes@, graph@.len() as int), graph@.len() <= usize::MAX,
            old(res)@ == old(processed)@,
            nodup(old(processed)@), all_lt(old(processed)@, graph@.len() as int),
            nodup(old(seen)@), all_lt(old(seen)@, graph@.len() as int),
            disjoint(old(seen)@, old(processed)@),
            /*C11-topo*/ acyclic(graph@) ==> stack_ok(graph@, old(seen)@, nodes@),
            /*C11-topo*/ acyclic(graph@) ==> closed(graph@, old(processed)@),
        ensures
            /*C11-C03*/ final(seen)@ == old(seen)@,
            /*C11-C03*/ final(res)@ == final(processed)@,
            /*C11-C03*/ is_prefix(old(processed)@, final(processed)@),
            /*C11-C03*/ nodup(final(processed)@), all_lt(final(processed)@, graph@.len() as int),
            /*C11-C03*/ disjoint(old(seen)@, final(processed)@),
            /*C11-C03*/ (old(seen)@.len() == 0 || acyclic(graph@)) ==> forall|k: int| 0 <= k < nodes@.len() ==> final(processed)@.contains(#[trigger] nodes@[k]),
            /*C11-topo*/ acyclic(graph@) ==> closed(graph@, final(processed)@),
        decreases graph@.len() - old(seen)@.len()
''', cid='inner.contract'),
    ins(A.body_start(fn='inner'), '''
        let ghost seen0 = seen@;
        let ghost proc0 = processed@;
        let ghost n = graph@.len() as int;
        proof {
            lemma_len_le(seen0, n);
            assert(proc0.subrange(0, proc0.len() as int) =~= proc0);
        }
'''),
    ins(A.text('for dependant in'), ' it:'),
    ins(A.loop(0, fn='inner'), '''
            invariant
                seen0 == old(seen)@, proc0 == old(processed)@, n <= usize::MAX,
                n == graph@.len(), wf(graph@), all_lt(nodes@, n),
                seen@ == seen0, nodup(seen0), all_lt(seen0, n), seen0.len() <= n,
                res@ == processed@,
                is_prefix(proc0, processed@),
                nodup(processed@), all_lt(processed@, n),
                disjoint(seen0, processed@),
                /*C11-topo*/ acyclic(graph@) ==> stack_ok(graph@, seen0, nodes@),
                /*C11-topo*/ acyclic(graph@) ==> closed(graph@, processed@),
                /*C11-C03*/ (seen0.len() == 0 || acyclic(graph@)) ==> forall|k: int| 0 <= k < it.index@ ==> processed@.contains(#[trigger] nodes@[k]),
        ''', cid='inner.loop_invariant'),
    ins(A.text('if !processed.contains(dependant) {'), '''let ghost kidx = it.index@;
            let ghost proc1 = processed@;
            ''', where='before'),
    ins(A.text('return;'), '''proof {
                        // the cycle cut is unreachable when the stack is empty or the graph is acyclic
                        if acyclic(graph@) {
                            let r = the_rank(graph@);
                            let i = choose|i: int| 0 <= i < seen0.len() && seen0[i] == *dependant;
                            assert(nodes@[kidx] == *dependant);
                            assert(r[nodes@[kidx] as int] < r[seen0[seen0.len() - 1] as int]);
                            if i < seen0.len() - 1 {
                                assert(r[seen0[i] as int] > r[seen0[seen0.len() - 1] as int]);
                            }
                            assert(false);
                        }
                        assert(seen0.len() > 0);
                    }
                    ''', where='before'),
    ins(A.text('inner(graph, dependencies, res, processed, seen);'), '''proof {
                    let d = *dependant;
                    assert(seen@ == seen0.push(d));
                    assert(nodup(seen@)) by {
                        assert forall|i: int, j: int| 0 <= i < seen@.len() && 0 <= j < seen@.len() && i != j implies seen@[i] != seen@[j] by {
                            if i == seen0.len() { assert(seen0[j] != d) by { if seen0[j] == d { assert(seen0.contains(d)); } } }
                            else if j == seen0.len() { assert(seen0[i] != d) by { if seen0[i] == d { assert(seen0.contains(d)); } } }
                        }
                    }
                    assert(d < n);
                    assert(all_lt(seen@, n));
                    assert(disjoint(seen@, processed@)) by {
                        assert forall|i: int, j: int| 0 <= i < seen@.len() && 0 <= j < processed@.len() implies seen@[i] != processed@[j] by {
                            if i == seen0.len() { if processed@[j] == d { assert(processed@.contains(d)); } }
                        }
                    }
                    assert(all_lt(dependencies@, n));
                    if acyclic(graph@) {
                        let r = the_rank(graph@);
                        assert(is_rank(graph@, r));
                        assert(stack_ok(graph@, seen@, dependencies@)) by {
                            assert forall|i: int, j: int| #![trigger seen@[i], seen@[j]] 0 <= i < j < seen@.len() implies r[seen@[i] as int] > r[seen@[j] as int] by {
                                if j == seen0.len() {
                                    assert(r[nodes@[kidx] as int] < r[seen0[seen0.len() - 1] as int]);
                                    if i < seen0.len() - 1 { assert(r[seen0[i] as int] > r[seen0[seen0.len() - 1] as int]); }
                                }
                            }
                            assert forall|k: int| 0 <= k < dependencies@.len() implies r[(#[trigger] dependencies@[k]) as int] < r[seen@[seen@.len() - 1] as int] by {
                                assert(graph@[d as int]@[k] == dependencies@[k]);
                            }
                        }
                    }
                    lemma_len_le(seen@, n);
                }
                ''', where='before'),
    ins(A.text('inner(graph, dependencies, res, processed, seen);'), '''
                proof {
                    assert(seen@ == seen0.push(*dependant));
                    assert(seen@[seen0.len() as int] == *dependant);
                    assert(seen@.contains(*dependant));
                }''', where='after'),
    rep(A.text('seen.iter().position(|&other| other == *dependant)'), 'outlined_position(seen, dependant)',
        tag='T3', cid='o_position', note='closure parameter pattern |&other| is rejected by Verus'),
    ins(A.text('seen.remove(position);'), '''proof {
                        assert(position == seen0.len()) by {
                            if position < seen0.len() { assert(seen0[position as int] == *dependant); assert(seen0.contains(*dependant)); }
                        }
                    }
                    ''', where='before'),
    ins(A.text('seen.remove(position);'), '''
                    proof { assert(seen@ =~= seen0); }''', where='after'),
    ins(A.text('processed.push(*dependant);'), '''proof { assert(seen@ =~= seen0); }
                let ghost proc2 = processed@;
                ''', where='before'),
    ins(A.text('res.push(*dependant);'), '''
                proof {
                    let d = *dependant;
                    // d is not in proc2 because the recursive call kept seen0+[d] disjoint from processed
                    assert(!proc2.contains(d)) by {
                        if proc2.contains(d) {
                            let j = choose|j: int| 0 <= j < proc2.len() && proc2[j] == d;
                            assert(seen0.push(d)[seen0.len() as int] == d);
                        }
                    }
                    assert(nodup(processed@)) by {
                        assert forall|i: int, j: int| 0 <= i < processed@.len() && 0 <= j < processed@.len() && i != j implies processed@[i] != processed@[j] by {
                            if i == proc2.len() { if proc2[j] == d { assert(proc2.contains(d)); } }
                            else if j == proc2.len() { if proc2[i] == d { assert(proc2.contains(d)); } }
                        }
                    }
                    assert(is_prefix(proc0, processed@)) by {
                        assert(proc2.subrange(0, proc1.len() as int) == proc1);
                        assert(processed@.subrange(0, proc0.len() as int) =~= proc0);
                    }
                    assert(disjoint(seen0, processed@)) by {
                        assert forall|i: int, j: int| 0 <= i < seen0.len() && 0 <= j < processed@.len() implies seen0[i] != processed@[j] by {
                            if j == proc2.len() { if seen0[i] == d { assert(seen0.contains(d)); } }
                            else { assert(seen0.push(d)[i] == seen0[i]); }
                        }
                    }
                    if acyclic(graph@) {
                        assert(closed(graph@, processed@)) by {
                            assert forall|k: int, j: int| 0 <= k < processed@.len() && 0 <= j < graph@[processed@[k] as int]@.len()
                                implies processed@.subrange(0, k).contains(#[trigger] graph@[processed@[k] as int]@[j]) by {
                                if k < proc2.len() {
                                    assert(processed@.subrange(0, k) =~= proc2.subrange(0, k));
                                    assert(processed@[k] == proc2[k]);
                                } else {
                                    assert(processed@.subrange(0, k) =~= proc2);
                                    assert(dependencies@[j] == graph@[d as int]@[j]);
                                    assert(proc2.contains(dependencies@[j]));
                                }
                            }
                        }
                    }
                    if seen0.len() == 0 || acyclic(graph@) {
                        assert forall|k: int| 0 <= k < kidx + 1 implies processed@.contains(#[trigger] nodes@[k]) by {
                            if k < kidx {
                                assert(proc1.contains(nodes@[k]));
                                let q = choose|q: int| 0 <= q < proc1.len() && proc1[q] == nodes@[k];
                                assert(proc2.subrange(0, proc1.len() as int)[q] == proc1[q]);
                                assert(processed@[q] == nodes@[k]);
                            } else {
                                assert(processed@[proc2.len() as int] == d);
                            }
                        }
                    }
                }''', where='after'),
    # ---- outer body
    rep(A.text('(0..graph.len()).collect()'), 'outlined_range_collect(graph)', tag='T3', cid='o_range',
        note='Range::collect has no vstd specification'),
    ins(A.text('&mut seen,\n    );'), '''
    proof {
        let n = graph@.len() as int;
        assert(graph.len() == graph@.len());
        assert(n <= usize::MAX);
        assert forall|v: usize| 0 <= v < n implies processed@.contains(v) by {
            assert(range_seq(n as nat)[v as int] == v);
        }
        lemma_len_eq(processed@, n);
    }''', where='after'),
]

SORT_EDITS = [
    ins(A.sig(), '''
    requires is_perm(indices@, old(data)@.len() as int)
    ensures final(data)@.len() == old(data)@.len(),
            /*C11-C03-conserve*/ forall|i: int| 0 <= i < old(data)@.len() ==> (#[trigger] final(data)@[i]) == old(data)@[indices@[i] as int],
''', cid='sort_by_indices.contract'),
    ins(A.body_start(), '''
    let ghost p = indices@;
    let ghost d = data@;
    let ghost n = data@.len() as int;
'''),
    ins(A.text('for idx in'), ' it:'),
    ins(A.loop(0), '''
        invariant
            it.iter.end == n,
            is_perm(p, n), n == d.len(), data@.len() == n,
            st(p, d, indices@, data@),
            forall|j: int| 0 <= j < idx ==> (#[trigger] indices@[j]) == j,
    ''', cid='sort_by_indices.outer_invariant'),
    ins(A.text('let mut current_idx = idx;'), '''
            let ghost start = idx as int;''', where='after'),
    ins(A.loop(1), '''
                invariant_except_break
                    0 <= current_idx < n,
                    forall|j: int| 0 <= j < n ==> (#[trigger] indices@[j]) == j || indices@[j] == p[j],
                    indices@[current_idx as int] != current_idx,
                    forall|j: int| 0 <= j < n && (#[trigger] indices@[j]) == j ==> data@[j] == d[p[j] as int],
                    forall|j: int| 0 <= j < n && (#[trigger] indices@[j]) != j && j != current_idx ==> data@[j] == d[j],
                    data@[current_idx as int] == d[start],
                    forall|j: int| 0 <= j < n && indices@[(#[trigger] p[j]) as int] == p[j] && p[j] != start ==> indices@[j] == j,
                    current_idx != start ==> indices@[start] == start,
                    current_idx != start ==> (forall|j: int| 0 <= j < n && (#[trigger] p[j]) == current_idx ==> indices@[j] == j),
                invariant
                    is_perm(p, n), n == d.len(), data@.len() == n, indices@.len() == n,
                    0 <= start < n, start == idx,
                    forall|j: int| 0 <= j < idx ==> (#[trigger] indices@[j]) == j,
                ensures
                    st(p, d, indices@, data@),
                    indices@[start] == start,
                decreases undone(indices@, n)
            ''', cid='sort_by_indices.cycle_invariant'),
    ins(A.text('let target_idx = indices[current_idx];'), '''let ghost ind0 = indices@;
                ''', where='before'),
    ins(A.text('indices[current_idx] = current_idx;'), '''
                proof {
                    lemma_undone_step(ind0, current_idx, n);
                    assert(indices@ =~= ind0.update(current_idx as int, current_idx));
                    assert(target_idx == p[current_idx as int]);
                    assert(target_idx != current_idx);
                }''', where='after'),
    ins(A.text('break;'), '''proof {
                        // the closing element of a cycle is the position it started from
                        assert(ind0[target_idx as int] == target_idx);
                        assert(target_idx == start) by {
                            if target_idx != start {
                                assert(ind0[p[current_idx as int] as int] == p[current_idx as int]);
                                assert(ind0[current_idx as int] == current_idx);
                            }
                        }
                        assert(current_idx != start);
                    }
                    ''', where='before'),
]

TOPSORT_CALLER_EDITS = [
    # everything in `topsort` before the final call builds `dag` with HashMap::from_iter / iterator chains over
    # RustItem (syn-free but closure/adaptor code Verus rejects): outlined as a whole, contract ASSUMED.
    rep(A.text('''let types = HashMap::from_iter(things.iter().map(|thing| {'''), 'let dag: Vec<Vec<usize>> = outlined_build_dag(things); /* {',
        tag='T3', cid=None, note='open a block comment over the dag construction'),
    ins(A.text('sort_by_indices(things, toposort_impl(&dag));'), '*/ ', where='before', tag='T3'),
]

UNIT = Unit(
    name='topo',
    props=['C11', 'C07', 'C03'],
    spec_files=['std_slices.rs'],
    prelude=PRELUDE,
    items=[
        Item('toposort_impl', SRC, ['fn toposort_impl'], TOPOSORT_EDITS),
        Item('sort_by_indices', SRC, ['fn sort_by_indices'], SORT_EDITS),
    ],
    outlines={
        'o_position': '''fn outlined_position(seen: &Vec<usize>, dependant: &usize) -> (r: Option<usize>)
  ensures match r {
      Some(p) => p < seen@.len() && seen@[p as int] == *dependant && forall|j: int| 0 <= j < p ==> seen@[j] != *dependant,
      None => !seen@.contains(*dependant) }''',
        'o_range': '''fn outlined_range_collect(graph: &Vec<Vec<usize>>) -> (r: Vec<usize>)
  ensures r@ == range_seq(graph@.len() as nat)''',
    },
    epilogue=r'''
/// composition (C07/C11): what toposort_impl guarantees is what sort_by_indices requires
proof fn lemma_compose(graph: Seq<Vec<usize>>, ret: Seq<usize>, data_len: int)
    requires is_perm(ret, graph.len() as int), data_len == graph.len()
    ensures is_perm(ret, data_len)
{}
''',
    functions=['toposort_impl', 'toposort_impl::inner', 'sort_by_indices', 'lemma_len_le', 'lemma_len_eq',
               'lemma_undone_same', 'lemma_undone_step', 'lemma_compose'],
    trusted=[
        'std: <[T]>::contains(x) == exists i. s[i] == x; <[T]>::swap exchanges two in-range positions (std docs)',
        'outlined (T3): `seen.iter().position(|&other| other == *dependant)` returns the first index holding the value, None if absent',
        'outlined (T3): `(0..n).collect()` is the sequence 0,1,..,n-1',
    ],
    undecided=[
        'the glue in topsort() that turns collected names into graph indices (HashMap::from_iter, get_index, iterator chains); the '
        'collector itself is under contract in unit deps',
        'that each backend writes one definition per element of the reordered slice (text emission)',
    ],
)


# ------------------------------------------------------------------------------------ witness search / replay
NATIVE_MAIN = r'''
use std::sync::atomic::{AtomicU64, Ordering};
use std::sync::{Arc, Mutex};
static TICK: AtomicU64 = AtomicU64::new(0);

fn acyclic(g: &Vec<Vec<usize>>) -> bool {
    // independent check (Kahn): repeatedly remove nodes all of whose references are removed
    let n = g.len();
    let mut done = vec![false; n];
    loop {
        let mut progress = false;
        for v in 0..n {
            if !done[v] && g[v].iter().all(|d| *d != v && done[*d]) { done[v] = true; progress = true; }
        }
        if !progress { break; }
    }
    done.iter().all(|d| *d)
}

fn check(g: &Vec<Vec<usize>>) -> Option<String> {
    let n = g.len();
    let gg = g.clone();
    let r = match std::panic::catch_unwind(move || toposort_impl(&gg)) {
        Ok(r) => r, Err(_) => return Some("toposort_impl panicked".into()) };
    let mut cnt = vec![0usize; n];
    if r.len() != n { return Some(format!("result {:?} is not a permutation of 0..{}", r, n)); }
    for x in &r { if *x >= n { return Some(format!("result {:?} out of range", r)); } cnt[*x] += 1; }
    if cnt.iter().any(|c| *c != 1) { return Some(format!("result {:?} is not a permutation (lost/duplicated definition)", r)); }
    if acyclic(g) {
        for (p, v) in r.iter().enumerate() {
            for d in &g[*v] { if !r[..p].contains(d) { return Some(format!("order {:?}: item {} emitted before item {} it refers to", r, v, d)); } }
        }
    }
    let orig: Vec<usize> = (0..n).map(|i| 100 + i).collect();
    let mut data = orig.clone();
    let rr = r.clone();
    let res = std::panic::catch_unwind(move || { sort_by_indices(&mut data[..], rr); data });
    match res {
        Err(_) => return Some("sort_by_indices panicked".into()),
        Ok(data) => for i in 0..n { if data[i] != orig[r[i]] { return Some(format!("sort_by_indices: data {:?} != orig permuted by {:?}", data, r)); } }
    }
    // sort_by_indices on every permutation is covered by perm_check below
    None
}

fn perm_check(p: &Vec<usize>) -> Option<String> {
    let n = p.len();
    let orig: Vec<usize> = (0..n).map(|i| 100 + i).collect();
    let mut data = orig.clone();
    let pp = p.clone();
    match std::panic::catch_unwind(move || { sort_by_indices(&mut data[..], pp); data }) {
        Err(_) => Some("sort_by_indices panicked".into()),
        Ok(data) => { for i in 0..n { if data[i] != orig[p[i]] { return Some(format!("sort_by_indices: got {:?}, expected orig permuted by {:?}", data, p)); } } None }
    }
}

fn json(g: &Vec<Vec<usize>>) -> String { format!("{:?}", g) }

fn permutations(n: usize) -> Vec<Vec<usize>> {
    if n == 0 { return vec![vec![]]; }
    let mut out = vec![];
    for p in permutations(n - 1) { for pos in 0..n { let mut q = p.clone(); q.insert(pos, n - 1); out.push(q); } }
    out
}

fn main() {
    std::panic::set_hook(Box::new(|_| {}));
    let args: Vec<String> = std::env::args().collect();
    let cur: Arc<Mutex<String>> = Arc::new(Mutex::new(String::new()));
    { // watchdog: a call that does not return within 3 s is reported as a hang on the current input
        let cur = cur.clone();
        std::thread::spawn(move || { let mut last = 0; let mut same = 0; loop {
            std::thread::sleep(std::time::Duration::from_millis(500));
            let t = TICK.load(Ordering::SeqCst);
            if t == last { same += 1 } else { same = 0; last = t }
            if same >= 6 { println!("WITNESS {{\"input\": {}, \"fails\": \"does not terminate (no return within 3 s)\"}}", cur.lock().unwrap()); std::process::exit(1); }
        }});
    }
    let mut try_graph = |g: &Vec<Vec<usize>>| -> bool {
        *cur.lock().unwrap() = format!("{{\"graph\": {}}}", json(g));
        TICK.fetch_add(1, Ordering::SeqCst);
        if let Some(m) = check(g) { println!("WITNESS {{\"input\": {{\"graph\": {}}}, \"fails\": {:?}}}", json(g), m); return true; }
        false
    };
    if args.len() >= 3 && args[1] == "check" {
        // input: {"graph": [[..],..]} or {"perm": [..]}
        let s = &args[2];
        let nums = |t: &str| -> Vec<usize> { t.split(|c: char| !c.is_ascii_digit()).filter(|x| !x.is_empty()).map(|x| x.parse().unwrap()).collect() };
        if s.contains("perm") {
            let p = nums(s);
            if let Some(m) = perm_check(&p) { println!("WITNESS {{\"input\": {{\"perm\": {:?}}}, \"fails\": {:?}}}", p, m); std::process::exit(1); }
            println!("input passes"); return;
        }
        let body = &s[s.find('[').unwrap() + 1..s.rfind(']').unwrap()];
        let mut g: Vec<Vec<usize>> = vec![];
        let mut depth = 0; let mut curs = String::new();
        for ch in body.chars() { match ch { '[' => { depth += 1; curs.clear(); } ']' => { depth -= 1; g.push(nums(&curs)); } _ => if depth > 0 { curs.push(ch) } } }
        if try_graph(&g) { std::process::exit(1); }
        println!("input passes"); return;
    }
    // search: all graphs with n <= 4 (every adjacency subset, self loops included), then all permutations n <= 6
    let mut tried = 0u64;
    for n in 0..=4usize {
        let bits = n * n;
        for code in 0..(1u64 << bits) {
            let g: Vec<Vec<usize>> = (0..n).map(|v| (0..n).filter(|d| (code >> (v * n + d)) & 1 == 1).collect()).collect();
            tried += 1;
            if try_graph(&g) { std::process::exit(1); }
            // same edges in reverse listing order (source order of references varies)
            let gr: Vec<Vec<usize>> = g.iter().map(|a| a.iter().rev().cloned().collect()).collect();
            if try_graph(&gr) { std::process::exit(1); }
        }
    }
    if std::env::var("VERIF_TIER").map_or(false, |t| t == "thorough") {
        // thorough: 400 000 pseudo-random graphs with 5..=7 nodes (xorshift seeded by VERIF_SEED), out-degree <= 3
        let mut x: u64 = std::env::var("VERIF_SEED").ok().and_then(|s| s.parse().ok()).unwrap_or(0u64).wrapping_mul(0x9E3779B97F4A7C15) | 1;
        let mut rnd = move || { x ^= x << 13; x ^= x >> 7; x ^= x << 17; x };
        for _ in 0..400_000u32 {
            let n = 5 + (rnd() % 3) as usize;
            let g: Vec<Vec<usize>> = (0..n).map(|_| { let d = (rnd() % 4) as usize; (0..d).map(|_| (rnd() % n as u64) as usize).collect() }).collect();
            tried += 1;
            if try_graph(&g) { std::process::exit(1); }
        }
    }
    for n in 0..=6usize { for p in permutations(n) {
        *cur.lock().unwrap() = format!("{{\"perm\": {:?}}}", p);
        TICK.fetch_add(1, Ordering::SeqCst);
        tried += 1;
        if let Some(m) = perm_check(&p) { println!("WITNESS {{\"input\": {{\"perm\": {:?}}}, \"fails\": {:?}}}", p, m); std::process::exit(1); }
    } }
    println!("no failing input among {} graphs (n<=4) / permutations (n<=6)", tried);
}
'''


def native_source(raw):
    """bound: the un-annotated CURRENT text of toposort_impl and sort_by_indices compiled natively: every graph with n <= 4 nodes
    (all adjacency subsets, self loops included, both listing orders), every permutation with n <= 6; a call that does not
    return within 3 s counts as a hang."""
    return ('#![allow(dead_code, unused)]\n' + raw('toposort_impl') + '\n' + raw('sort_by_indices').replace('pub(crate) ', '', 1)
            + '\n' + NATIVE_MAIN)


def replay_args(inp):
    import json
    return [json.dumps(inp)]
