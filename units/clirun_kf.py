"""known-finding witnesses that are replayed on the real `typeshare` binary (units/clirun.py)"""
import json
import os
import subprocess

import clirun


def replay_known(kf, workdir):
    w = kf['witness']
    pr = subprocess.run(['python3', os.path.join(clirun.HERE, 'clirun.py'), w['scenario'], 'check', json.dumps(w['input'])],
                        capture_output=True, text=True, timeout=900)
    return pr.returncode == 1 and 'WITNESS ' in pr.stdout
