"""bounded stand-in: scenario 'unsupported' of units/clirun.py on the real `typeshare` binary built from /repo"""
import json
import os

import clirun


def native(workdir):
    w = os.path.join(workdir, 'native_cli_unsupported.sh')
    with open(w, 'w') as f:
        f.write('#!/bin/sh\nexec python3 %s unsupported "$@"\n' % os.path.join(clirun.HERE, 'clirun.py'))
    os.chmod(w, 0o755)
    return w, ''


native.__doc__ = clirun.SCENARIOS['unsupported'].__doc__


def replay_args(inp):
    return [json.dumps(inp)]
