"""U-os: core/src/target_os_check.rs :: TargetOsIterator::next (scope propagation over opaque syn::Meta) and accept_target_os
(early return, decision rule) - verbatim, with the syn-facing expressions outlined.  Serves C13 (kernel), C07."""
from rsx import A, ins, rep, drop
from vunit import Item, Unit

SRC = 'core/src/target_os_check.rs'

PRELUDE = r'''
// ---- T7: opaque stand-ins for syn types; their meaning enters only through uninterpreted spec functions
#[verifier::external_body] pub struct SynPath { _p: u8 }
#[verifier::external_body] pub struct MetaList { _p: u8 }
#[verifier::external_body] pub struct MetaNameValue { _p: u8 }
#[verifier::external_body] pub struct Attribute { _p: u8 }
/// same variants as syn::Meta
pub enum Meta { Path(SynPath), List(MetaList), NameValue(MetaNameValue) }

uninterp spec fn meta_is_not(m: Meta) -> bool;                     // meta.path().is_ident("not")
uninterp spec fn list_children(l: MetaList) -> Option<Seq<Meta>>;  // parse_args_with(..).ok()
uninterp spec fn nv_target_os(nv: MetaNameValue) -> Option<Seq<char>>;  // Some(os) iff `target_os = "os"`
uninterp spec fn size(m: Meta) -> nat;                             // token trees are finite

spec fn stack_size(s: Seq<(TargetScope, Meta)>) -> nat
    decreases s.len()
{ if s.len() == 0 { 0 } else { stack_size(s.drop_last()) + size(s.last().1) + 1 } }
spec fn with_scope(cs: Seq<Meta>, sc: TargetScope) -> Seq<(TargetScope, Meta)> { cs.map_values(|m: Meta| (sc, m)) }
spec fn children_size(cs: Seq<Meta>) -> nat
    decreases cs.len()
{ if cs.len() == 0 { 0 } else { children_size(cs.drop_last()) + size(cs.last()) + 1 } }

/// ASSUMED: a list is strictly bigger than all its children together (finite token trees)
#[verifier::external_body]
proof fn axiom_children_smaller(l: MetaList)
    requires list_children(l) is Some
    ensures children_size(list_children(l)->Some_0) < size(Meta::List(l))
{}

proof fn lemma_stack_size_append(a: Seq<(TargetScope, Meta)>, cs: Seq<Meta>, sc: TargetScope)
    ensures stack_size(a + with_scope(cs, sc)) == stack_size(a) + children_size(cs)
    decreases cs.len()
{
    let b = with_scope(cs, sc);
    if cs.len() == 0 {
        assert(a + b =~= a);
    } else {
        let cs1 = cs.drop_last();
        lemma_stack_size_append(a, cs1, sc);
        assert((a + b).drop_last() =~= a + with_scope(cs1, sc));
        assert((a + b).last() == (sc, cs.last()));
    }
}

/// C13: a node named `not` puts everything below it into the Reject scope; otherwise the scope is inherited
spec fn eff(sc: TargetScope, m: Meta) -> TargetScope { if meta_is_not(m) { TargetScope::Reject } else { sc } }

/// what the iterator will yield from this stack, in order: every `target_os = "x"` leaf with Reject iff it or one of its
/// ancestors (up to the pushed node) is `not`, or the pushed scope was already Reject
spec fn yields(s: Seq<(TargetScope, Meta)>) -> Seq<(TargetScope, Seq<char>)>
    decreases stack_size(s)
    via yields_dec
{
    if s.len() == 0 { seq![] } else {
        let (sc0, m) = s.last();
        let rest = s.drop_last();
        let sc = eff(sc0, m);
        match m {
            Meta::Path(_) => yields(rest),
            Meta::List(l) => match list_children(l) {
                None => seq![],   // an unparsable nested list ends the iteration (recorded exception)
                Some(cs) => yields(rest + with_scope(cs, sc)),
            },
            Meta::NameValue(nv) => match nv_target_os(nv) {
                Some(os) => seq![(sc, os)] + yields(rest),
                None => yields(rest),
            },
        }
    }
}
#[via_fn]
proof fn yields_dec(s: Seq<(TargetScope, Meta)>) {
    if s.len() != 0 {
        let (sc0, m) = s.last();
        let rest = s.drop_last();
        if let Meta::List(l) = m {
            if let Some(cs) = list_children(l) {
                axiom_children_smaller(l);
                lemma_stack_size_append(rest, cs, eff(sc0, m));
            }
        }
    }
}

// ---- accept_target_os: the two lists the syn plumbing produces are uninterpreted functions of the attributes
uninterp spec fn accepted_names(attrs: Seq<Attribute>) -> Seq<Seq<char>>;   // OS names outside not(...)
uninterp spec fn rejected_names(attrs: Seq<Attribute>) -> Seq<Seq<char>>;   // OS names inside not(...)
spec fn names_of(v: Seq<(TargetScope, String)>) -> Seq<Seq<char>> { v.map_values(|p: (TargetScope, String)| p.1@) }
spec fn any_in(targets: Seq<String>, names: Seq<Seq<char>>) -> bool {
    exists|i: int, j: int| 0 <= i < targets.len() && 0 <= j < names.len() && (#[trigger] targets[i])@ == #[trigger] names[j]
}
/// `#[serde(skip)]` or `#[typeshare(skip)]` present (syn walk: uninterpreted)
uninterp spec fn has_skip_marker(attrs: Seq<Attribute>) -> bool;
/// C13, the documented rule: no filtering without --target-os; otherwise generated iff no OS named inside not(..) is a
/// target and, if any OS is named outside not(..), at least one of those is a target
spec fn target_os_rule(targets: Seq<String>, accepted: Seq<Seq<char>>, rejected: Seq<Seq<char>>) -> bool {
    targets.len() == 0 || (!any_in(targets, rejected) && (accepted.len() == 0 || any_in(targets, accepted)))
}
'''

NEXT = [
    rep(A.text('Option<Self::Item>'), 'Option<(TargetScope, String)>', tag='T2', note='associated type of the Iterator impl, re-homed'),
    ins(A.ret(), '(r: ', where='before'), ins(A.ret(), ')', where='after'),
    ins(A.sig(), '''
        ensures match r {
            Some(x) => yields(old(self).meta@).len() > 0
                       && /*C13 scope*/ (x.0, x.1@) == yields(old(self).meta@)[0]
                       && yields(final(self).meta@) == yields(old(self).meta@).drop_first(),
            None => yields(old(self).meta@).len() == 0,
        }
    ''', cid='next.contract'),
    ins(A.body_start(), '''
        let ghost y0 = yields(self.meta@);'''),
    ins(A.loop(0), '''
            invariant yields(self.meta@) == y0, y0 == yields(old(self).meta@)
            ensures y0.len() == 0
            decreases stack_size(self.meta@)
        ''', cid='next.invariant'),
    ins(A.loop_body(0), '''
            let ghost before = self.meta@.push((scope, meta));
            proof { assert(before.drop_last() =~= self.meta@); assert(before.last() == (scope, meta)); }'''),
    rep(A.text('meta.path().is_ident("not")'), 'outlined_is_not(&meta)', tag='T3', cid='o_isnot'),
    drop(A.text('debug!("encountered not");'), tag='T6'),
    drop(A.span('if log_enabled!(log::Level::Warn) {', 'p.into_token_stream() ); }'), tag='T6'),
    ins(A.text('let nested_meta_list ='), '''proof { assert(yields(before) == y0); if list_children(meta_list) is None { assert(yields(before) =~= seq![]); } }
                    ''', where='before'),
    rep(A.span('meta_list .parse_args_with', '.ok()'), 'outlined_parse_nested(meta_list)', tag='T3', cid='o_parse'),
    drop(A.text('debug!("\\texpanding with {} meta", nested_meta_list.len());'), tag='T6'),
    ins(A.text('self.meta .extend('), '''proof {
                        axiom_children_smaller(meta_list);
                        lemma_stack_size_append(self.meta@, nested_meta_list@, scope);
                    }
                    ''', where='before'),
    rep(A.span('self.meta .extend(', '.map(|meta| (scope, meta)))'), 'outlined_extend(&mut self.meta, nested_meta_list, scope)', tag='T3', cid='o_extend'),
    drop(A.text('debug!("\\tworking with NameValue: {nv:?}");'), tag='T6'),
    rep(A.span('nv.path .is_ident("target_os")', '_ => None, })'), 'outlined_nv_value(nv)', tag='T3', cid='o_nv'),
    ins(A.text('return Some((scope, value));'), '''proof {
                            assert(yields(before) == y0);
                            assert(y0 == seq![(scope, value@)] + yields(self.meta@));
                            assert((seq![(scope, value@)] + yields(self.meta@)).drop_first() =~= yields(self.meta@));
                        }
                        ''', where='before'),
]

ACCEPT = [
    ins(A.ret(), '(r: ', where='before'), ins(A.ret(), ')', where='after'),
    ins(A.sig(), '''
    ensures /*C13*/ r == target_os_rule(target_os@, accepted_names(attrs@), rejected_names(attrs@)),
''', cid='accept_target_os.contract'),
    rep(A.span('attrs .iter() .inspect(', 'TargetScope::Reject => false, })'), 'outlined_partition(attrs, target_os)', tag='T3', cid='o_partition'),
    drop(A.text('debug!("accepted: {accepted:?}, rejected: {rejected:?}");'), tag='T6'),
    ins(A.text('let is_rejected = ||'), ' -> (b: bool) ensures b == any_in(target_os@, names_of(rejected@))', where='after'),
    rep(A.span('target_os .iter() .any(|target| rejected.iter()', 'target == rejected))'), 'outlined_any_rejected(target_os, &rejected)', tag='T3', cid='o_anyrej'),
    ins(A.text('let is_accepted = ||'), ' -> (b: bool) ensures b == (accepted@.len() == 0 || any_in(target_os@, names_of(accepted@)))', where='after'),
    rep(A.span('target_os .iter() .any(|target| accepted.iter()', 'accepted == target))'), 'outlined_any_accepted(target_os, &accepted)', tag='T3', cid='o_anyacc'),
]

SKIP = [
    ins(A.ret(), '(r: ', where='before'), ins(A.ret(), ')', where='after'),
    ins(A.sig(), '''
    ensures /*C13 at variant / field / struct-variant-field level; C03 skip markers*/
        r == (has_skip_marker(attrs@) || !target_os_rule(target_os@, accepted_names(attrs@), rejected_names(attrs@))),
''', cid='is_skipped.contract'),
    rep(A.span('attrs.iter().any(|attr| {', 'if path.is_ident("skip"))) })'), 'outlined_has_skip(attrs)', tag='T3', cid='o_skip'),
]

NC = {'compile': False}
UNIT = Unit(
    name='tos',
    pre_verus='pub mod syn { pub use crate::Attribute; }\n',
    props=['C13', 'C07'],
    prelude=PRELUDE,
    items=[
        Item('enum_TargetScope', SRC, ['enum TargetScope']),
        Item('struct_TargetOsIterator', SRC, ['struct TargetOsIterator']),
        Item('next', SRC, ['impl Iterator for TargetOsIterator {', 'fn next'], NEXT,
             wrap=('impl TargetOsIterator { // T2: re-homed from `impl Iterator for TargetOsIterator`\n', '\n}\n')),
        Item('accept_target_os', SRC, ['fn accept_target_os'], ACCEPT),
        Item('is_skipped', 'core/src/parser.rs', ['fn is_skipped'], SKIP),
    ],
    outlines={
        'o_skip': dict(NC, decl='''fn outlined_has_skip(attrs: &[syn::Attribute]) -> (r: bool)
    ensures r == has_skip_marker(attrs@)'''),
        'o_isnot': dict(NC, decl='fn outlined_is_not(meta: &Meta) -> (r: bool)\n    ensures r == meta_is_not(*meta)'),
        'o_parse': dict(NC, decl='''fn outlined_parse_nested(meta_list: MetaList) -> (r: Option<Vec<Meta>>)
    ensures match r { Some(v) => list_children(meta_list) == Some(v@), None => list_children(meta_list) is None }'''),
        'o_extend': dict(NC, decl='''fn outlined_extend(stack: &mut Vec<(TargetScope, Meta)>, nested_meta_list: Vec<Meta>, scope: TargetScope)
    ensures final(stack)@ == old(stack)@ + with_scope(nested_meta_list@, scope)'''),
        'o_nv': dict(NC, decl='''fn outlined_nv_value(nv: MetaNameValue) -> (r: Option<String>)
    ensures match r { Some(s) => nv_target_os(nv) == Some(s@), None => nv_target_os(nv) is None }'''),
        'o_partition': dict(NC, decl='''fn outlined_partition(attrs: &[Attribute], target_os: &[String]) -> (r: (Vec<(TargetScope, String)>, Vec<(TargetScope, String)>))
    ensures names_of(r.0@) == accepted_names(attrs@), names_of(r.1@) == rejected_names(attrs@)'''),
        'o_anyrej': dict(NC, decl='''fn outlined_any_rejected(target_os: &[String], rejected: &Vec<(TargetScope, String)>) -> (r: bool)
    ensures r == any_in(target_os@, names_of(rejected@))'''),
        'o_anyacc': dict(NC, decl='''fn outlined_any_accepted(target_os: &[String], accepted: &Vec<(TargetScope, String)>) -> (r: bool)
    ensures r == any_in(target_os@, names_of(accepted@))'''),
    },
    functions=['TargetOsIterator::next', 'accept_target_os', 'is_skipped', 'lemma_stack_size_append'],
    trusted=[
        'T7: syn::Meta is a stub enum with the same three variants; meta_is_not / list_children / nv_target_os / size are uninterpreted',
        'axiom: a meta list is strictly bigger than all its children together (finite token trees) - gives termination',
        'outlined (T3): meta.path().is_ident("not"); parse_args_with(..).inspect_err(..).ok(); self.meta.extend(nested.into_iter().map(..)); '
        'the NameValue extraction chain',
        'outlined (T3): the attrs -> (accepted, rejected) plumbing (flat_map(get_meta_items).flat_map(TargetOsIterator::new).partition) as '
        'uninterpreted functions of the attribute list; the two iter().any(..) membership tests (std semantics of Iterator::any and String ==)',
    ],
    undecided=[
        'syn parsing of cfg(...) and the plumbing from attributes to the two lists (that the lists are exactly the iterator\'s yields partitioned by scope)',
        'that the rule is applied at file, type, variant, field and struct-variant-field level (call sites inside syn walks: parser.rs is_skipped, visitors.rs)',
    ],
)


# ------------------------------------------------------------------------------------ witness search / replay
def native(workdir):
    """bounded search on the REAL crates through the public parser (replay binary): every cfg expression up to depth 2
    (arity <= 2) over any/all/not with leaves target_os=a|b, feature, bare word, selected depth-3 nestings, pairs of cfg
    attributes; all 8 target lists over {a,b,c}; field / variant / type / struct-variant-field placement; compared with an
    independent evaluator of the documented rule."""
    import os
    import kf_replay
    exe = kf_replay.replay_bin()
    if not exe:
        return None, 'replay binary does not build: ' + kf_replay._bin.get('err', '')
    w = os.path.join(workdir, 'native_tos.sh')
    with open(w, 'w') as f:
        f.write('#!/bin/sh\nsub=$1; shift\nexec %s tos-$sub "$@"\n' % exe)
    os.chmod(w, 0o755)
    return w, ''


def replay_args(inp):
    return [str(inp['case']), str(inp['targets']), str(inp['placement'])]
