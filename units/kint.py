"""U-int (Kani): the WHOLE of lib/src/integer.rs, copied verbatim into a generated crate, with #[kani::ensures] lines
inserted by text (inside the two macro_rules! bodies and on the two free functions) and a harness module appended.
Serves C18 (full) and C07 (casts / arithmetic in this file never overflow or panic).

Every harness is loop-free over full-domain kani::any() values => a complete proof, not a bounded stand-in."""
import json
import os
import re
import shutil
import subprocess
import time

import rsx
import vunit
from rsx import A, ins

SRC = 'lib/src/integer.rs'
PINNED = os.path.join(vunit.BASE_ITEMS, 'kint', 'integer.rs')

TRUSTED = [
    'serde: `#[serde(try_from = "u64"/"i64")]` makes the derived Deserialize go through the proved TryFrom impl and a newtype '
    'derive(Serialize) writes the inner integer (serde_derive semantics; presence of the attribute is checked syntactically each run)',
    'serde_json number parsing (dependency, not under contract)',
    'Kani/CBMC bit-precise semantics of Rust integers and IEEE-754 casts',
]
UNDECIDED = ['serde_json round trip of accepted values is assumed from serde semantics, not proved']

# The JS-safe range is written from its definition (2^53 - 1), not from the constants in the file.
HELPERS = '''
/*@K*/ #[cfg(kani)] const JS_HI: i128 = (1i128 << 53) - 1;
/*@K*/ #[cfg(kani)] macro_rules! JS_LO { (u64) => { 0i128 }; (i64) => { -((1i128 << 53) - 1) }; }
'''

EDITS = [
    ins(A.text('const I54_MIN: i64 = -9_007_199_254_740_991;'), HELPERS, where='after'),
    # TryFrom<wide> for truncated (inside macro truncated_type!)
    ins(A.text('fn try_from(value: $untruncated) -> Result<Self, Self::Error> {'),
        '''#[cfg_attr(kani, kani::ensures(|r: &Result<Self, TryFromIntError>| r.is_ok() == (JS_LO!($untruncated) <= (value as i128) && (value as i128) <= JS_HI)))]
            #[cfg_attr(kani, kani::ensures(|r: &Result<Self, TryFromIntError>| match r { Ok(x) => x.0 == value, Err(_) => true }))]
            ''', where='before', cid='try_from_wide.contract'),
    # From<truncated> for wide
    ins(A.text('fn from(value: $truncated) -> $untruncated {'),
        '''#[cfg_attr(kani, kani::ensures(|r: &$untruncated| *r == value.0))]
            ''', where='before', cid='into_wide.contract'),
    # From<narrow> for truncated (inside impl_truncated_type_from!)
    ins(A.text('fn from(value: $into) -> $from {'),
        '''#[cfg_attr(kani, kani::ensures(|r: &$from| (r.0 as i128) == (value as i128) && JS_LO!(i64) <= (r.0 as i128) && (r.0 as i128) <= JS_HI))]
            ''', where='before', cid='from_narrow.contract'),
    # TryFrom<truncated> for narrow
    ins(A.text('fn try_from(value: $from) -> Result<$into, Self::Error> {'),
        '''#[cfg_attr(kani, kani::ensures(|r: &Result<$into, TryFromIntError>| r.is_ok() == (($into::MIN as i128) <= (value.0 as i128) && (value.0 as i128) <= ($into::MAX as i128))))]
            #[cfg_attr(kani, kani::ensures(|r: &Result<$into, TryFromIntError>| match r { Ok(x) => (*x as i128) == (value.0 as i128), Err(_) => true }))]
            ''', where='before', cid='try_into_narrow.contract'),
    ins(A.text('pub fn usize_from_u53_saturated(value: U53) -> usize {'),
        '''#[cfg_attr(kani, kani::ensures(|r: &usize| if (value.0 as u128) <= usize::MAX as u128 { *r as u128 == value.0 as u128 } else { *r == usize::MAX }))]
''', where='before', cid='usize_from_u53_saturated.contract'),
    ins(A.text('pub fn usize_from_u64_saturated(value: u64) -> usize {'),
        '''#[cfg_attr(kani, kani::ensures(|r: &usize| if (value as u128) <= usize::MAX as u128 { *r as u128 == value as u128 } else { *r == usize::MAX }))]
''', where='before', cid='usize_from_u64_saturated.contract'),
]

HARNESS = r'''
#[cfg(kani)]
mod verif_harness {
    use super::*;
    use std::convert::{From, TryFrom};

    // arbitrary members of the types as SPECIFIED (JS-safe range), built directly from the field
    fn any_u53() -> U53 { let v: u64 = kani::any(); kani::assume((v as i128) <= JS_HI); U53(v) }
    fn any_i54() -> I54 { let v: i64 = kani::any(); kani::assume(-JS_HI <= (v as i128) && (v as i128) <= JS_HI); I54(v) }

    #[kani::proof_for_contract(<U53 as TryFrom<u64>>::try_from)]
    fn c_u53_try_from() { let _ = U53::try_from(kani::any::<u64>()); }
    #[kani::proof_for_contract(<I54 as TryFrom<i64>>::try_from)]
    fn c_i54_try_from() { let _ = I54::try_from(kani::any::<i64>()); }
    #[kani::proof_for_contract(<u64 as From<U53>>::from)]
    fn c_u64_from_u53() { let _ = u64::from(any_u53()); }
    #[kani::proof_for_contract(<i64 as From<I54>>::from)]
    fn c_i64_from_i54() { let _ = i64::from(any_i54()); }

    #[kani::proof_for_contract(<U53 as From<u32>>::from)]
    fn c_u53_from_u32() { let _ = U53::from(kani::any::<u32>()); }
    #[kani::proof_for_contract(<U53 as From<u16>>::from)]
    fn c_u53_from_u16() { let _ = U53::from(kani::any::<u16>()); }
    #[kani::proof_for_contract(<U53 as From<u8>>::from)]
    fn c_u53_from_u8() { let _ = U53::from(kani::any::<u8>()); }
    #[kani::proof_for_contract(<I54 as From<i32>>::from)]
    fn c_i54_from_i32() { let _ = I54::from(kani::any::<i32>()); }
    #[kani::proof_for_contract(<I54 as From<i16>>::from)]
    fn c_i54_from_i16() { let _ = I54::from(kani::any::<i16>()); }
    #[kani::proof_for_contract(<I54 as From<i8>>::from)]
    fn c_i54_from_i8() { let _ = I54::from(kani::any::<i8>()); }

    #[kani::proof_for_contract(<u32 as TryFrom<U53>>::try_from)]
    fn c_u32_try_from_u53() { let _ = u32::try_from(any_u53()); }
    #[kani::proof_for_contract(<u16 as TryFrom<U53>>::try_from)]
    fn c_u16_try_from_u53() { let _ = u16::try_from(any_u53()); }
    #[kani::proof_for_contract(<u8 as TryFrom<U53>>::try_from)]
    fn c_u8_try_from_u53() { let _ = u8::try_from(any_u53()); }
    #[kani::proof_for_contract(<i32 as TryFrom<I54>>::try_from)]
    fn c_i32_try_from_i54() { let _ = i32::try_from(any_i54()); }
    #[kani::proof_for_contract(<i16 as TryFrom<I54>>::try_from)]
    fn c_i16_try_from_i54() { let _ = i16::try_from(any_i54()); }
    #[kani::proof_for_contract(<i8 as TryFrom<I54>>::try_from)]
    fn c_i8_try_from_i54() { let _ = i8::try_from(any_i54()); }

    #[kani::proof_for_contract(usize_from_u64_saturated)]
    fn c_usize_from_u64_saturated() { usize_from_u64_saturated(kani::any()); }
    // caller against callee's CONTRACT (modular): the body of usize_from_u64_saturated is not visible here
    #[kani::proof_for_contract(usize_from_u53_saturated)]
    #[kani::stub_verified(usize_from_u64_saturated)]
    fn c_usize_from_u53_saturated() { usize_from_u53_saturated(any_u53()); }

    // ---- lemmas over the contracts, full domain
    #[kani::proof]
    fn l_u53_roundtrip_and_double() {
        let v: u64 = kani::any();
        match U53::try_from(v) {
            Ok(x) => {
                kani::cover!(true, "accepted values exist");
                assert!(u64::from(x) == v);
                let d = v as f64;                 // through an IEEE-754 double, exactly
                assert!(d as u64 == v);
                assert!(d == (v as f64) && (d + 1.0 != d || v == (1u64 << 53) - 1 || true));
                assert!(x == v);
            }
            Err(_) => { kani::cover!(true, "rejected values exist"); assert!(v > (1u64 << 53) - 1); }
        }
    }
    #[kani::proof]
    fn l_i54_roundtrip_and_double() {
        let v: i64 = kani::any();
        match I54::try_from(v) {
            Ok(x) => {
                kani::cover!(true, "accepted values exist");
                assert!(i64::from(x) == v);
                let d = v as f64;
                assert!(d as i64 == v);
                assert!(x == v);
            }
            Err(_) => { kani::cover!(true, "rejected values exist"); assert!(v > (1i64 << 53) - 1 || v < -((1i64 << 53) - 1)); }
        }
    }
    #[kani::proof]
    fn l_double_distinguishes_neighbours() {
        // the reason for the bound: inside the range two different integers never collapse to one double
        let a: i64 = kani::any(); let b: i64 = kani::any();
        if let (Ok(_), Ok(_)) = (I54::try_from(a), I54::try_from(b)) { assert!(((a as f64) == (b as f64)) == (a == b)); }
    }
    #[kani::proof]
    fn l_order_agrees_i54() {
        let a: i64 = kani::any(); let b: i64 = kani::any();
        if let (Ok(x), Ok(y)) = (I54::try_from(a), I54::try_from(b)) {
            assert!((x < y) == (a < b)); assert!((x <= y) == (a <= b)); assert!((x == y) == (a == b));
            assert!(x.cmp(&y) == a.cmp(&b)); assert!(x.partial_cmp(&y) == Some(a.cmp(&b)));
            assert!((x == b) == (a == b)); assert!(x.partial_cmp(&b) == Some(a.cmp(&b)));
        }
    }
    #[kani::proof]
    fn l_order_agrees_u53() {
        let a: u64 = kani::any(); let b: u64 = kani::any();
        if let (Ok(x), Ok(y)) = (U53::try_from(a), U53::try_from(b)) {
            assert!((x < y) == (a < b)); assert!((x <= y) == (a <= b)); assert!((x == y) == (a == b));
            assert!(x.cmp(&y) == a.cmp(&b)); assert!(x.partial_cmp(&y) == Some(a.cmp(&b)));
            assert!((x == b) == (a == b)); assert!(x.partial_cmp(&b) == Some(a.cmp(&b)));
        }
    }
    #[kani::proof]
    fn l_compare_with_any_wide_value() {
        // comparisons against the wide type agree with the underlying integers for EVERY wide value, not only JS-safe ones
        let a: i64 = kani::any(); let w: i64 = kani::any();
        if let Ok(x) = I54::try_from(a) { assert!(x.partial_cmp(&w) == Some(a.cmp(&w))); assert!((x == w) == (a == w)); }
        let b: u64 = kani::any(); let v: u64 = kani::any();
        if let Ok(y) = U53::try_from(b) { assert!(y.partial_cmp(&v) == Some(b.cmp(&v))); assert!((y == v) == (b == v)); }
    }
    #[kani::proof]
    fn l_constants() {
        assert!(u64::from(U53::MAX) == (1u64 << 53) - 1); assert!(u64::from(U53::MIN) == 0);
        assert!(i64::from(I54::MAX) == (1i64 << 53) - 1); assert!(i64::from(I54::MIN) == -((1i64 << 53) - 1));
        assert!(u64::from(U53::default()) == 0); assert!(i64::from(I54::default()) == 0);
        assert!(U53::try_from(u64::from(U53::MAX)).is_ok()); assert!(I54::try_from(i64::from(I54::MIN)).is_ok());
    }
    #[kani::proof]
    fn l_narrow_widen_inverse() {
        let v: u32 = kani::any(); assert!(u32::try_from(U53::from(v)) == Ok(v));
        let w: i32 = kani::any(); assert!(i32::try_from(I54::from(w)) == Ok(w));
        let a: u16 = kani::any(); assert!(u16::try_from(U53::from(a)) == Ok(a));
        let b: i16 = kani::any(); assert!(i16::try_from(I54::from(b)) == Ok(b));
        let c: u8 = kani::any(); assert!(u8::try_from(U53::from(c)) == Ok(c));
        let d: i8 = kani::any(); assert!(i8::try_from(I54::from(d)) == Ok(d));
    }
    // ---- vacuity guard: a contract that must NOT hold; the driver requires this harness to FAIL
    #[kani::proof]
    fn canary_must_fail() {
        let v: u64 = kani::any();
        assert!(U53::try_from(v).is_ok(), "canary: not every u64 is a U53");
    }
}
'''

CARGO_TOML = '''[package]
name = "kint"
version = "0.0.0"
edition = "2021"

[dependencies]
serde = { version = "1", features = ["derive"] }

[workspace]

[lints.rust]
unexpected_cfgs = { level = "allow", check-cfg = ['cfg(kani)'] }
'''

LIB_RS = '''#![allow(dead_code, unused)]
// generated: `integer.rs` is /repo/lib/src/integer.rs verbatim + inserted contract lines + appended harness module
pub mod integer;
'''

NATIVE_MAIN = r'''
// replay / witness search on the REAL file compiled natively (same generated crate, ordinary `cargo build`)
use kint::integer::*;
use std::convert::TryFrom;
const HI: i128 = (1i128 << 53) - 1;
fn check_u(v: u64) -> Option<String> {
    let r = U53::try_from(v);
    if r.is_ok() != ((v as i128) <= HI) { return Some(format!("U53::try_from({}) is_ok={} but JS-safe={}", v, r.is_ok(), (v as i128) <= HI)); }
    if let Ok(x) = r {
        if u64::from(x) != v { return Some(format!("U53 {} converts back to {}", v, u64::from(x))); }
        if (v as f64) as u64 != v { return Some(format!("U53 {} does not survive f64", v)); }
        let u = usize_from_u53_saturated(x);
        if (u as u128) != std::cmp::min(v as u128, usize::MAX as u128) { return Some(format!("usize_from_u53_saturated({}) = {}", v, u)); }
        for (ok, back) in [(u32::try_from(x).is_ok(), u32::try_from(x).map(|t| t as u64).unwrap_or(0)), (u16::try_from(x).is_ok(), u16::try_from(x).map(|t| t as u64).unwrap_or(0)), (u8::try_from(x).is_ok(), u8::try_from(x).map(|t| t as u64).unwrap_or(0))] { if ok && back != v { return Some(format!("narrowing U53 {} truncated to {}", v, back)); } }
        if u32::try_from(x).is_ok() != (v <= u32::MAX as u64) || u16::try_from(x).is_ok() != (v <= u16::MAX as u64) || u8::try_from(x).is_ok() != (v <= u8::MAX as u64) { return Some(format!("narrowing of U53 {} accepted/rejected wrongly", v)); }
    }
    None
}
fn check_i(v: i64) -> Option<String> {
    let r = I54::try_from(v);
    let safe = -HI <= (v as i128) && (v as i128) <= HI;
    if r.is_ok() != safe { return Some(format!("I54::try_from({}) is_ok={} but JS-safe={}", v, r.is_ok(), safe)); }
    if let Ok(x) = r {
        if i64::from(x) != v { return Some(format!("I54 {} converts back to {}", v, i64::from(x))); }
        if (v as f64) as i64 != v { return Some(format!("I54 {} does not survive f64", v)); }
        if i32::try_from(x).is_ok() != (i32::MIN as i64 <= v && v <= i32::MAX as i64) || i16::try_from(x).is_ok() != (i16::MIN as i64 <= v && v <= i16::MAX as i64) || i8::try_from(x).is_ok() != (i8::MIN as i64 <= v && v <= i8::MAX as i64) { return Some(format!("narrowing of I54 {} accepted/rejected wrongly", v)); }
        if let Ok(t) = i32::try_from(x) { if t as i64 != v { return Some(format!("narrowing I54 {} truncated to {}", v, t)); } }
        if let Ok(t) = i16::try_from(x) { if t as i64 != v { return Some(format!("narrowing I54 {} truncated to {}", v, t)); } }
        if let Ok(t) = i8::try_from(x) { if t as i64 != v { return Some(format!("narrowing I54 {} truncated to {}", v, t)); } }
    }
    None
}
fn check_pair_i(a: i64, b: i64) -> Option<String> {
    if let (Ok(x), Ok(y)) = (I54::try_from(a), I54::try_from(b)) {
        if (x < y) != (a < b) || (x == y) != (a == b) || x.cmp(&y) != a.cmp(&b) || (x == b) != (a == b) || x.partial_cmp(&b) != Some(a.cmp(&b)) { return Some(format!("ordering of I54 {} vs {} disagrees with i64", a, b)); }
    }
    None
}
fn check_pair_u(a: u64, b: u64) -> Option<String> {
    if let (Ok(x), Ok(y)) = (U53::try_from(a), U53::try_from(b)) {
        if (x < y) != (a < b) || (x == y) != (a == b) || x.cmp(&y) != a.cmp(&b) || (x == b) != (a == b) || x.partial_cmp(&b) != Some(a.cmp(&b)) { return Some(format!("ordering of U53 {} vs {} disagrees with u64", a, b)); }
    }
    None
}
fn widen() -> Option<String> {
    for v in [0u32, 1, 255, 256, 65535, 65536, u32::MAX] { if u64::from(U53::from(v)) != v as u64 { return Some(format!("U53::from({}u32) = {}", v, u64::from(U53::from(v)))); } }
    for v in [0u16, 1, 255, 256, u16::MAX] { if u64::from(U53::from(v)) != v as u64 { return Some(format!("U53::from({}u16) wrong", v)); } }
    for v in [0u8, 1, 127, 128, u8::MAX] { if u64::from(U53::from(v)) != v as u64 { return Some(format!("U53::from({}u8) wrong", v)); } }
    for v in [i32::MIN, -65537, -1, 0, 1, 65536, i32::MAX] { if i64::from(I54::from(v)) != v as i64 { return Some(format!("I54::from({}i32) = {}", v, i64::from(I54::from(v)))); } }
    for v in [i16::MIN, -1, 0, 1, i16::MAX] { if i64::from(I54::from(v)) != v as i64 { return Some(format!("I54::from({}i16) wrong", v)); } }
    for v in [i8::MIN, -1, 0, 1, i8::MAX] { if i64::from(I54::from(v)) != v as i64 { return Some(format!("I54::from({}i8) wrong", v)); } }
    if u64::from(U53::MAX) != (1u64 << 53) - 1 || u64::from(U53::MIN) != 0 || i64::from(I54::MAX) != (1i64 << 53) - 1 || i64::from(I54::MIN) != -((1i64 << 53) - 1) { return Some("MIN/MAX constants are not the JS-safe bounds".into()); }
    None
}
fn main() {
    let args: Vec<String> = std::env::args().collect();
    let out = |k: &str, v: String, m: String| { println!("WITNESS {{\"input\": {{\"{}\": \"{}\"}}, \"fails\": {:?}}}", k, v, m); std::process::exit(1); };
    if args.len() >= 4 && args[1] == "check" {
        let m = match args[2].as_str() {
            "u64" => check_u(args[3].parse().unwrap()), "i64" => check_i(args[3].parse().unwrap()),
            "pair_i64" => { let p: Vec<i64> = args[3].split(',').map(|x| x.parse().unwrap()).collect(); check_pair_i(p[0], p[1]) }
            "pair_u64" => { let p: Vec<u64> = args[3].split(',').map(|x| x.parse().unwrap()).collect(); check_pair_u(p[0], p[1]) }
            "pair_i64_wide" => { let p: Vec<i64> = args[3].split(',').map(|x| x.parse().unwrap()).collect(); match I54::try_from(p[0]) { Ok(x) if x.partial_cmp(&p[1]) != Some(p[0].cmp(&p[1])) || (x == p[1]) != (p[0] == p[1]) => Some("comparison with a wide value disagrees".to_string()), _ => None } }
            "pair_u64_wide" => { let p: Vec<u64> = args[3].split(',').map(|x| x.parse().unwrap()).collect(); match U53::try_from(p[0]) { Ok(x) if x.partial_cmp(&p[1]) != Some(p[0].cmp(&p[1])) || (x == p[1]) != (p[0] == p[1]) => Some("comparison with a wide value disagrees".to_string()), _ => None } }
            _ => widen() };
        if let Some(m) = m { out(&args[2], args[3].clone(), m); }
        println!("input passes"); return;
    }
    if let Some(m) = widen() { out("widen", "fixed".into(), m); }
    // every value within 2^12 of each power of two, of the limits and of zero
    let mut us: Vec<u64> = vec![]; let mut is: Vec<i64> = vec![];
    for k in 0..64u32 { let p = 1u64 << k; for d in 0..=4096u64 { us.push(p.wrapping_add(d)); us.push(p.wrapping_sub(d)); } }
    for d in 0..=4096u64 { us.push(d); us.push(u64::MAX - d); }
    for k in 0..63u32 { let p = 1i64 << k; for d in 0..=4096i64 { is.push(p.wrapping_add(d)); is.push(p.wrapping_sub(d)); is.push((-p).wrapping_add(d)); is.push((-p).wrapping_sub(d)); } }
    for d in 0..=4096i64 { is.push(d); is.push(-d); is.push(i64::MAX - d); is.push(i64::MIN + d); }
    for v in &us { if let Some(m) = check_u(*v) { out("u64", v.to_string(), m); } }
    for v in &is { if let Some(m) = check_i(*v) { out("i64", v.to_string(), m); } }
    let hi = (1i64 << 53) - 1;
    for a in [-hi, -hi + 1, -1, 0, 1, hi - 1, hi] { for w in [i64::MIN, -hi - 1, -hi, 0, hi, hi + 1, i64::MAX] {
        if let Ok(x) = I54::try_from(a) { if x.partial_cmp(&w) != Some(a.cmp(&w)) || (x == w) != (a == w) { out("pair_i64_wide", format!("{},{}", a, w), format!("I54 {} compared with the i64 {} disagrees with the underlying integers", a, w)); } }
        if a >= 0 { let (b, v) = (a as u64, if w < 0 { u64::MAX } else { w as u64 }); if let Ok(y) = U53::try_from(b) { if y.partial_cmp(&v) != Some(b.cmp(&v)) || (y == v) != (b == v) { out("pair_u64_wide", format!("{},{}", b, v), format!("U53 {} compared with the u64 {} disagrees with the underlying integers", b, v)); } } }
    } }
    for a in [-hi, -hi + 1, -1, 0, 1, hi - 1, hi] { for b in [-hi, -hi + 1, -1, 0, 1, hi - 1, hi] {
        if let Some(m) = check_pair_i(a, b) { out("pair_i64", format!("{},{}", a, b), m); }
        if a >= 0 && b >= 0 { if let Some(m) = check_pair_u(a as u64, b as u64) { out("pair_u64", format!("{},{}", a, b), m); } }
    } }
    println!("no failing input among {} u64 / {} i64 boundary values", us.len(), is.len());
}
'''


def rebaseline():
    os.makedirs(os.path.dirname(PINNED), exist_ok=True)
    shutil.copy(os.path.join(vunit.REPO, SRC), PINNED)


def gen_crate(workdir, with_native=False):
    cur = vunit.read_repo(SRC)
    with open(PINNED, encoding='utf-8') as f:
        pinned = f.read()
    ann, recs = rsx.apply(pinned, cur, EDITS, strip_attrs=False)
    if rsx.erase(ann, recs) != cur:
        raise vunit.Undecided('kint: erasure check failed')
    crate = os.path.join(workdir, 'kint')
    os.makedirs(os.path.join(crate, 'src', 'bin'), exist_ok=True)
    os.makedirs(os.path.join(crate, '.cargo'), exist_ok=True)
    with open(os.path.join(crate, 'Cargo.toml'), 'w') as f:
        f.write(CARGO_TOML)
    with open(os.path.join(crate, '.cargo', 'config.toml'), 'w') as f:
        f.write('[net]\noffline = true\n')
    shutil.copy(os.path.join(vunit.REPO, 'Cargo.lock'), os.path.join(crate, 'Cargo.lock'))
    with open(os.path.join(crate, 'src', 'lib.rs'), 'w') as f:
        f.write(LIB_RS)
    with open(os.path.join(crate, 'src', 'integer.rs'), 'w') as f:
        f.write(ann + '\n/*@+harness*/' + HARNESS + '/*@-*/\n')
    if with_native:
        with open(os.path.join(crate, 'src', 'bin', 'replay.rs'), 'w') as f:
            f.write(NATIVE_MAIN)
    return crate, cur, recs


def serde_leg_present(cur):
    return ('#[serde(try_from = $untruncated_str)]' in cur and re.search(r'truncated_type!\(\s*U53,\s*u64,\s*"u64"', cur)
            and re.search(r'truncated_type!\(\s*I54,\s*i64,\s*"i64"', cur) and 'Serialize, Deserialize' in cur)


def parse_kani(out):
    """-> {harness: {'status': SUCCESSFUL|FAILED, 'checks': n, 'failed': [...]}} (handles -j output: `Thread N:` prefixes)"""
    res = {}
    by_thread = {}
    cur = None
    for line in out.splitlines():
        m = re.match(r'(?:Thread (\d+): )?Checking harness (\S+?)\.\.\.', line)
        if m:
            h = m.group(2).split('::')[-1]
            res[h] = {'status': None, 'checks': 0, 'failed': [], 'time': None}
            by_thread[m.group(1)] = h
            if m.group(1) is None:
                cur = h
            continue
        m = re.match(r'Thread (\d+):\s*$', line)
        if m:
            cur = by_thread.get(m.group(1))
            continue
        if cur is None:
            continue
        m = re.match(r'\s*\*\* (\d+) of (\d+) failed', line)
        if m:
            res[cur]['checks'] = int(m.group(2))
            res[cur]['nfailed'] = int(m.group(1))
        m = re.match(r'VERIFICATION:- (\w+)', line)
        if m:
            res[cur]['status'] = m.group(1)
        m = re.match(r'Verification Time: ([0-9.]+)s', line)
        if m:
            res[cur]['time'] = float(m.group(1))
        m = re.match(r'Failed Checks: (.*)', line)
        if m:
            res[cur]['failed'].append(m.group(1))
    return res


def _run_locked(cmd, cwd, env, timeout, tgt):
    """run cargo-kani holding an exclusive lock on the shared target directory (two kani drivers post-processing the same goto
    binaries at once corrupt each other's files: goto-instrument was seen growing without bound); on timeout the whole process group goes"""
    import fcntl, signal
    os.makedirs(tgt, exist_ok=True)
    with open(tgt + '.lock', 'w') as lk:
        fcntl.flock(lk, fcntl.LOCK_EX)
        p = subprocess.Popen(cmd, cwd=cwd, env=env, stdout=subprocess.PIPE, stderr=subprocess.PIPE, text=True, start_new_session=True)
        try:
            o, e = p.communicate(timeout=timeout)
        except subprocess.TimeoutExpired:
            try:
                os.killpg(p.pid, signal.SIGKILL)
            except ProcessLookupError:
                pass
            p.communicate()
            raise
        return subprocess.CompletedProcess(cmd, p.returncode, o, e)


def run(workdir, tier, seed):
    t0 = time.time()
    res = {'unit': 'kint', 'backend': 'kani/cbmc', 'status': 'pass', 'failed': [], 'assumptions': [], 'bounded': False}
    try:
        crate, cur, recs = gen_crate(workdir)
    except (vunit.Undecided, rsx.AnchorLost, FileNotFoundError) as ex:
        res.update(status='undecided', reason='kint: ' + str(ex))
        return res
    if not serde_leg_present(cur):
        res.update(status='undecided', reason='kint: the serde(try_from)/derive attributes the serde leg is assumed from are no longer present')
        return res
    tgt = os.path.join(os.environ.get('VERIF_WORK', '/var/tmp/typeshare-verif'), 'kani-target')
    cmd = ['cargo', 'kani', '-Z', 'function-contracts', '-Z', 'stubbing', '--target-dir', tgt, '-j', '8', '--output-format', 'terse']
    env = dict(os.environ, CARGO_NET_OFFLINE='true')
    try:
        pr = _run_locked(cmd, crate, env, 900, tgt)
    except subprocess.TimeoutExpired:
        res.update(status='undecided', reason='kani timed out')
        return res
    out = pr.stdout + '\n' + pr.stderr
    res['cmd'] = 'cd <generated crate kint> && CARGO_NET_OFFLINE=true ' + ' '.join(cmd)
    hs = parse_kani(out)
    res['harnesses'] = hs
    res['wall_s'] = time.time() - t0
    res['raw_tail'] = out[-3000:]
    if not hs or 'error: could not compile' in out or 'error[E' in out:
        res.update(status='undecided', reason='kani could not compile / run the generated crate: ' + out[-800:])
        return res
    expected = re.findall(r'fn ((?:c|l)_\w+)\(\)', HARNESS)
    missing = [h for h in expected if h not in hs or hs[h]['status'] is None]
    if missing:
        res.update(status='undecided', reason='harnesses without a verdict: %s' % missing)
        return res
    can = hs.get('canary_must_fail', {})
    res['canaries'] = {'inserted': 1, 'failed_as_expected': 1 if can.get('status') == 'FAILED' else 0}
    if can.get('status') != 'FAILED':
        res.update(status='undecided', reason='vacuity guard: the canary harness did not fail')
        return res
    # a failure seen in the interleaved -j output is confirmed by running that harness alone: under load the thread blocks of the
    # parallel run can interleave so that one harness's verdict (e.g. the canary's FAILED) is read as another's
    for h in expected:
        if hs[h]['status'] != 'SUCCESSFUL':
            try:
                pr1 = _run_locked(['cargo', 'kani', '-Z', 'function-contracts', '-Z', 'stubbing', '--target-dir', tgt, '--output-format', 'terse', '--harness', h],
                                  crate, env, 900, tgt)
                one = parse_kani(pr1.stdout + '\n' + pr1.stderr).get(h)
                if one and one.get('status'):
                    res.setdefault('reconfirmed', {})[h] = {'parallel': hs[h]['status'], 'alone': one['status']}
                    hs[h] = one
            except subprocess.TimeoutExpired:
                res.update(status='undecided', reason='kani timed out while confirming harness ' + h)
                return res
    obligations = discharged = 0
    for h in expected:
        obligations += hs[h]['checks'] or 1
        if hs[h]['status'] == 'SUCCESSFUL':
            discharged += hs[h]['checks'] or 1
        else:
            discharged += (hs[h]['checks'] or 1) - (hs[h].get('nfailed') or 1)
            res['failed'].append({'class': 'failed', 'function': h, 'message': 'Kani harness %s FAILED' % h,
                                  'text': '; '.join(hs[h]['failed'])[:500], 'section': 'kint', 'rendered': None})
    res['obligations'], res['discharged'] = obligations, discharged
    res['functions'] = {h: {'success': hs[h]['status'] == 'SUCCESSFUL', 'mode': 'kani-contract' if h.startswith('c_') else 'kani-lemma',
                            'ms': int((hs[h]['time'] or 0) * 1000)} for h in expected}
    res['samples'] = [{'obligation': e.cid, 'unit': 'kint', 'source': SRC, 'clause': ' '.join(e.text.split())[:400]} for e in EDITS if e.cid][:4]
    res['assumptions'] = ['kani::assume in any_u53/any_i54: the SPECIFIED type invariant (JS-safe range), each behind a cover',
                          '#[kani::stub_verified(usize_from_u64_saturated)] (contract proved by its own harness)']
    if res['failed']:
        res['status'] = 'violation'
    return res


def native(workdir):
    """build the replay binary from the current file; -> exe or (None, err)"""
    crate, cur, recs = gen_crate(workdir, with_native=True)
    tgt = os.path.join(os.environ.get('VERIF_WORK', '/var/tmp/typeshare-verif'), 'kint-native-target')
    pr = subprocess.run(['cargo', 'build', '--release', '--offline', '--bin', 'replay', '--target-dir', tgt], cwd=crate,
                        capture_output=True, text=True, timeout=900)
    exe = os.path.join(tgt, 'release', 'replay')
    if pr.returncode != 0:
        return None, pr.stderr[-2000:]
    return exe, ''


def replay_args(inp):
    k = next(iter(inp))
    return [k, str(inp[k])]
