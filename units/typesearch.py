"""bounded stand-in for C05: the parser's reading of a type expression and every back end's spelling of it, against an independent oracle
(replay binary, public API of /repo/core)"""
import os

import kf_replay


def native(workdir):
    """bounded search on the REAL crates through parse() and Language::format_type of all six back ends: every type expression of depth <= 2
    over 18 leaves (bool, char, String, &str, i8..i32, u8..u32, I54, U53, f32, f64, (), a user type, a user type named like a keyword, a generic parameter) and 14 unary
    constructors (Vec, [T; 3], &[T], Option, &T, Wrap<T>, Box / Arc / Rc / Cow / Cell / RefCell / Mutex / RwLock), HashMap over all leaf pairs, a
    two-argument generic; depth 3 for every unary-of-unary and a sample of maps; qualified paths incl. path-qualified scalars (typeshare::I54); depth 4-5 chains (quick: 5088 expressions,
    thorough: about 15000) - each written as struct field, tuple-variant payload, struct-variant field and alias target.  The IR must be the
    expression with references / smart pointers / path prefixes removed and nothing else changed; every back end's spelling must be the
    compositional translation (plain, with a prefix for Kotlin / Swift, and with type_mappings for a user type, a generic type and two
    built-in types), each primitive spelled as a target type of the same JSON category that holds every value.  Plus two programs whose struct-variant
    helper types (spelled outside format_type by Kotlin, Swift, Scala) must be declared and referred to with the same generic parameters."""
    exe = kf_replay.replay_bin()
    if not exe:
        return None, 'replay binary does not build: ' + kf_replay._bin.get('err', '')
    w = os.path.join(workdir, 'native_typesearch.sh')
    with open(w, 'w') as f:
        f.write('#!/bin/sh\nsub=$1; shift\nexec %s type-$sub "$@"\n' % exe)
    os.chmod(w, 0o755)
    return w, ''


def replay_args(inp):
    return [str(inp['index']), 'true' if inp.get('thorough_corpus') else 'false']
