"""U-doc_python: Python::write_comments, verbatim, over a ghost text sink.  Serves C15 (kernel, the `#` comment branch): whatever the doc
strings contain, the text appended for a non-empty comment list with is_docstring == false is a sequence of whole lines, each
indentation + `#` + text without a line break + LF - every byte of the doc text lies inside a `#` comment.  The docstring branch
(`\"\"\"` .. `\"\"\"` with replace / join chains) is outlined and NOT decided here (bounded stand-in doc-search)."""
from rsx import A, ins, rep, drop
from vunit import Item, Unit
import fmtcommon as F
import optcommon as O
import doccommon as D

SRC = 'core/src/language/python.rs'

PRELUDE = r'''
// ---------- T7 stubs
#[verifier::external_body] pub struct IoError { _p: u8 }
#[verifier::external_body] pub struct WriteSink { _p: u8 }
impl View for WriteSink { type V = Seq<char>; uninterp spec fn view(&self) -> Seq<char>; }
pub struct Python { _p: u8 }

/// T4: `s.split(|c| c == '\n' || c == '\r')` - the pieces between line breaks (std: str::split with a char predicate: no piece
/// contains a character the predicate accepts; at least one piece)
#[verifier::external_body]
fn split_eol(comment: &str) -> (r: Vec<&str>)
    ensures r@.len() >= 1, forall|i: int| 0 <= i < r@.len() ==> no_eol(#[trigger] r@[i]@)
{ unimplemented!() }
/// `"    ".repeat(n)`: indentation (blanks only)
#[verifier::external_body]
fn spaces_of(n: usize) -> (r: String) ensures all_tabs(r@) { unimplemented!() }
/// outlined (T3): the docstring branch - format!("{indent}\"\"\"\n{..}\n{indent}\"\"\"", ..) over the replace / map / join chain; NOT under contract
#[verifier::external_body]
fn docstring_of(indent: &String, comments: &[String]) -> (r: String) { unimplemented!() }
/// `[String]::join(sep)`
#[verifier::external_body]
fn join_strs(v: &Vec<String>, sep: &str) -> (r: String) ensures r@ == join(strs(v@), sep@) { unimplemented!() }
'''

HEAD = '''{
                    let mut lines__: Vec<String> = Vec::new();
                    for v__ in it1: comments.iter()
                        invariant all_tabs(indent@), forall|i: int| 0 <= i < lines__@.len() ==> hash_body(#[trigger] lines__@[i]@),
                            it1.index@ > 0 ==> lines__@.len() > 0,
                    {
                        let pieces__ = split_eol(v__);
                        let ghost n0 = lines__@.len();
                        for v in it2: pieces__.iter()
                            invariant all_tabs(indent@), forall|i: int| 0 <= i < lines__@.len() ==> hash_body(#[trigger] lines__@[i]@),
                                forall|i: int| 0 <= i < pieces__@.len() ==> no_eol(#[trigger] pieces__@[i]@),
                                lines__@.len() == n0 + it2.index@,
                        {
                            let l__: String = ('''
TAIL = ''');
                            proof {
                                // the marker is whatever the literal says: it has to start with `#` and contain no line break; the text before it is indentation
                                fmt_write_comments_2_p0_chars(); fmt_write_comments_2_p1_chars(); fmt_write_comments_2_p2_chars();
                                assert(*v == pieces__@[it2.index@]);
                                let ws = fmt_write_comments_2_p0() + indent@;
                                assert(all_tabs(ws));
                                assert(no_eol(v@ + fmt_write_comments_2_p2()));
                                lemma_hash_marker(fmt_write_comments_2_p1(), v@ + fmt_write_comments_2_p2(), ws);
                                assert(l__@ =~= ws + fmt_write_comments_2_p1() + (v@ + fmt_write_comments_2_p2()));
                            }
                            lines__.push(l__);
                        }
                    }
                    proof {
                        reveal_strlit("\\n");
                        assert("\\n"@ =~= lf());
                        assert forall|i: int| 0 <= i < strs(lines__@).len() implies hash_body(#[trigger] strs(lines__@)[i]) by { assert(strs(lines__@)[i] == lines__@[i]@); }
                        lemma_hash_join(strs(lines__@));
                    }
                    join_strs(&lines__, "\\n")
                }'''

COMMENTS = [
    rep(A.text('&mut dyn Write'), '&mut WriteSink', tag='T7'),
    ins(A.ret(), '(r: ', where='before'), ins(A.ret(), ')', where='after'),
    ins(A.sig(), '''
        ensures /*C15 C10: every byte of the doc text lies inside a `#` comment, each comment line ends at its line feed (the docstring branch is not decided here)*/
            (r is Ok && !is_docstring) ==> (comments@.len() == 0 ==> final(w)@ == old(w)@)
                && (comments@.len() > 0 ==> exists|t: Seq<char>| #[trigger] hash_commented(t) && final(w)@ == old(w)@ + t),
''', cid='write_comments.contract'),
    ins(A.body_start(), '''
        let ghost w0 = w@;'''),
    rep(A.span('format!( "{indent}\\"\\"\\"\\n{indented_comments}\\n{indent}\\"\\"\\""', '.join("\\n"), )'), 'docstring_of(&indent, comments)', tag='T3',
        note='the docstring branch as a whole (replace / map / join chain inside a format!): NOT under contract'),
    rep(A.span('comments .iter() .flat_map(', '.map(|v|'), HEAD, tag='T14b',
        note='iter().flat_map(|v| v.split(P)).map(|v| F(v)).collect::<Vec<String>>() is the list of F(piece) over the pieces of every element in order (std); F stays verbatim'),
    rep(A.text(') .collect::<Vec<String>>() .join("\\n")', nth=2), TAIL, tag='T14b'),
    ins(A.text('writeln!(w, "{}", comment)?;'), '''
            proof { reveal_strlit("\\n"); assert("\\n"@ =~= lf()); if !is_docstring { assert(w@ =~= w0 + (comment@ + "\\n"@)); assert(hash_commented(comment@ + "\\n"@)); } }''', where='after'),
]

UNIT = Unit(
    name='doc_python', props=['C15', 'C07'], pre_verus=D.PRE_VERUS, spec_files=['txt.rs', 'seqjoin.rs', 'commented.rs'], prelude=PRELUDE,
    items=[
        Item('write_comments', SRC, ['impl Python {', 'fn write_comments'], COMMENTS, wrap=('impl Python {\n', '\n}\n'),
             auto=('fmt', ('tok', '"    ".repeat(indent_level)', 'spaces_of(indent_level)', 'T3'))),
    ],
    functions=['Python::write_comments'],
    trusted=['T14: format! / writeln! sites through contracts generated from their literals; the `# ` marker is the literal\'s own text (ghost constant + generated lemma)',
             'T14b: iter().flat_map(|v| v.split(P)).map(F).collect::<Vec<String>>() verified as the nested loops std documents, F verbatim; T4: str::split with the '
             'predicate "is a line break" yields at least one piece and no piece contains a line break (std)',
             'stubs: "    ".repeat(n) is indentation; [String]::join',
             'OUTLINED, not under contract: the docstring branch (`"""` escaping through replace / join chains)'],
    undecided=['Python docstrings (`"""` .. `"""`): whether the escaped text can close the string is an argument about backslash parity across replace boundaries - bounded stand-in doc-search',
               'that every doc string of the source reaches the writer and is reproduced completely (syn) - bounded stand-in doc-search'],
)
UNIT.forbid = F.FORBID
UNIT.allowed_calls = {'is_empty', 'len', 'iter', 'push'}


def native(workdir):
    import docsearch
    return docsearch.native(workdir)


def replay_args(inp):
    import docsearch
    return docsearch.replay_args(inp)
