"""U-write: cli/src/writer.rs::check_write_file and core/src/language/swift.rs::Swift::write_codable_file, verbatim, under a
tracked ghost file-system log.  Serves C17 (unchanged output => no write at all, i.e. mtime untouched; changed non-empty
output => the file holds exactly the new output whatever it held before; nothing else is touched) and C07 (total)."""
from rsx import A, ins, rep, drop
from vunit import Item, Unit

PRELUDE = r'''
// ---------- T7: opaque stand-ins
#[verifier::external_body] pub struct Path { _p: u8 }      // std::path::Path is unsized: cannot be an external type specification
#[verifier::external_body] pub struct PathBuf { _p: u8 }
#[verifier::external_body] pub struct Swift { _p: u8 }
pub mod anyhow_ { }
#[verifier::external_body] pub struct AnyhowError { _p: u8 }
#[verifier::external_body] pub struct IoError { _p: u8 }

/// abstract identity of a path
pub uninterp spec fn pid(p: &Path) -> int;
pub uninterp spec fn pbid(p: &PathBuf) -> int;

/// ghost file system: path id -> content (absent = no such file) and the sequence of writes performed (a write changes mtime)
pub ghost struct FsLog {
    pub files: Map<int, Seq<u8>>,
    pub writes: Seq<int>,
}
pub open spec fn others_untouched(a: Map<int, Seq<u8>>, b: Map<int, Seq<u8>>, id: int) -> bool {
    forall|k: int| k != id && #[trigger] a.dom().contains(k) ==> b.dom().contains(k) && b[k] == a[k]
}
/// C17 as a relation between the file system before and after one "write this output to this file" step
pub open spec fn write_step(before: FsLog, id: int, output: Seq<u8>, ok: bool, after: FsLog) -> bool {
    // unchanged content: nothing is written at all (modification time preserved)
    &&& (before.files.dom().contains(id) && before.files[id] == output) ==> after == before
    // at most one write, and only to this file; every other file keeps its content
    &&& (after.writes == before.writes || after.writes == before.writes.push(id))
    &&& others_untouched(before.files, after.files, id)
    // success with changed output: the file now holds exactly the output (nothing of the earlier content survives)
    &&& (ok && output.len() > 0) ==> (after.files.dom().contains(id) && after.files[id] == output)
}

// ---------- writer.rs loops: what they iterate over and call (T7 stubs)
#[verifier::external_body] pub struct CrateName { _p: u8 }
#[verifier::external_body] pub struct CrateTypes { _p: u8 }
#[verifier::external_body] pub struct ParsedRest { _p: u8 }
/// only the field writer.rs reads is modelled
pub struct ParsedData { pub file_name: String, pub rest: ParsedRest }
/// the part of `typeshare_core::language::Language` that writer.rs uses
pub trait Language {
    /// the part of the back end's state (configuration) that determines what it generates
    spec fn gen_key(&self) -> int;
    /// ASSUMED: what is generated for one crate does not depend on the crates generated before it (gen_key is not changed)
    fn generate_types(&mut self, w: &mut Vec<u8>, imports: &CrateTypes, data: ParsedData) -> (r: Result<(), IoError>)
        ensures
            r is Ok ==> final(w)@ == old(w)@ + out_for(old(self).gen_key(), imports, data),
            final(self).gen_key() == old(self).gen_key();
}
/// bytes `generate_types` produces for one crate's data (text emission: uninterpreted)
pub uninterp spec fn out_for(key: int, imports: &CrateTypes, data: ParsedData) -> Seq<u8>;
impl From<IoError> for AnyhowError { #[verifier::external_body] fn from(e: IoError) -> Self { unimplemented!() } }
/// std: `&PathBuf` dereferences to `&Path` (same path)
impl core::ops::Deref for PathBuf {
    type Target = Path;
    #[verifier::external_body]
    fn deref(&self) -> (r: &Path) ensures pid(r) == pbid(self) { unimplemented!() }
}
/// identity of `<output_folder>/<file_name>`
pub uninterp spec fn module_id(folder: &Path, file_name: Seq<char>) -> int;
/// the file a back end may write in post_generation (Swift: Codable.swift)
pub uninterp spec fn post_id(folder: &Path) -> int;

// BTreeMap by-value iteration (T4): ordered entries as a sequence
#[verifier::external_type_specification]
#[verifier::external_body]
#[verifier::accept_recursive_types(K)]
#[verifier::accept_recursive_types(V)]
#[verifier::reject_recursive_types(A)]
pub struct ExBTreeIntoIter<K, V, A: ::std::alloc::Allocator + Clone>(::std::collections::btree_map::IntoIter<K, V, A>);
pub uninterp spec fn bt_entries<K, V, A: ::std::alloc::Allocator + Clone>(m: ::std::collections::BTreeMap<K, V, A>) -> Seq<(K, V)>;
pub uninterp spec fn bt_rest<K, V, A: ::std::alloc::Allocator + Clone>(it: ::std::collections::btree_map::IntoIter<K, V, A>) -> Seq<(K, V)>;
/// T4 desugaring of `for (k, v) in map`: `IntoIterator::into_iter` then `Iterator::next` until None (Rust reference); the two
/// calls are made through these wrappers, whose contracts are the ASSUMED std semantics (entries in key order, each once)
#[verifier::external_body]
fn bt_into_iter<K, V>(m: ::std::collections::BTreeMap<K, V>) -> (it: ::std::collections::btree_map::IntoIter<K, V>)
    ensures bt_rest(it) == bt_entries(m)
{ m.into_iter() }
#[verifier::external_body]
fn bt_next<K, V>(it: &mut ::std::collections::btree_map::IntoIter<K, V>) -> (r: Option<(K, V)>)
    ensures match r {
        None => bt_rest(*old(it)).len() == 0,
        Some(e) => bt_rest(*old(it)).len() > 0 && e == bt_rest(*old(it))[0] && bt_rest(*final(it)) == bt_rest(*old(it)).drop_first(),
    }
{ it.next() }
/// single-file mode: the data registered under the single-file crate name, and what is generated for it
pub uninterp spec fn single_data(m: ::std::collections::BTreeMap<CrateName, ParsedData>) -> Option<ParsedData>;
pub uninterp spec fn no_imports() -> &'static CrateTypes;
pub open spec fn single_out(key: int, m: ::std::collections::BTreeMap<CrateName, ParsedData>) -> Seq<u8> {
    match single_data(m) { Some(d) => out_for(key, no_imports(), d), None => seq![] }
}
/// C17 for a folder: each crate's module file holds exactly what was generated for that crate in this run
pub open spec fn modules_written(key: int, imports: &CrateTypes, folder: &Path, entries: Seq<(CrateName, ParsedData)>, n: int, files: Map<int, Seq<u8>>) -> bool {
    forall|j: int| 0 <= j < n && out_for(key, imports, (#[trigger] entries[j]).1).len() > 0
        ==> files.dom().contains(module_id(folder, entries[j].1.file_name@)) && files[module_id(folder, entries[j].1.file_name@)] == out_for(key, imports, entries[j].1)
}
/// no two crates share a module file, and none is the post-generation file
pub open spec fn ids_distinct(folder: &Path, entries: Seq<(CrateName, ParsedData)>) -> bool {
    (forall|a: int, b: int| 0 <= a < entries.len() && 0 <= b < entries.len() && a != b ==> module_id(folder, entries[a].1.file_name@) != module_id(folder, entries[b].1.file_name@))
    && (forall|a: int| 0 <= a < entries.len() ==> module_id(folder, (#[trigger] entries[a]).1.file_name@) != post_id(folder))
}

// ---------- file-system calls: contracts ASSUMED (std documentation)
/// std::fs::read: "Reads the entire contents of a file into a bytes vector."  ASSUMPTION: reading an existing file succeeds
/// (an unreadable but identical file would be rewritten; stated, not hidden).
#[verifier::external_body]
fn fs_read(p: int, Tracked(log): Tracked<&FsLog>) -> (r: Result<Vec<u8>, IoError>)
    ensures match r { Ok(buf) => log.files.dom().contains(p) && buf@ == log.files[p], Err(_) => !log.files.dom().contains(p) }
{ unimplemented!() }
'''

CWF = [
    ins(A.text('output: Vec<u8>'), ', Tracked(log): Tracked<&mut FsLog>', where='after', cid=None),
    ins(A.ret(), '(res: ', where='before'), ins(A.ret(), ')', where='after'),
    ins(A.sig(), '''
    ensures
        /*C17*/ write_step(*old(log), pid(outfile), output@, res is Ok, *final(log)),
        /*unchanged => success*/ (old(log).files.dom().contains(pid(outfile)) && old(log).files[pid(outfile)] == output@) ==> res is Ok,
        /*empty output never writes*/ output@.len() == 0 ==> *final(log) == *old(log),
''', cid='check_write_file.contract'),
    ins(A.text('return Ok(());'), 'proof { assert(buf@ == output@); assert(log.files[pid(outfile)] == output@); }\n            ', where='before'),
    rep(A.text('fs::read(outfile)'), 'outlined_fs_read(outfile, Tracked(&*log))', tag='T3', cid='o_read'),
    rep(A.text('outfile.is_file()'), 'outlined_is_file(outfile, Tracked(&*log))', tag='T3', cid='o_isfile'),
    drop(A.text('info!("Skipping writing to {outfile:?} no changes");'), tag='T6', note='logging'),
    rep(A.span('outfile .parent()', 'format!("Could not get parent for {outfile:?}"))'), 'outlined_parent(outfile)', tag='T3', cid='o_parent'),
    rep(A.text('out_dir.exists()'), 'outlined_exists(out_dir)', tag='T3', cid='o_exists'),
    rep(A.text('fs::create_dir_all(out_dir).context("failed to create output directory")'), 'outlined_create_dir_all(out_dir, Tracked(log))',
        tag='T3', cid='o_mkdir'),
    rep(A.span('fs::write(outfile, output)', 'outfile.to_string_lossy()))'), 'outlined_fs_write(outfile, output, Tracked(log))', tag='T3', cid='o_write'),
]

WCF = [
    ins(A.text('output_folder: &str'), ', Tracked(log): Tracked<&mut FsLog>', where='after'),
    ins(A.ret(), '(res: ', where='before'), ins(A.ret(), ')', where='after'),
    ins(A.sig(), '''
        ensures
            /*C17 Codable.swift*/ write_step(*old(log), codable_path_id(output_folder@), codable_bytes(self), res is Ok, *final(log)),
    ''', cid='write_codable_file.contract'),
    ins(A.text('return Ok(());'), 'proof { assert(buf@ == contents@); }\n                ', where='before'),
    rep(A.text('Path::new(output_folder).join("Codable.swift")'), 'outlined_codable_path(output_folder)', tag='T3', cid='o_cpath'),
    rep(A.text('fs::read(&output_path)'), 'outlined_fs_read2(&output_path, Tracked(&*log))', tag='T3', cid='o_read2'),
    rep(A.text('fs::write(output_path, contents)'), 'outlined_fs_write2(output_path, contents, Tracked(log))', tag='T3', cid='o_write2'),
]

WMF = [
    ins(A.text('import_candidates: CrateTypes,'), ' Tracked(log): Tracked<&mut FsLog>,', where='after'),
    ins(A.ret(), '(res: ', where='before'), ins(A.ret(), ')', where='after'),
    ins(A.sig(), '''
    requires ids_distinct(output_folder, bt_entries(crate_parsed_data))
    ensures
        /*C17 C14: every crate's generated module goes through check_write_file - whatever the folder held before; one module per crate, holding what was generated from that crate's data*/
        res is Ok ==> modules_written(old(lang).gen_key(), &import_candidates, output_folder, bt_entries(crate_parsed_data),
                                      bt_entries(crate_parsed_data).len() as int, final(log).files),
''', cid='write_multiple_files.contract'),
    rep(A.text('for (_crate_name, parsed_data) in crate_parsed_data'), '''let ghost entries = bt_entries(crate_parsed_data);
    let ghost key0 = lang.gen_key();
    let mut it__ = bt_into_iter(crate_parsed_data);
    let ghost mut done: int = 0;
    proof { assert(entries.skip(0) =~= entries); }
    loop''', tag='T4', note='BTreeMap by-value iteration has no vstd ghost iterator'),
    ins(A.loop(0), '''
        invariant_except_break
            0 <= done <= entries.len(), bt_rest(it__) == entries.skip(done),
            ids_distinct(output_folder, entries),
            lang.gen_key() == key0, key0 == old(lang).gen_key(),
            modules_written(key0, &import_candidates, output_folder, entries, done, log.files),
        ensures
            modules_written(key0, &import_candidates, output_folder, entries, entries.len() as int, log.files), key0 == old(lang).gen_key(),
        decreases entries.len() - done
    ''', cid='write_multiple_files.invariant'),
    ins(A.loop_body(0), '''
        match bt_next(&mut it__) { Some((_crate_name, parsed_data)) => {
        proof { assert(entries.skip(done)[0] == entries[done]); assert(entries.skip(done).drop_first() =~= entries.skip(done + 1)); }
        let ghost fname = parsed_data.file_name@;
        let ghost out_i = out_for(key0, &import_candidates, parsed_data);
        let ghost files_before = log.files;''', tag='T4'),
    rep(A.text('Path::new(output_folder).join(&parsed_data.file_name)'), 'outlined_module_path(output_folder, &parsed_data)', tag='T3', cid='o_mpath'),
    ins(A.text('check_write_file(&outfile, generated_contents'), ', Tracked(log)', where='after'),
    ins(A.loop_end(0), '''
        proof {
            let id = module_id(output_folder, fname);
            assert forall|j: int| 0 <= j < done + 1 && out_for(key0, &import_candidates, (#[trigger] entries[j]).1).len() > 0
                implies log.files.dom().contains(module_id(output_folder, entries[j].1.file_name@)) && log.files[module_id(output_folder, entries[j].1.file_name@)] == out_for(key0, &import_candidates, entries[j].1) by {
                if j < done {
                    assert(module_id(output_folder, entries[j].1.file_name@) != id);
                    assert(files_before.dom().contains(module_id(output_folder, entries[j].1.file_name@)));
                }
            }
            done = done + 1;
        }
        } None => { break; } }
    ''', tag='T4'),
    rep(A.span('lang.post_generation(', '.context("Post generation failed")'), 'outlined_post_generation(lang, output_folder, Tracked(log))', tag='T3', cid='o_post'),
    ins(A.span('lang.post_generation(', '.context("Post generation failed")?;'), '''
    proof {
        assert forall|j: int| 0 <= j < entries.len() && out_for(key0, &import_candidates, (#[trigger] entries[j]).1).len() > 0
            implies log.files.dom().contains(module_id(output_folder, entries[j].1.file_name@)) && log.files[module_id(output_folder, entries[j].1.file_name@)] == out_for(key0, &import_candidates, entries[j].1) by {
            assert(module_id(output_folder, entries[j].1.file_name@) != post_id(output_folder));
        }
    }''', where='after'),
]

WSF = [
    ins(A.text('mut crate_parsed_data: BTreeMap<CrateName, ParsedData>,'), ' Tracked(log): Tracked<&mut FsLog>,', where='after'),
    ins(A.ret(), '(res: ', where='before'), ins(A.ret(), ')', where='after'),
    ins(A.sig(), '''
    ensures
        /*C17 single file: whatever the file held before, it now holds what this run generated*/
        (res is Ok && single_out(old(lang).gen_key(), crate_parsed_data).len() > 0) ==>
            final(log).files.dom().contains(pid(file_name)) && final(log).files[pid(file_name)] == single_out(old(lang).gen_key(), crate_parsed_data),
        others_untouched(old(log).files, final(log).files, pid(file_name)),
''', cid='write_single_file.contract'),
    rep(A.span('crate_parsed_data .remove(&SINGLE_FILE_CRATE_NAME)', '.context("Could not get parsed data for single file output")'),
        'outlined_single_data(&mut crate_parsed_data)', tag='T3', cid='o_single'),
    rep(A.text('&HashMap::new()'), '&outlined_no_imports()', tag='T3', cid='o_noimp'),
    rep(A.text('Path::new(file_name).to_path_buf()'), 'outlined_to_path_buf(file_name)', tag='T3', cid='o_pbuf'),
    ins(A.text('check_write_file(&outfile, output'), ', Tracked(log)', where='after'),
]

NC = {'compile': False}
UNIT = Unit(
    name='write',
    props=['C17', 'C07'],
    prelude=PRELUDE + r'''
/// bytes `write_codable` renders for this Swift configuration (text emission: uninterpreted)
pub uninterp spec fn codable_bytes(s: &Swift) -> Seq<u8>;
pub uninterp spec fn codable_string(s: &Swift) -> Seq<char>;
pub uninterp spec fn codable_path_id(folder: Seq<char>) -> int;
impl Swift {
    /// stand-in for Swift::get_codable_contents (format!): a pure function of the configuration
    #[verifier::external_body]
    fn get_codable_contents(&self) -> (r: String) ensures r@ == codable_string(self) { unimplemented!() }
    /// stand-in for Swift::write_codable (writeln! into dyn Write): appends the rendered bytes
    #[verifier::external_body]
    fn write_codable(&self, w: &mut Vec<u8>, output_string: &String) -> (r: Result<(), IoError>)
        ensures r is Ok && output_string@ == codable_string(self) ==> final(w)@ == old(w)@ + codable_bytes(self)
    { unimplemented!() }
}
''',
    items=[
        Item('check_write_file', 'cli/src/writer.rs', ['fn check_write_file'], CWF),
        Item('write_multiple_files', 'cli/src/writer.rs', ['fn write_multiple_files'], WMF),
        Item('write_single_file', 'cli/src/writer.rs', ['fn write_single_file'], WSF),
        Item('write_codable_file', 'core/src/language/swift.rs', ['impl Swift {', 'fn write_codable_file'], WCF,
             wrap=('impl Swift {\n', '\n}\n')),
    ],
    pre_verus='pub mod anyhow { pub type Error = crate::AnyhowError; pub type Result<T> = core::result::Result<T, crate::AnyhowError>; }\n'
              'use ::std::collections::BTreeMap;\n'
              'pub mod std { pub mod io { pub type Result<T> = core::result::Result<T, crate::IoError>; } }\n',
    outlines={
        'o_mpath': dict(NC, decl='''fn outlined_module_path(output_folder: &Path, parsed_data: &ParsedData) -> (r: PathBuf)
    ensures pbid(&r) == module_id(output_folder, parsed_data.file_name@)'''),
        'o_post': dict(NC, decl='''fn outlined_post_generation<L: Language + ?Sized>(lang: &mut L, output_folder: &Path, Tracked(log): Tracked<&mut FsLog>) -> (r: Result<(), AnyhowError>)
    ensures others_untouched(old(log).files, final(log).files, post_id(output_folder))   // a back end may write ONE extra file (Swift: Codable.swift)'''),
        'o_single': dict(NC, decl='''fn outlined_single_data(crate_parsed_data: &mut BTreeMap<CrateName, ParsedData>) -> (r: Result<ParsedData, AnyhowError>)
    ensures match r { Ok(d) => single_data(*old(crate_parsed_data)) == Some(d), Err(_) => single_data(*old(crate_parsed_data)) is None }'''),
        'o_noimp': dict(NC, decl='''fn outlined_no_imports() -> (r: &'static CrateTypes)
    ensures r == no_imports()'''),
        'o_pbuf': dict(NC, decl='''fn outlined_to_path_buf(file_name: &Path) -> (r: PathBuf)
    ensures pbid(&r) == pid(file_name)'''),
        'o_read': dict(NC, decl='''fn outlined_fs_read(outfile: &Path, Tracked(log): Tracked<&FsLog>) -> (r: Result<Vec<u8>, IoError>)
    ensures match r { Ok(buf) => log.files.dom().contains(pid(outfile)) && buf@ == log.files[pid(outfile)],
                      Err(_) => !log.files.dom().contains(pid(outfile)) }'''),
        'o_isfile': dict(NC, decl='''fn outlined_is_file(outfile: &Path, Tracked(log): Tracked<&FsLog>) -> (r: bool)
    ensures r == log.files.dom().contains(pid(outfile))   // the ghost file system holds regular files only: a pipe or device is not one of them'''),
        'o_parent': dict(NC, decl="fn outlined_parent<'a>(outfile: &'a Path) -> (r: Result<&'a Path, AnyhowError>)"),
        'o_exists': dict(NC, decl='fn outlined_exists(out_dir: &Path) -> bool'),
        'o_mkdir': dict(NC, decl='''fn outlined_create_dir_all(out_dir: &Path, Tracked(log): Tracked<&mut FsLog>) -> (r: Result<(), AnyhowError>)
    ensures *final(log) == *old(log)   // directories are not files of the log'''),
        'o_write': dict(NC, decl='''fn outlined_fs_write(outfile: &Path, output: Vec<u8>, Tracked(log): Tracked<&mut FsLog>) -> (r: Result<(), AnyhowError>)
    ensures
        r is Ok ==> final(log).files == old(log).files.insert(pid(outfile), output@),
        final(log).writes == old(log).writes.push(pid(outfile)),
        others_untouched(old(log).files, final(log).files, pid(outfile))'''),
        'o_cpath': dict(NC, decl='''fn outlined_codable_path(output_folder: &str) -> (r: PathBuf)
    ensures pbid(&r) == codable_path_id(output_folder@)'''),
        'o_read2': dict(NC, decl='''fn outlined_fs_read2(output_path: &PathBuf, Tracked(log): Tracked<&FsLog>) -> (r: Result<Vec<u8>, IoError>)
    ensures match r { Ok(buf) => log.files.dom().contains(pbid(output_path)) && buf@ == log.files[pbid(output_path)],
                      Err(_) => !log.files.dom().contains(pbid(output_path)) }'''),
        'o_write2': dict(NC, decl='''fn outlined_fs_write2(output_path: PathBuf, contents: Vec<u8>, Tracked(log): Tracked<&mut FsLog>) -> (r: Result<(), IoError>)
    ensures
        r is Ok ==> final(log).files == old(log).files.insert(pbid(&output_path), contents@),
        final(log).writes == old(log).writes.push(pbid(&output_path)),
        others_untouched(old(log).files, final(log).files, pbid(&output_path))'''),
    },
    epilogue=r'''
/// C17, history statement: after ANY earlier state of the output location, a successful step that produced a non-empty
/// `output` leaves exactly `output` in the file - so a file the last run is responsible for equals what a run into an
/// empty location would produce (given that generation is a function of the sources: C06's domain).
proof fn lemma_last_run_wins(h1: FsLog, h2: FsLog, id: int, output: Seq<u8>, a1: FsLog, a2: FsLog)
    requires output.len() > 0, write_step(h1, id, output, true, a1), write_step(h2, id, output, true, a2)
    ensures a1.files[id] == output, a2.files[id] == output, a1.files.dom().contains(id) && a2.files.dom().contains(id)
{}
/// C17, idempotence: repeating the step on its own result changes nothing at all (no write => mtime preserved)
proof fn lemma_rerun_is_noop(h: FsLog, id: int, output: Seq<u8>, a: FsLog, ok2: bool, b: FsLog)
    requires output.len() > 0, write_step(h, id, output, true, a), write_step(a, id, output, ok2, b)
    ensures b == a
{}
''',
    functions=['check_write_file', 'write_multiple_files', 'write_single_file', 'Swift::write_codable_file', 'lemma_last_run_wins', 'lemma_rerun_is_noop'],
    trusted=[
        'ghost file-system log (FsLog) inserted as an erasable tracked parameter; std::fs::read/write/create_dir_all, Path::parent/exists/join '
        'outlined (T3) with contracts taken from the std documentation; ASSUMED: reading an existing file succeeds',
        'Vec<u8> == Vec<u8> is content equality (vstd)',
        'Swift::get_codable_contents / write_codable are stubs: pure functions of the configuration (text emission, not under contract)',
        'Path / PathBuf / anyhow::Error / io::Error are opaque stubs with an uninterpreted path identity',
        'writer.rs loops: `Language` is a stub trait (generate_types appends out_for(gen_key, imports, data); ASSUMED: generating one crate does not '
        'change what is generated for another); BTreeMap by-value iteration through two trusted wrappers (entries in order, each once); '
        'precondition ids_distinct: no two crates map to the same module file and none to the post-generation file; post_generation may '
        'write one designated extra file only',
    ],
    undecided=[
        'files the last run is NOT responsible for (stale outputs of removed crates, a stale Codable.swift, an existing file when the new output is empty)',
        'that generation itself is a function of the sources only (C06); write_generated\'s dispatch and main.rs (which output mode, which files are parsed)',
        'real file-system behaviour beyond the ghost log (permissions, concurrent writers, partial writes)',
    ],
)

UNIT.crate_attrs = '#![feature(allocator_api)]   // only to NAME the allocator parameter of btree_map::IntoIter in an assumed specification'


# ------------------------------------------------------------------------------------ witness search / replay
NATIVE = r'''
#![allow(dead_code, unused)]
mod anyhow {
    pub type Error = String;
    pub type Result<T> = std::result::Result<T, String>;
    pub trait Context<T> {
        fn context<C: std::fmt::Display>(self, c: C) -> Result<T>;
        fn with_context<C: std::fmt::Display, F: FnOnce() -> C>(self, f: F) -> Result<T>;
    }
    impl<T, E: std::fmt::Display> Context<T> for std::result::Result<T, E> {
        fn context<C: std::fmt::Display>(self, c: C) -> Result<T> { self.map_err(|e| format!("{}: {}", c, e)) }
        fn with_context<C: std::fmt::Display, F: FnOnce() -> C>(self, f: F) -> Result<T> { self.map_err(|e| format!("{}: {}", f(), e)) }
    }
    impl<T> Context<T> for Option<T> {
        fn context<C: std::fmt::Display>(self, c: C) -> Result<T> { self.ok_or_else(|| c.to_string()) }
        fn with_context<C: std::fmt::Display, F: FnOnce() -> C>(self, f: F) -> Result<T> { self.ok_or_else(|| f().to_string()) }
    }
}
use anyhow::Context;
macro_rules! info { ($($t:tt)*) => {}; }

@CHECK_WRITE_FILE@

const OUTS: [&[u8]; 4] = [b"", b"short", b"a considerably longer generated output\n", b"shorT"];
fn run(seq: &[usize], nested: bool) -> Option<String> {
    let dir = std::env::temp_dir().join(format!("verif-write-{}-{}", std::process::id(), seq.iter().map(|x| x.to_string()).collect::<String>()));
    let _ = fs::remove_dir_all(&dir);
    fs::create_dir_all(&dir).unwrap();
    let path = if nested { dir.join("sub").join("out.txt") } else { dir.join("out.txt") };
    let other = dir.join("other.txt");
    fs::write(&other, b"bystander").unwrap();
    let mut res = None;
    for (step, &o) in seq.iter().enumerate() {
        let pre = fs::read(&path).ok();
        let pre_m = fs::metadata(&path).ok().and_then(|m| m.modified().ok());
        std::thread::sleep(std::time::Duration::from_millis(12));
        let r = std::panic::catch_unwind(|| check_write_file(&path, OUTS[o].to_vec()));
        let post = fs::read(&path).ok();
        let post_m = fs::metadata(&path).ok().and_then(|m| m.modified().ok());
        let msg = match r {
            Err(_) => Some("check_write_file panicked".to_string()),
            Ok(Err(e)) => Some(format!("check_write_file failed: {}", e)),
            Ok(Ok(())) => {
                if pre.as_deref() == Some(OUTS[o]) { if post_m != pre_m || post != pre { Some("unchanged output, but the file was rewritten (mtime or content changed)".to_string()) } else { None } }
                else if !OUTS[o].is_empty() { if post.as_deref() != Some(OUTS[o]) { Some(format!("file holds {:?} after a run that produced {:?} (earlier content leaks in)", post.map(|b| String::from_utf8_lossy(&b).to_string()), String::from_utf8_lossy(OUTS[o]))) } else { None } }
                else if post != pre { Some("empty output modified the file".to_string()) } else { None }
            }
        };
        if fs::read(&other).ok().as_deref() != Some(b"bystander".as_slice()) { res = Some("a file other than the output file was modified".to_string()); break; }
        if let Some(m) = msg { res = Some(format!("step {}: {}", step, m)); break; }
    }
    let _ = fs::remove_dir_all(&dir);
    res
}
fn main() {
    std::panic::set_hook(Box::new(|_| {}));
    let a: Vec<String> = std::env::args().collect();
    let report = |seq: &Vec<usize>, nested: bool, m: String| { println!("WITNESS {{\"input\": {{\"outputs_sequence\": {:?}, \"nested_dir\": {}, \"outputs\": [\"\", \"short\", \"a considerably longer generated output\\n\", \"shorT\"]}}, \"fails\": {:?}}}", seq, nested, m); std::process::exit(1); };
    if a.len() >= 4 && a[1] == "check" {
        let seq: Vec<usize> = a[2].split(',').filter(|x| !x.is_empty()).map(|x| x.parse().unwrap()).collect();
        if let Some(m) = run(&seq, a[3] == "true") { report(&seq, a[3] == "true", m); }
        println!("input passes"); return;
    }
    let mut tried = 0;
    for len in 1..=3usize { for code in 0..4usize.pow(len as u32) {
        let seq: Vec<usize> = (0..len).map(|i| (code / 4usize.pow(i as u32)) % 4).collect();
        for nested in [false, true] { if nested && len > 1 { continue; }
            tried += 1;
            if let Some(m) = run(&seq, nested) { report(&seq, nested, m); } }
    } }
    println!("no failing input among {} run sequences (up to 3 runs over 4 outputs) on a real temporary directory", tried);
}
'''


def native_source(raw):
    # the file's own `use std::...;` declarations are carried over so that an edited body still resolves its names
    import re
    import vunit
    uses = re.findall(r'^use std::[^;]*;', vunit.read_repo('cli/src/writer.rs'), flags=re.M | re.S)
    uses = [u for u in uses if 'typeshare' not in u]
    return NATIVE.replace('@CHECK_WRITE_FILE@', '\n'.join('#[allow(unused_imports)] ' + u for u in uses) + '\n' + raw('check_write_file'))


def replay_args(inp):
    return [','.join(str(x) for x in inp['outputs_sequence']), 'true' if inp['nested_dir'] else 'false']
