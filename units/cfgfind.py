"""U-cfgfind: cli/src/config.rs :: find_configuration_file, verbatim, over a stub PathBuf (a path is its sequence of components)
and an uninterpreted file system.  Serves C20 (configuration discovered by ancestor-directory search: the NEAREST typeshare.toml
wins), C07 (the search loop terminates)."""
from rsx import A, ins, rep, drop
from vunit import Item, Unit

PRELUDE = r'''
// ---------- T7: std::path::{Path, PathBuf} as sequences of components (the root directory is the empty sequence)
#[verifier::external_body] pub struct Component { _p: u8 }
#[verifier::external_body] pub struct Path { _p: u8 }
#[verifier::external_body] pub struct PathBuf { _p: u8 }
pub uninterp spec fn comps(p: &PathBuf) -> Seq<Component>;
pub uninterp spec fn pcomps(p: &Path) -> Seq<Component>;
/// the real file system: is there a regular file at this path?
pub uninterp spec fn fs_is_file(path: Seq<Component>) -> bool;
/// the single component `typeshare.toml`
pub uninterp spec fn config_name() -> Seq<Component>;
impl PathBuf {
    /// std: "Extends self with path" (relative, single component here)
    #[verifier::external_body]
    pub fn push(&mut self, path: &Path)
        ensures comps(final(self)) == comps(old(self)) + pcomps(path)
    { unimplemented!() }
    /// std: "Truncates self to self.parent. Returns false and does nothing if self.parent is None."
    #[verifier::external_body]
    pub fn pop(&mut self) -> (r: bool)
        ensures r == (comps(old(self)).len() > 0),
                r ==> comps(final(self)) == comps(old(self)).drop_last(),
                !r ==> comps(final(self)) == comps(old(self))
    { unimplemented!() }
    /// std: "Returns true if the path exists on disk and is pointing at a regular file."
    #[verifier::external_body]
    pub fn is_file(&self) -> (r: bool)
        ensures r == fs_is_file(comps(self))
    { unimplemented!() }
}
/// C20: `dir` is an ancestor-or-self of `cwd` (a prefix of its components) that holds a typeshare.toml
pub open spec fn holds_config(dir: Seq<Component>) -> bool { fs_is_file(dir + config_name()) }
pub open spec fn is_ancestor(dir: Seq<Component>, cwd: Seq<Component>) -> bool { dir.len() <= cwd.len() && cwd.subrange(0, dir.len() as int) == dir }
pub uninterp spec fn current_dir() -> Option<Seq<Component>>;
/// C20: the search result for a working directory: the NEAREST ancestor-or-self directory holding typeshare.toml, None iff there is none
pub open spec fn search_result(cwd: Seq<Component>, r: Option<PathBuf>) -> bool {
    match r {
        Some(p) => exists|dir: Seq<Component>| #![trigger is_ancestor(dir, cwd)] is_ancestor(dir, cwd) && holds_config(dir) && comps(&p) == dir + config_name()
            && forall|d2: Seq<Component>| #![trigger is_ancestor(d2, cwd)] is_ancestor(d2, cwd) && d2.len() > dir.len() ==> !holds_config(d2),
        None => forall|d2: Seq<Component>| #![trigger is_ancestor(d2, cwd)] is_ancestor(d2, cwd) ==> !holds_config(d2),
    }
}
'''

EDITS = [
    ins(A.ret(), '(r: ', where='before'), ins(A.ret(), ')', where='after'),
    ins(A.sig(), '''
    requires config_name().len() == 1
    ensures match current_dir() {
        None => r is None,
        Some(cwd) => /*C20*/ search_result(cwd, r),
    },
''', cid='find_configuration_file.contract'),
    rep(A.text('env::current_dir().ok()?'), 'outlined_current_dir()?', tag='T3', cid='o_cwd'),
    rep(A.text('Path::new(DEFAULT_CONFIG_FILE_NAME)'), 'outlined_config_name()', tag='T3', cid='o_name'),
    # T13: `break <value>` out of `loop` is not supported by Verus: lowered to an assignment to a fresh variable followed by `break`
    rep(A.text('break Some(path);'), '{ r__ = Some(path); break; }', tag='T13'),
    rep(A.text('break None;'), '{ r__ = None; break; }', tag='T13'),
    ins(A.loop_after(0), '''
    r__''', tag='T13'),
    ins(A.loop_body(0), '''
        let ghost dir = comps(&path);'''),
    ins(A.text('if path.is_file() {'), '''proof { assert(comps(&path) == dir + config_name()); }
        ''', where='before'),
    ins(A.text('break Some(path);'), '''proof { assert(is_ancestor(dir, cwd) && holds_config(dir)); }
            ''', where='before'),
    ins(A.text('break None;'), '''proof {
                // the file name was popped; the directory itself could not be popped: it is the root, the last ancestor
                assert((dir + config_name()).drop_last() =~= dir);
                assert(dir.len() == 0);
                assert forall|d2: Seq<Component>| #![trigger is_ancestor(d2, cwd)] is_ancestor(d2, cwd) implies !holds_config(d2) by {
                    if d2.len() == 0 { assert(d2 =~= dir); }
                }
            }
            ''', where='before'),
    ins(A.loop_end(0), '''
        proof {
            assert((dir + config_name()).drop_last() =~= dir);
            let parent = dir.drop_last();
            assert(comps(&path) == parent);
            assert(is_ancestor(parent, cwd)) by { assert(cwd.subrange(0, parent.len() as int) =~= cwd.subrange(0, dir.len() as int).subrange(0, parent.len() as int)); }
            assert forall|d2: Seq<Component>| #![trigger is_ancestor(d2, cwd)] is_ancestor(d2, cwd) && d2.len() > parent.len() implies !holds_config(d2) by {
                if d2.len() == dir.len() { assert(d2 =~= dir); }
            }
        }
    '''),
    ins(A.text('loop {'), '''let r__: Option<PathBuf>;
    let ghost cwd = comps(&path);
    proof { assert(cwd.subrange(0, cwd.len() as int) =~= cwd); }
    ''', where='before'),
    ins(A.loop(0), '''
        invariant_except_break
            is_ancestor(comps(&path), cwd),
            forall|d2: Seq<Component>| #![trigger is_ancestor(d2, cwd)] is_ancestor(d2, cwd) && d2.len() > comps(&path).len() ==> !holds_config(d2),
        invariant
            pcomps(file) == config_name(), config_name().len() == 1, current_dir() == Some(cwd),
        ensures search_result(cwd, r__),
        decreases comps(&path).len()
    ''', cid='find_configuration_file.invariant'),
]

UNIT = Unit(
    name='cfgfind',
    props=['C20', 'C07'],
    prelude=PRELUDE,
    items=[Item('find_configuration_file', 'cli/src/config.rs', ['fn find_configuration_file'], EDITS)],
    outlines={
        'o_cwd': {'decl': '''fn outlined_current_dir() -> (r: Option<PathBuf>)
    ensures match r { Some(p) => current_dir() == Some(comps(&p)), None => current_dir() is None }''', 'compile': False},
        'o_name': {'decl': '''fn outlined_config_name() -> (r: &'static Path)
    ensures pcomps(r) == config_name()''', 'compile': False},
    },
    functions=['find_configuration_file'],
    trusted=[
        'T7: Path / PathBuf are stubs: a path is the sequence of its components, the root is the empty sequence; push / pop / is_file carry the '
        'contracts quoted from the std documentation; the file system is an uninterpreted predicate fs_is_file',
        'outlined (T3): env::current_dir().ok() and Path::new("typeshare.toml") (one component)',
    ],
    undecided=['load_config (which of -c / discovered file / default is used: Option / Cow combinators) and the TOML parse'],
)
