"""U-fmt_scala: Scala's type-expression translator (see fmtcommon)."""
from rsx import A, ins, rep, drop
import fmtcommon as F

SRC = 'core/src/language/scala.rs'

SPECIAL = F.SPECIAL_HEAD + F.special_key_reps(2)

UNIT = F.make_unit('fmt_scala', 'Scala', SRC, 'Scala',
                   'TCfg { lang: Lang::Scala, map: self.type_mappings@, prefix: Seq::empty(), no_pointer_slice: false }',
                   '', SPECIAL,
                   overrides={'format_generic_parameters': (F.generic_parameters('[', ']'), ('fmt',))})


def native(workdir):
    import typesearch
    return typesearch.native(workdir)


def replay_args(inp):
    import typesearch
    return typesearch.replay_args(inp)
