"""U-errgate: cli/src/main.rs::check_parse_errors and ::generate_types, verbatim.  Serves C08 (kernel): a parse error recorded for any
crate makes check_parse_errors answer Err (and only then), and generate_types reaches the writer only with data for which the check
answered Ok - so a recorded error ends the run with an error before anything is written.  (That the parser RECORDS an error for each
unsupported construct is syn code: bounded stand-in cli_unsupported.  That recorded errors survive merging is proved in unit merge.)
C07: the two clap-guaranteed panics are unreachable under the stated preconditions."""
from rsx import A, ins, rep, drop
from vunit import Item, Unit
import cfg

FEATS = {'go', 'python'}

PRE_VERUS = r'''
use std::collections::{BTreeMap, HashMap};
// T7: opaque stand-ins
pub mod anyhow { use vstd::prelude::*; verus! { #[verifier::external_body] pub struct Error { _p: u8 } }
    pub type Result<T> = core::result::Result<T, Error>; }
pub mod clap_complete { use vstd::prelude::*; verus! { #[verifier::external_body] pub struct Shell { _p: u8 } } }
pub mod args { pub use crate::AvailableLanguage; }
'''

PRELUDE = r'''
// ---------- T7 stubs
#[verifier::external_body] pub struct Path { _p: u8 }      // std::path::Path is unsized: cannot be an external type specification
#[verifier::external_body] pub struct PathBuf { _p: u8 }
impl core::ops::Deref for PathBuf { type Target = Path; #[verifier::external_body] fn deref(&self) -> (r: &Path) { unimplemented!() } }
#[verifier::external_body] pub struct CrateName { _p: u8 }
#[verifier::external_body] pub struct CrateTypes { _p: u8 }
#[verifier::external_body] pub struct ParsedRest { _p: u8 }
#[verifier::external_body] pub struct WalkBuilder { _p: u8 }
pub struct ErrorInfo { pub file_name: String, pub error: String }
/// only the field main.rs reads is modelled (the real struct: core/src/parser.rs, under contract in unit merge)
pub struct ParsedData { pub errors: Vec<ErrorInfo>, pub rest: ParsedRest }
/// `Box<dyn Language>` (trait objects are outside Verus); which back end with which settings: unit langwire
#[verifier::external_body] pub struct LangBox { _p: u8 }
impl LangBox {
    #[verifier::external_body] pub fn ignored_reference_types(&self) -> Vec<&'static str> { unimplemented!() }
}

/// the per-crate results, in key order
pub uninterp spec fn bt_vals<K, V>(m: BTreeMap<K, V>) -> Seq<V>;
/// C08: some crate's result carries a parse error
pub open spec fn has_errors(m: BTreeMap<CrateName, ParsedData>) -> bool {
    exists|j: int| 0 <= j < bt_vals(m).len() && (#[trigger] bt_vals(m)[j]).errors@.len() > 0
}
/// T4: `map.values()` as the vector of references it yields (ASSUMED std semantics: each value once, in key order)
#[verifier::external_body]
fn bt_values<'a, K, V>(m: &'a BTreeMap<K, V>) -> (r: Vec<&'a V>)
    ensures r@.len() == bt_vals(*m).len(), forall|j: int| 0 <= j < r@.len() ==> *#[trigger] r@[j] == bt_vals(*m)[j]
{ unimplemented!() }
/// anyhow!(literal)
#[verifier::external_body] fn anyhow_msg(msg: &str) -> anyhow::Error { unimplemented!() }

// ---------- what generate_types calls (contracts: what the units named there prove or what is ASSUMED)
/// config::load_config(..).context(..)
#[verifier::external_body] fn outlined_load_config(config_file: Option<&Path>) -> anyhow::Result<Config> { unimplemented!() }
/// unit cfg
#[verifier::external_body] fn override_configuration(config: Config, options: &Args) -> anyhow::Result<Config> { unimplemented!() }
/// unit langwire
#[verifier::external_body] fn language(language_type: SupportedLanguage, config: Config, multi_file: bool) -> LangBox { unimplemented!() }
#[verifier::external_body] fn walker_builder(directories: &[PathBuf], options: &Args) -> anyhow::Result<WalkBuilder> { unimplemented!() }
/// C08: whether this run's parse recorded an error for some crate (one unknown fact about the run; parallel_parse is called once)
pub uninterp spec fn run_has_errors() -> bool;
/// threads + syn: whatever it returns - what it returns IS the run's parse result
#[verifier::external_body]
fn parallel_parse(parse_context: &ParseContext, walker_builder: WalkBuilder, language_type: SupportedLanguage) -> (r: anyhow::Result<BTreeMap<CrateName, ParsedData>>)
    ensures r is Ok ==> has_errors(r->Ok_0) == run_has_errors()
{ unimplemented!() }
/// ASSUMED at map level (per crate proved in unit merge: the sort block leaves `errors` alone): reconciling aliases neither adds nor drops recorded errors
#[verifier::external_body]
fn reconcile_aliases(crate_parsed_data: &mut BTreeMap<CrateName, ParsedData>)
    ensures has_errors(*final(crate_parsed_data)) == has_errors(*old(crate_parsed_data))
{ unimplemented!() }
/// ASSUMED (cli/src/parse.rs: mem::take of `type_names` only): collecting the type names neither adds nor drops recorded errors
#[verifier::external_body]
fn all_types(file_mappings: &mut BTreeMap<CrateName, ParsedData>) -> (r: CrateTypes)
    ensures has_errors(*final(file_mappings)) == has_errors(*old(file_mappings))
{ unimplemented!() }
#[verifier::external_body] fn outlined_no_imports() -> CrateTypes { unimplemented!() }
'''

WRITER_TAIL = r'''
    /// the only function of this run that creates or modifies output files (units write / genloop say what it writes).
    /// C08 is its PRECONDITION: it is entered only in a run whose parse recorded no error (and with data that carries none).
    #[verifier::external_body]
    pub fn write_generated(destination: Output<'_>, lang: &mut LangBox, crate_parsed_data: BTreeMap<CrateName, ParsedData>, import_candidates: CrateTypes) -> (r: anyhow::Result<()>)
        requires /*C08: nothing is written for a run with a recorded parse error*/ !run_has_errors(), !has_errors(crate_parsed_data)
    { unimplemented!() }
}
use writer::write_generated;
'''

CHECK = [
    ins(A.ret(), '(r: ', where='before'), ins(A.ret(), ')', where='after'),
    ins(A.sig(), '''
    ensures /*C08: an error recorded for any crate makes the check fail - and nothing else does*/ r is Err <==> has_errors(*parsed_crates),
''', cid='check_parse_errors.contract'),
    rep(A.span('for data in parsed_crates', '.filter(|parsed_data|'),
        '''let vals__ = bt_values(parsed_crates);
    for data in it: vals__.iter()
        invariant
            vals__@.len() == bt_vals(*parsed_crates).len(),
            forall|j: int| 0 <= j < vals__@.len() ==> *#[trigger] vals__@[j] == bt_vals(*parsed_crates)[j],
            errors_encountered <==> exists|j: int| 0 <= j < it.index@ && (#[trigger] bt_vals(*parsed_crates)[j]).errors@.len() > 0,
    { let parsed_data = data; if ''', tag='T4', note='BTreeMap::values() has no vstd ghost iterator; `.filter(|p| C)` on the loop source becomes `let p = item; if C` around the loop '
                                                   'body (T14b) - the condition itself stays the source\'s text'),
    drop(A.next_tok('.filter(|parsed_data| !parsed_data.errors.is_empty()', ')'), tag='T14b', note='closing parenthesis of .filter('),
    ins(A.loop_body(0), ' proof { assert(*data == bt_vals(*parsed_crates)[it.index@]); }', tag='T14b'),
    ins(A.loop_end(0), '} // if (filter)\n    ', tag='T14b'),
    rep(A.text('for error in &data.errors'), 'for error in it2: data.errors.iter()', tag='T4'),
]

GEN = [
    ins(A.ret(), '(res: ', where='before'), ins(A.ret(), ')', where='after'),
    ins(A.sig(), '''
    requires
        /*C07: clap guarantees both (required arguments); the two panics say so*/
        options.language is Some, options.output.file is Some || options.output.folder is Some,
''', cid='generate_types.contract'),
    rep(A.span('config::load_config(config_file)', '.context("Unable to read configuration file")'), 'outlined_load_config(config_file)', tag='T3'),
]

CHECK_AUTO = ('log', ('tok', 'anyhow!(', 'anyhow_msg(', 'T9'))
AUTO = ('log', ('tok', 'Output::File(', 'writer::Output::File(', 'T2'), ('tok', 'Output::Folder(', 'writer::Output::Folder(', 'T2'),
        ('tok', 'HashMap::new()', 'outlined_no_imports()', 'T3'), ('tok', 'lang.as_mut()', '&mut lang', 'T7'))


def make_unit():
    types = [it for it in cfg.make_unit(FEATS, 'errgate_types').items if it.name.startswith(('struct_', 'enum_'))]
    copy = ('#[derive(Clone, Copy)] // T5: of the source\'s derive list, the marker traits main.rs relies on\n', '')
    for it in types:
        if it.name == 'enum_AvailableLanguage':
            it.wrap = copy
    items = types + [
        Item('enum_SupportedLanguage', 'core/src/language/mod.rs', ['enum SupportedLanguage'], wrap=copy),
        Item('struct_ParseContext', 'core/src/context.rs', ['struct ParseContext']),
        Item('enum_writer_Output', 'cli/src/writer.rs', ['enum Output'], wrap=('pub mod writer { // T2: main.rs imports it from here; args::Output is a different type\n    use super::*;\n', WRITER_TAIL)),
        Item('check_parse_errors', 'cli/src/main.rs', ['fn check_parse_errors'], CHECK, features=FEATS, auto=CHECK_AUTO),
        Item('generate_types', 'cli/src/main.rs', ['fn generate_types'], GEN, features=FEATS, auto=AUTO),
    ]
    return Unit(
        name='errgate', props=['C08', 'C07'], pre_verus=PRE_VERUS, prelude=PRELUDE, items=items,
        functions=['check_parse_errors', 'generate_types'],
        trusted=[
            'T4: BTreeMap::values() as the vector of the values in key order; the `.filter(P)` of the loop source as `if P` around the loop body',
            'ASSUMED: reconcile_aliases and all_types neither add nor drop recorded errors (per crate: unit merge, sort block; all_types takes only `type_names`)',
            'ASSUMED: write_generated is the only function called here that creates or modifies output files',
            'stubs: load_config, override_configuration (unit cfg), language (unit langwire), walker_builder, parallel_parse (threads + syn: any result)',
        ],
        undecided=[
            'that the parser records an error for each documented-unsupported construct (syn) - bounded stand-in cli_unsupported',
            'cargo feature sets other than {go, python} (the match on --lang has fewer arms there; the flow after it is the same text)',
            'that an Err from parallel_parse / walker_builder is all that happens on that path (no output code is called before them: visible in the verified text)',
        ],
    )


UNIT = make_unit()
UNIT.allowed_calls = {'is_empty', 'clone', 'len', 'as_slice', 'iter', 'ignored_reference_types', 'is_err', 'is_ok', 'is_some', 'is_none'}     # the last four: vstd specifications


def native(workdir):
    import cli_unsupported
    return cli_unsupported.native(workdir)


def replay_args(inp):
    import cli_unsupported
    return cli_unsupported.replay_args(inp)
