"""bounded stand-in for C12: helper names used by the generated code of all six languages are defined or imported there (replay binary,
public API of /repo/core)"""
import os

import kf_replay


def native(workdir):
    """bounded search on the REAL crates through parse() and generate_types of all six back ends: 384 programs - 8 trigger types ((), u8, u16,
    u32, U53, OffsetDateTime, Vec<u32>, HashMap<String, u32>) x 9 nestings (X, Vec<X>, Option<X>, Vec<Vec<X>>, Option<Vec<X>>,
    HashMap<String, X>, HashMap<String, Vec<X>>, [X; 2], Wrap<X>) x 5 positions (struct field, tuple-variant payload, struct-variant field,
    alias target, a struct field with serde(default)), plus 24 generic-parameter programs.  In the generated text of every language (comments and strings removed with that language's lexer) every helper name
    typeshare brings in - Swift CodableVoid; Scala UByte / UShort / UInt / ULong; Python List / Dict / Optional / datetime / BaseModel / Field /
    Literal / Union / Enum / TypeVar / Generic / Annotated / BeforeValidator / ConfigDict; Go time. / json.; TypeScript ReviverFunc - that is
    used as a whole token must be defined or imported in the same output.  Further rules: TypeScript - Date / a mapped Uint8Array in code implies the ReviverFunc /
    ReplacerFunc footer; Python - every TypeVar used is declared, every function named in BeforeValidator(..) / PlainSerializer(..) is defined;
    Scala with one unsigned integer mapped - the other aliases are still defined; Swift with one module per crate - CodableVoid used in a
    module implies that post_generation writes a Codable.swift defining it."""
    exe = kf_replay.replay_bin()
    if not exe:
        return None, 'replay binary does not build: ' + kf_replay._bin.get('err', '')
    w = os.path.join(workdir, 'native_helpersearch.sh')
    with open(w, 'w') as f:
        f.write('#!/bin/sh\nsub=$1; shift\nexec %s helper-$sub "$@"\n' % exe)
    os.chmod(w, 0o755)
    return w, ''


def replay_args(inp):
    return [str(inp['trigger']), str(inp['nest']), str(inp['position'])]
