"""bounded stand-in for C04: has_default / Option depth as the parser records them, and the member every back end writes, against the
property's idiom list (replay binary, public API of /repo/core)"""
import os

import kf_replay


def native(workdir):
    """bounded search on the REAL crates through parse() and generate_types of all six back ends: 378 members - 7 base types (u32, String,
    Vec<u32>, a user type, a generic parameter, HashMap, OffsetDateTime for the back ends that accept it) x 6 shapes (T, Option<T>, Option<Option<T>>, Box<Option<T>>, Option<Box<T>>,
    Option<Vec<Option<T>>>) x 9 attribute forms (none, bare serde(default) alone / merged before / after rename / in a second attribute,
    default = "fn" and skip_serializing_if, which must NOT make the member optional, a per-language type override with and without default) - each as a struct field and as a struct-variant field.
    has_default must be set exactly for the bare default; the member must be written in the target's idiom with the optional marker present
    exactly when Option<T> or bare default (TS `?` and `| null`, Kotlin `= null` / `? = null`, Swift `?`, Scala `= None`, Go pointer +
    omitempty, Python Optional + default None) around the back end's own translation of the type (or the override); Swift's initialiser parameters must repeat type text and marker.  Scala's recorded finding (non-Option
    member with default written `T = _`) is excluded here and replayed separately."""
    exe = kf_replay.replay_bin()
    if not exe:
        return None, 'replay binary does not build: ' + kf_replay._bin.get('err', '')
    w = os.path.join(workdir, 'native_optsearch.sh')
    with open(w, 'w') as f:
        f.write('#!/bin/sh\nsub=$1; shift\nexec %s opt-$sub "$@"\n' % exe)
    os.chmod(w, 0o755)
    return w, ''


def replay_args(inp):
    return [str(inp['case'])]
