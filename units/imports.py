"""U-imports: core/src/language/mod.rs::used_imports (the loop, verbatim) and its `fallback` closure (lifted, T11), over stub containers.
Serves C14 (kernel): the imports computed for one output module name only types that the module they are imported from defines, never
the module's own crate, and contain every referenced type (or, for a glob, every type) that another generated module defines under
the crate the reference names.  C07."""
from rsx import A, ins, rep, drop
from vunit import Item, Unit

SRC = 'core/src/language/mod.rs'

PRE_VERUS = r'''
'''

PRELUDE = r'''
// ---------- T7 stubs: names and containers (std HashMap / HashSet / BTreeMap / BTreeSet behind type aliases in the source)
#[verifier::external_body] pub struct CrateName { _p: u8 }
impl View for CrateName { type V = Seq<char>; uninterp spec fn view(&self) -> Seq<char>; }
/// derived PartialEq: equal iff the same name
impl vstd::std_specs::cmp::PartialEqSpecImpl for CrateName {
    open spec fn obeys_eq_spec() -> bool { true }
    open spec fn eq_spec(&self, other: &Self) -> bool { self@ == other@ }
}
impl PartialEq for CrateName { #[verifier::external_body] fn eq(&self, other: &Self) -> (r: bool) { unimplemented!() } }
pub type TypeName = String;

pub type Names = Set<Seq<char>>;
pub type Table = Map<Seq<char>, Names>;

/// HashSet<TypeName>: the type names one crate defines
#[verifier::external_body] pub struct TypeNames { _p: u8 }
impl TypeNames {
    pub uninterp spec fn tn(&self) -> Names;
    /// std: HashSet::get
    #[verifier::external_body]
    pub fn get(&self, k: &String) -> (r: Option<&String>)
        ensures match r { Some(t) => t@ == k@ && self.tn().contains(k@), None => !self.tn().contains(k@) }
    { unimplemented!() }
}
/// CrateTypes = HashMap<CrateName, HashSet<TypeName>>: crate -> the types its generated module defines
#[verifier::external_body] pub struct CrateTypes { _p: u8 }
impl CrateTypes {
    pub uninterp spec fn ct(&self) -> Table;
    /// std: HashMap::get
    #[verifier::external_body]
    pub fn get(&self, k: &CrateName) -> (r: Option<&TypeNames>)
        ensures match r { Some(s) => self.ct().dom().contains(k@) && s.tn() == self.ct()[k@], None => !self.ct().dom().contains(k@) }
    { unimplemented!() }
}
/// ScopedCrateTypes = BTreeMap<&CrateName, BTreeSet<&str>>: module -> names imported from it
#[verifier::external_body] pub struct ScopedCrateTypes<'a> { _p: &'a u8 }
impl<'a> View for ScopedCrateTypes<'a> { type V = Table; uninterp spec fn view(&self) -> Table; }
pub open spec fn names_at(m: Table, k: Seq<char>) -> Names { if m.dom().contains(k) { m[k] } else { Set::empty() } }
/// `BTreeMap::new()`
#[verifier::external_body]
fn new_scoped<'a>() -> (r: ScopedCrateTypes<'a>) ensures r@ == Map::<Seq<char>, Names>::empty() { unimplemented!() }
/// ASSUMED (entry API): `m.entry(k).and_modify(|v| { v.insert(t); }).or_insert(BTreeSet::from([t]))` records the pair and changes nothing else
#[verifier::external_body]
fn add_one<'a>(m: &mut ScopedCrateTypes<'a>, k: &'a CrateName, t: &'a String)
    ensures final(m)@ == old(m)@.insert(k@, names_at(old(m)@, k@).insert(t@))
{ unimplemented!() }
/// ASSUMED (entry API): `m.entry(k).or_insert_with(BTreeSet::new).extend(names.iter().map(|s| s.as_str()))` records every name and changes nothing else
#[verifier::external_body]
fn add_all<'a>(m: &mut ScopedCrateTypes<'a>, k: &'a CrateName, names: &'a TypeNames)
    ensures final(m)@ == old(m)@.insert(k@, names_at(old(m)@, k@).union(names.tn()))
{ unimplemented!() }

/// HashSet<ImportedType>: the (crate, type name) references collected from one crate's sources
#[verifier::external_body] pub struct ImportSet { _p: u8 }
impl ImportSet { pub uninterp spec fn refs(&self) -> Set<(Seq<char>, Seq<char>)>; }
/// the fields used_imports reads (the real struct: core/src/parser.rs, unit merge)
pub struct ParsedData { pub import_types: ImportSet, pub crate_name: CrateName }
/// T4: `set.iter()` as a vector of references, in whatever order the set yields them (ASSUMED: every element occurs)
#[verifier::external_body]
fn import_vec<'a>(s: &'a ImportSet) -> (r: Vec<&'a ImportedType>)
    ensures forall|p: (Seq<char>, Seq<char>)| s.refs().contains(p) ==> exists|j: int| 0 <= j < r@.len() && #[trigger] refof(*r@[j]) == p
{ unimplemented!() }
pub open spec fn refof(i: ImportedType) -> (Seq<char>, Seq<char>) { (i.base_crate@, i.type_name@) }

// ---------- C14 vocabulary
/// no import names a type that its source module does not define - and a module never imports from itself
pub open spec fn imports_sound(r: Table, ct: Table, cur: Seq<char>) -> bool {
    forall|k: Seq<char>, t: Seq<char>| r.dom().contains(k) && #[trigger] r[k].contains(t) ==> k != cur && ct.dom().contains(k) && ct[k].contains(t)
}
/// what one reference (crate c, name n) demands of the import table: the named type - every type for a glob - when another generated module
/// defines it under that crate
pub open spec fn demand_met(r: Table, ct: Table, cur: Seq<char>, c: Seq<char>, n: Seq<char>) -> bool {
    (c != cur && ct.dom().contains(c)) ==>
        (n == "*"@ ==> r.dom().contains(c) && ct[c].subset_of(r[c]))
        && (n != "*"@ && ct[c].contains(n) ==> r.dom().contains(c) && r[c].contains(n))
}
pub open spec fn grows(a: Table, b: Table) -> bool {
    forall|k: Seq<char>| #[trigger] a.dom().contains(k) ==> b.dom().contains(k) && a[k].subset_of(b[k])
}
proof fn lemma_demand_mono(a: Table, b: Table, ct: Table, cur: Seq<char>, c: Seq<char>, n: Seq<char>)
    requires grows(a, b), demand_met(a, ct, cur, c, n)
    ensures demand_met(b, ct, cur, c, n)
{
    if c != cur && ct.dom().contains(c) {
        if n == "*"@ { assert(a.dom().contains(c)); assert(a[c].subset_of(b[c])); }
        else if ct[c].contains(n) { assert(a.dom().contains(c)); assert(a[c].subset_of(b[c])); }
    }
}

/// T14b - `all_types.iter().flat_map(|(k, v)| v.iter().find(|&t| P(k, t)).map(|t| (k, t))).next()`: the first pair (crate k, one of its type names t)
/// that satisfies P, as a search function taking P; P itself stays the source's text, as a closure with a stated contract.
/// ASSUMED (std iterator semantics): an answer is a pair (k, t) with t one of the names `all_types` lists under k, for which P answered true
#[verifier::external_body]
fn find_reexport<'a, F: Fn(&CrateName, &String) -> bool>(all_types: &'a CrateTypes, f: F) -> (r: Option<(&'a CrateName, &'a String)>)
    requires forall|k: &CrateName, t: &String| #[trigger] f.requires((k, t))
    ensures match r { Some((k, t)) => f.ensures((k, t), true) && all_types.ct().dom().contains(k@) && all_types.ct()[k@].contains(t@), None => true }
{ unimplemented!() }
'''

FALLBACK_WRAP = ('''/// T11: the body of the closure `fallback` of used_imports, its captured variables (all_types, data) as parameters
fn fallback<'a, 'b: 'a>(all_types: &'a CrateTypes, data: &'b ParsedData, referenced_import: &'a ImportedType, used: &mut ScopedCrateTypes<'a>)
    ensures
        /*C14*/ imports_sound(old(used)@, all_types.ct(), data.crate_name@) ==> imports_sound(final(used)@, all_types.ct(), data.crate_name@),
        grows(old(used)@, final(used)@),
{
''', '\n}\n')

FALLBACK = [
    rep(A.span('all_types .iter() .flat_map(|(k, v)| {', '.find(|&t|'),
        'find_reexport(all_types, |k: &CrateName, t: &String| -> (b: bool) '
        'ensures /*C14: a re-export is looked for under the reference\'s type name, in a crate other than the one being written*/ '
        'b == (t@ == referenced_import.type_name@ && k@ != data.crate_name@) {', tag='T14b',
        note='the search over all (crate, type name) pairs becomes a function taking the predicate; the predicate stays the source\'s text'),
    rep(A.span(') .map(|t| (k, t))', '.min_by(|a, b| a.0.cmp(b.0))'), '})', tag='T14b', note='end of the predicate closure / of the search (which of several answers is taken - the smallest crate name - is not part of the contract)'),
    rep(A.span('used.entry(crate_name)', '.or_insert(BTreeSet::from([ty.as_str()]));'), 'add_one(used, crate_name, ty);', tag='T3', note='entry API'),
]

MAIN = [
    ins(A.ret(), '(r: ', where='before'), ins(A.ret(), ')', where='after'),
    ins(A.sig(), '''
    ensures
        /*C14: no import names a type that its source module does not define (nor the module's own crate)*/
        imports_sound(r@, all_types.ct(), data.crate_name@),
        /*C14: every type used here and defined in another generated module is imported from precisely that module*/
        forall|c: Seq<char>, n: Seq<char>| #[trigger] data.import_types.refs().contains((c, n)) ==> demand_met(r@, all_types.ct(), data.crate_name@, c, n),
''', cid='used_imports.contract'),
    drop(A.span("let fallback = |referenced_import: &'a ImportedType", '} ;'), tag='T11', loose=True,
         note='the closure is verified as the lifted function `fallback` (its captured variables as parameters)'),
    rep(A.span('for referenced_import in data', '.filter(|imp|'),
        '''let imports__ = import_vec(&data.import_types);
    let ghost ct = all_types.ct();
    let ghost cur = data.crate_name@;
    for referenced_import in it: imports__.iter()
        invariant
            ct == all_types.ct(), cur == data.crate_name@,
            imports_sound(used_imports@, ct, cur),
            forall|j: int| 0 <= j < it.index@ ==> demand_met(used_imports@, ct, cur, (#[trigger] imports__@[j]).base_crate@, imports__@[j].type_name@),
    { let ghost before = used_imports@; proof { assert(*referenced_import == imports__@[it.index@]); reveal_strlit("*"); } let imp = referenced_import; if ''', tag='T4',
        note='HashSet::iter() has no vstd ghost iterator here; `.filter(|p| C)` on the loop source becomes `let p = item; if C` around the body (T14b), C verbatim'),
    drop(A.next_tok('.filter(|imp| imp.base_crate != data.crate_name', ')'), tag='T14b', note='closing parenthesis of .filter('),
    rep(A.span('used_imports .entry(&referenced_import.base_crate) .or_insert_with(', '.extend(type_names.iter().map(|s| s.as_str()));'),
        'add_all(&mut used_imports, &referenced_import.base_crate, type_names);', tag='T3', note='entry API'),
    rep(A.span('used_imports .entry(&referenced_import.base_crate) .and_modify(', '.or_insert(BTreeSet::from([ty_name.as_str()]));'),
        'add_one(&mut used_imports, &referenced_import.base_crate, ty_name);', tag='T3', note='entry API'),
    ins(A.loop_end(0), '''} // if (filter)
        proof {
            assert(grows(before, used_imports@));
            assert forall|j: int| 0 <= j < it.index@ + 1 implies demand_met(used_imports@, ct, cur, (#[trigger] imports__@[j]).base_crate@, imports__@[j].type_name@) by {
                if j < it.index@ { lemma_demand_mono(before, used_imports@, ct, cur, imports__@[j].base_crate@, imports__@[j].type_name@); }
            }
        }
    ''', tag='T14b'),
    ins(A.loop_after(0), '''
    proof {
        assert forall|c: Seq<char>, n: Seq<char>| #[trigger] data.import_types.refs().contains((c, n)) implies demand_met(used_imports@, ct, cur, c, n) by {
            let j = choose|j: int| 0 <= j < imports__@.len() && #[trigger] refof(*imports__@[j]) == (c, n);
            assert(demand_met(used_imports@, ct, cur, imports__@[j].base_crate@, imports__@[j].type_name@));
        }
    }''', tag='T1'),
]

AUTO = ('log', ('tok', 'BTreeMap::new()', 'new_scoped()', 'T7'),
        # T15: `String == "lit"` (std: compares as str) has no specification in vstd, `as_str() == "lit"` has; a leftover comparison of the field is forbidden below
        ('tok', 'referenced_import.type_name == "*"', 'referenced_import.type_name.as_str() == "*"', 'T15'),
        ('tok', 'fallback(referenced_import, &mut used_imports)', 'fallback(all_types, data, referenced_import, &mut used_imports)', 'T11'))

UNIT = Unit(
    name='imports', props=['C14', 'C07'], pre_verus=PRE_VERUS, prelude=PRELUDE,
    items=[
        Item('struct_ImportedType', 'core/src/visitors.rs', ['struct ImportedType']),
        Item('fallback', SRC, ['fn used_imports'], FALLBACK, wrap=FALLBACK_WRAP,
             # T15: `&String == &String` (std: compares the referents) has no specification in vstd, `*a == b` has
             auto=('log', ('tok', 't == &referenced_import.type_name', '*t == referenced_import.type_name', 'T15')),
             block=(A.text("let fallback = |referenced_import: &'a ImportedType, used: &mut ScopedCrateTypes<'a>| {"), A.text('}; for referenced_import in data'))),
        Item('used_imports', SRC, ['fn used_imports'], MAIN, auto=AUTO),
    ],
    functions=['fallback', 'used_imports'],
    trusted=[
        'T7: CrateTypes / HashSet<TypeName> / ScopedCrateTypes / HashSet<ImportedType> are stub containers with the std lookups (`get`) specified; CrateName equality is equality of the name',
        'ASSUMED (entry API outlines): add_one / add_all record the pair(s) under the module and change nothing else',
        'ASSUMED (std iterator semantics): the re-export search of `fallback` (iter().flat_map(.. find(P) ..).next()) answers a pair (k, t) with t listed under k for which P answered true - P itself is verified',
        'T11: the closure `fallback` is verified as a function with its captured variables as parameters',
    ],
    undecided=[
        'that data.import_types holds the references the sources make (syn UseTree / path walks) and that all_types holds what each module defines - bounded stand-in cli_multifile',
        'that the imports are WRITTEN as computed (write_imports: text) and the partition of types into files by crate (find_crate_name: Path components) - bounded stand-in cli_multifile',
    ],
)
UNIT.allowed_calls = {'get', 'iter', 'is_empty', 'len', 'as_str'}
UNIT.forbid = ['.type_name ==', '.type_name !=', '== &referenced_import.type_name', '!= &referenced_import.type_name', 'format!', '.to_string()', '.into()']


def native(workdir):
    import cli_multifile
    return cli_multifile.native(workdir)


def replay_args(inp):
    import cli_multifile
    return cli_multifile.replay_args(inp)
