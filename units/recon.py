"""U-recon: core/src/reconcile.rs :: check_type, check_variant and the per-crate block of reconcile_aliases that applies them to every struct
field, enum variant and alias (T11), verbatim, over the real RustType / RustField / RustEnumVariant / RustStruct / RustEnum /
RustTypeAlias.  Serves C09 (kernel): after
reconciliation every mention of a type whose definition is emitted under a serde-renamed name - as a plain type, as a generic
type, inside Vec / array / slice / Option / HashMap, at any depth - is spelled with that name, and nothing else in the type
expression changes (generic parameters are never renamed).  C07: recursion terminates, no panic."""
from rsx import A, ins, rep, drop
from vunit import Item, Unit

RT = 'core/src/rust_types.rs'

PRE_VERUS = r'''
use std::collections::{HashMap, HashSet, BTreeSet};
use vstd::std_specs::iter::IteratorSpec;
'''

PRELUDE = r'''
// ---------- T7 stubs
#[verifier::external_body] pub struct DecoratorMap { _p: u8 }
#[verifier::external_body] pub struct ParsedRest { _p: u8 }
/// the item vectors reconcile_aliases rewrites (the other fields of ParsedData are not touched by the lifted block)
pub struct ParsedData { pub structs: Vec<RustStruct>, pub enums: Vec<RustEnum>, pub aliases: Vec<RustTypeAlias>, pub rest: ParsedRest }
#[verifier::external_body] pub struct FieldDecorator { _p: u8 }
#[verifier::external_body] pub struct SupportedLanguage { _p: u8 }
#[verifier::external_body] pub struct CrateName { _p: u8 }
#[verifier::external_body] pub struct ImportedType { _p: u8 }
/// reconcile.rs: `type RenamedTypes = HashMap<String, HashMap<CrateName, String>>`
pub type RenamedTypes = HashMap<String, HashMap<CrateName, String>>;

/// std: ToOwned for a Clone type clones
pub assume_specification<T: Clone> [<T as std::borrow::ToOwned>::to_owned] (x: &T) -> (r: T)
    ensures r == *x;

/// what `resolve_renamed` answers for a name: the name its definition is emitted under, if that differs (an
/// iterator / closure chain over the import set and the rename table: uninterpreted, a pure function of its arguments)
pub uninterp spec fn resolved(crate_name: &CrateName, serde_renamed: &RenamedTypes, import_types: &HashSet<ImportedType>, id: Seq<char>) -> Option<String>;
#[verifier::external_body]
fn resolve_renamed(crate_name: &CrateName, serde_renamed: &RenamedTypes, import_types: &HashSet<ImportedType>, id: &str) -> (r: Option<String>)
    ensures r == resolved(crate_name, serde_renamed, import_types, id@)
{ unimplemented!() }

pub open spec fn new_name(c: &CrateName, m: &RenamedTypes, i: &HashSet<ImportedType>, id: String) -> String {
    match resolved(c, m, i, id@) { Some(n) => n, None => id }
}
/// C09: `b` is `a` with every mentioned type name - except the generic parameters `g` of the item - replaced by the name its definition is emitted
/// under, and nothing else changed
/// (relational form: no Vec / Box has to be constructed in a specification)
pub open spec fn rewritten(c: &CrateName, m: &RenamedTypes, i: &HashSet<ImportedType>, g: Seq<String>, a: RustType, b: RustType) -> bool
    decreases a
{
    match a {
        // C09: "generic parameters are never prefixed or renamed" - a name that is a generic parameter of the item stays
        RustType::Simple { id } => b == (RustType::Simple { id: if g.contains(id) { id } else { new_name(c, m, i, id) } }),
        RustType::Generic { id, parameters } => match b {
            RustType::Generic { id: id2, parameters: p2 } => id2 == new_name(c, m, i, id) && p2@.len() == parameters@.len()
                && forall|k: int| 0 <= k < parameters@.len() ==> rewritten(c, m, i, g, #[trigger] parameters@[k], p2@[k]),
            _ => false,
        },
        RustType::Special(s) => match b { RustType::Special(s2) => match (s, s2) {
            (SpecialRustType::Vec(x), SpecialRustType::Vec(y)) => rewritten(c, m, i, g, *x, *y),
            (SpecialRustType::Array(x, n), SpecialRustType::Array(y, n2)) => n == n2 && rewritten(c, m, i, g, *x, *y),
            (SpecialRustType::Slice(x), SpecialRustType::Slice(y)) => rewritten(c, m, i, g, *x, *y),
            (SpecialRustType::Option(x), SpecialRustType::Option(y)) => rewritten(c, m, i, g, *x, *y),
            (SpecialRustType::HashMap(x1, x2), SpecialRustType::HashMap(y1, y2)) => rewritten(c, m, i, g, *x1, *y1) && rewritten(c, m, i, g, *x2, *y2),
            (SpecialRustType::Vec(_), _) | (SpecialRustType::Array(_, _), _) | (SpecialRustType::Slice(_), _) | (SpecialRustType::Option(_), _)
                | (SpecialRustType::HashMap(_, _), _) => false,
            (other, other2) => other == other2,
        }, _ => false },
    }
}
/// a field after reconciliation: only its type expression is rewritten
pub open spec fn field_rewritten(c: &CrateName, m: &RenamedTypes, i: &HashSet<ImportedType>, g: Seq<String>, a: RustField, b: RustField) -> bool {
    rewritten(c, m, i, g, a.ty, b.ty) && b.id == a.id && b.comments == a.comments && b.has_default == a.has_default && b.decorators == a.decorators
}
pub open spec fn fields_rewritten(c: &CrateName, m: &RenamedTypes, i: &HashSet<ImportedType>, g: Seq<String>, a: Seq<RustField>, b: Seq<RustField>) -> bool {
    a.len() == b.len() && forall|k: int| 0 <= k < a.len() ==> field_rewritten(c, m, i, g, #[trigger] a[k], b[k])
}
/// C09 for an enum variant: the payload type / every struct-variant field type is rewritten, the variant itself is kept
pub open spec fn variant_rewritten(c: &CrateName, m: &RenamedTypes, i: &HashSet<ImportedType>, g: Seq<String>, a: RustEnumVariant, b: RustEnumVariant) -> bool {
    match a {
        RustEnumVariant::Unit(sh) => b == a,
        RustEnumVariant::Tuple { ty, shared } => match b { RustEnumVariant::Tuple { ty: ty2, shared: sh2 } => sh2 == shared && rewritten(c, m, i, g, ty, ty2), _ => false },
        RustEnumVariant::AnonymousStruct { fields, shared } => match b {
            RustEnumVariant::AnonymousStruct { fields: f2, shared: sh2 } => sh2 == shared && fields_rewritten(c, m, i, g, fields@, f2@), _ => false },
    }
}
pub open spec fn struct_rewritten(c: &CrateName, m: &RenamedTypes, i: &HashSet<ImportedType>, a: RustStruct, b: RustStruct) -> bool {
    fields_rewritten(c, m, i, a.generic_types@, a.fields@, b.fields@) && b.id == a.id && b.generic_types == a.generic_types && b.comments == a.comments
        && b.decorators == a.decorators && b.is_redacted == a.is_redacted
}
pub open spec fn shared_rewritten(c: &CrateName, m: &RenamedTypes, i: &HashSet<ImportedType>, a: RustEnumShared, b: RustEnumShared) -> bool {
    b.id == a.id && b.generic_types == a.generic_types && b.comments == a.comments && b.decorators == a.decorators
        && b.is_recursive == a.is_recursive && b.is_redacted == a.is_redacted
        && b.variants@.len() == a.variants@.len()
        && forall|k: int| 0 <= k < a.variants@.len() ==> variant_rewritten(c, m, i, a.generic_types@, #[trigger] a.variants@[k], b.variants@[k])
}
pub open spec fn enum_rewritten(c: &CrateName, m: &RenamedTypes, i: &HashSet<ImportedType>, a: RustEnum, b: RustEnum) -> bool {
    match a {
        RustEnum::Unit(sh) => match b { RustEnum::Unit(sh2) => shared_rewritten(c, m, i, sh, sh2), _ => false },
        RustEnum::Algebraic { tag_key, content_key, shared } => match b {
            RustEnum::Algebraic { tag_key: t2, content_key: c2, shared: sh2 } => t2 == tag_key && c2 == content_key && shared_rewritten(c, m, i, shared, sh2), _ => false },
    }
}
pub open spec fn alias_rewritten(c: &CrateName, m: &RenamedTypes, i: &HashSet<ImportedType>, a: RustTypeAlias, b: RustTypeAlias) -> bool {
    rewritten(c, m, i, a.generic_types@, a.r#type, b.r#type) && b.id == a.id && b.generic_types == a.generic_types && b.comments == a.comments
        && b.decorators == a.decorators && b.is_redacted == a.is_redacted
}
'''

VARIANT = [
    ins(A.sig(), '''
    ensures /*C09*/ final(variants)@.len() == old(variants)@.len(),
        forall|k: int| 0 <= k < old(variants)@.len() ==> variant_rewritten(crate_name, serde_renamed, imported_types, generic_types@, #[trigger] old(variants)@[k], final(variants)@[k]),
''', cid='check_variant.contract'),
    ins(A.body_start(), '''
    let ghost v0 = variants@;'''),
    rep(A.text('for v in variants'), 'for v in it: variants.iter_mut()', tag='T4', note='IntoIterator for &mut Vec<T> is iter_mut() (std documentation)'),
    ins(A.loop(0), """
        invariant
            v0 == old(variants)@, it.snapshot@.remaining().len() == v0.len(),
            forall|k: int| 0 <= k < v0.len() ==> *final(#[trigger] it.snapshot@.remaining()[k]) == final(variants)@[k],
            forall|k: int| 0 <= k < v0.len() ==> *(#[trigger] it.snapshot@.remaining()[k]) == v0[k],
            it.history@ =~= it.snapshot@.remaining().take(it.index@ as int),
            it.index@ <= v0.len(),
            it.iter.remaining() =~= it.snapshot@.remaining().skip(it.index@ as int),
            forall|k: int| 0 <= k < it.index@ ==> variant_rewritten(crate_name, serde_renamed, imported_types, generic_types@, v0[k], #[trigger] final(variants)@[k]),
    """, cid='check_variant.variants_invariant'),
    ins(A.loop_body(0), """
        let ghost k0 = it.index@;
        let ghost va = *v;
        proof { assert(it.snapshot@.remaining()[k0] == v); assert(va == v0[k0]); }"""),
    rep(A.text('for f in fields'), 'for f in it2: fields.iter_mut()', tag='T4'),
    ins(A.text('for f in fields'), """let ghost f0 = fields@;
                """, where='before'),
    ins(A.loop(1), """
                    invariant
                        it2.snapshot@.remaining().len() == f0.len(),
                        forall|k: int| 0 <= k < f0.len() ==> *final(#[trigger] it2.snapshot@.remaining()[k]) == final(fields)@[k],
                        forall|k: int| 0 <= k < f0.len() ==> *(#[trigger] it2.snapshot@.remaining()[k]) == f0[k],
                        it2.history@ =~= it2.snapshot@.remaining().take(it2.index@ as int),
                        it2.index@ <= f0.len(),
                        it2.iter.remaining() =~= it2.snapshot@.remaining().skip(it2.index@ as int),
                        forall|k: int| 0 <= k < it2.index@ ==> field_rewritten(crate_name, serde_renamed, imported_types, generic_types@, f0[k], #[trigger] final(fields)@[k]),
                """, cid='check_variant.fields_invariant'),
    ins(A.loop_body(1), """
                    let ghost j0 = it2.index@;
                    proof { assert(it2.snapshot@.remaining()[j0] == f); assert(*f == f0[j0]); }"""),
]

BLOCK_WRAP = ("""fn rename_references_block(crate_name: &CrateName, serde_renamed: RenamedTypes, import_types: HashSet<ImportedType>, parsed_data: &mut ParsedData)
    ensures
        /*C09: after the block every field / variant payload / alias target of the crate's data is rewritten, nothing else changes*/
        final(parsed_data).structs@.len() == old(parsed_data).structs@.len(),
        forall|k: int| 0 <= k < old(parsed_data).structs@.len() ==> struct_rewritten(crate_name, &serde_renamed, &import_types, #[trigger] old(parsed_data).structs@[k], final(parsed_data).structs@[k]),
        final(parsed_data).enums@.len() == old(parsed_data).enums@.len(),
        forall|k: int| 0 <= k < old(parsed_data).enums@.len() ==> enum_rewritten(crate_name, &serde_renamed, &import_types, #[trigger] old(parsed_data).enums@[k], final(parsed_data).enums@[k]),
        final(parsed_data).aliases@.len() == old(parsed_data).aliases@.len(),
        forall|k: int| 0 <= k < old(parsed_data).aliases@.len() ==> alias_rewritten(crate_name, &serde_renamed, &import_types, #[trigger] old(parsed_data).aliases@[k], final(parsed_data).aliases@[k]),
{
    let ghost s0 = parsed_data.structs@;
    let ghost e0 = parsed_data.enums@;
    let ghost a0 = parsed_data.aliases@;
""", "\n}\n")

BLOCK = [
    # ---- structs
    rep(A.text('for s in &mut parsed_data.structs'), 'let structs__ = &mut parsed_data.structs; for s in its: structs__.iter_mut()', tag='T4', note='IntoIterator for &mut Vec<T> is iter_mut(); the reborrow is named so that its final value can be mentioned'),
    ins(A.loop(0, fn='<block>'), """
            invariant
            its.snapshot@.remaining().len() == s0.len(),
            forall|k: int| 0 <= k < s0.len() ==> *final(#[trigger] its.snapshot@.remaining()[k]) == final(structs__)@[k],
            forall|k: int| 0 <= k < s0.len() ==> *(#[trigger] its.snapshot@.remaining()[k]) == s0[k],
            its.history@ =~= its.snapshot@.remaining().take(its.index@ as int),
            its.index@ <= s0.len(),
            its.iter.remaining() =~= its.snapshot@.remaining().skip(its.index@ as int),
                parsed_data.enums@ == e0, parsed_data.aliases@ == a0,
                forall|k: int| 0 <= k < its.index@ ==> struct_rewritten(crate_name, &serde_renamed, &import_types, s0[k], #[trigger] final(structs__)@[k]),
        """, cid='block.structs_invariant'),
    ins(A.loop_body(0, fn='<block>'), """
            let ghost k0 = its.index@;
            let ghost sa = *s;
            proof { assert(its.snapshot@.remaining()[k0] == s); assert(sa == s0[k0]); }"""),
    drop(A.text('debug!("struct: {}", s.id.original);'), tag='T6'),
    rep(A.text('for f in &mut s.fields'), 'for f in itf: s.fields.iter_mut()', tag='T4'),
    ins(A.text('for f in &mut s.fields'), """let ghost f0 = s.fields@;
            """, where='before'),
    ins(A.loop(1, fn='<block>'), """
                invariant
                    itf.snapshot@.remaining().len() == f0.len(),
                    forall|k: int| 0 <= k < f0.len() ==> *final(#[trigger] itf.snapshot@.remaining()[k]) == final(s).fields@[k],
                    forall|k: int| 0 <= k < f0.len() ==> *(#[trigger] itf.snapshot@.remaining()[k]) == f0[k],
                    itf.history@ =~= itf.snapshot@.remaining().take(itf.index@ as int),
                    itf.index@ <= f0.len(),
                    itf.iter.remaining() =~= itf.snapshot@.remaining().skip(itf.index@ as int),
                    s.generic_types == sa.generic_types,
                    forall|k: int| 0 <= k < itf.index@ ==> field_rewritten(crate_name, &serde_renamed, &import_types, sa.generic_types@, f0[k], #[trigger] final(s).fields@[k]),
            """, cid='block.fields_invariant'),
    ins(A.loop_body(1, fn='<block>'), """
                let ghost j0 = itf.index@;
                proof { assert(itf.snapshot@.remaining()[j0] == f); assert(*f == f0[j0]); }"""),
    ins(A.loop_after(0, fn='<block>'), """
        let ghost s1 = parsed_data.structs@;
        proof { assert(s1.len() == s0.len()); assert forall|k: int| 0 <= k < s0.len() implies struct_rewritten(crate_name, &serde_renamed, &import_types, #[trigger] s0[k], s1[k]) by {} }"""),
    # ---- enums
    rep(A.text('for e in &mut parsed_data.enums'), 'let enums__ = &mut parsed_data.enums; for e in ite: enums__.iter_mut()', tag='T4'),
    ins(A.loop(2, fn='<block>'), """
            invariant
            ite.snapshot@.remaining().len() == e0.len(),
            forall|k: int| 0 <= k < e0.len() ==> *final(#[trigger] ite.snapshot@.remaining()[k]) == final(enums__)@[k],
            forall|k: int| 0 <= k < e0.len() ==> *(#[trigger] ite.snapshot@.remaining()[k]) == e0[k],
            ite.history@ =~= ite.snapshot@.remaining().take(ite.index@ as int),
            ite.index@ <= e0.len(),
            ite.iter.remaining() =~= ite.snapshot@.remaining().skip(ite.index@ as int),
                parsed_data.structs@ == s1, parsed_data.aliases@ == a0,
                forall|k: int| 0 <= k < ite.index@ ==> enum_rewritten(crate_name, &serde_renamed, &import_types, e0[k], #[trigger] final(enums__)@[k]),
        """, cid='block.enums_invariant'),
    ins(A.loop_body(2, fn='<block>'), """
            let ghost k0 = ite.index@;
            proof { assert(ite.snapshot@.remaining()[k0] == e); assert(*e == e0[k0]); }"""),
    drop(A.text('debug!("enum: {}", e.shared().id.original);'), tag='T6'),
    ins(A.loop_after(2, fn='<block>'), """
        let ghost e1 = parsed_data.enums@;
        proof { assert(e1.len() == e0.len()); assert forall|k: int| 0 <= k < e0.len() implies enum_rewritten(crate_name, &serde_renamed, &import_types, #[trigger] e0[k], e1[k]) by {} }"""),
    # ---- aliases
    rep(A.text('for a in &mut parsed_data.aliases'), 'let aliases__ = &mut parsed_data.aliases; for a in ita: aliases__.iter_mut()', tag='T4'),
    ins(A.loop(3, fn='<block>'), """
            invariant
            ita.snapshot@.remaining().len() == a0.len(),
            forall|k: int| 0 <= k < a0.len() ==> *final(#[trigger] ita.snapshot@.remaining()[k]) == final(aliases__)@[k],
            forall|k: int| 0 <= k < a0.len() ==> *(#[trigger] ita.snapshot@.remaining()[k]) == a0[k],
            ita.history@ =~= ita.snapshot@.remaining().take(ita.index@ as int),
            ita.index@ <= a0.len(),
            ita.iter.remaining() =~= ita.snapshot@.remaining().skip(ita.index@ as int),
                parsed_data.structs@ == s1, parsed_data.enums@ == e1,
                forall|k: int| 0 <= k < ita.index@ ==> alias_rewritten(crate_name, &serde_renamed, &import_types, a0[k], #[trigger] final(aliases__)@[k]),
        """, cid='block.aliases_invariant'),
    ins(A.loop_body(3, fn='<block>'), """
            let ghost k0 = ita.index@;
            proof { assert(ita.snapshot@.remaining()[k0] == a); assert(*a == a0[k0]); }"""),
]

CHECK = [
    ins(A.sig(), '''
    ensures /*C09*/ rewritten(crate_name, serde_renamed, import_types, generic_types@, *old(ty), *final(ty)),
    decreases *old(ty)
''', cid='check_type.contract'),
    ins(A.body_start(), '''
    let ghost t0 = *ty;'''),
    drop(A.text('debug!("checking type: {ty:?}");'), tag='T6'),
    drop(A.text('info!("renaming type from {id} to {renamed}");', nth=1), tag='T6'),
    drop(A.text('info!("renaming type from {id} to {renamed}");', nth=2), tag='T6'),
    drop(A.text('debug!("{crate_name} looking up original name {id}");'), tag='T6'),
    # T4: `for ty in parameters` over `&mut Vec<RustType>` is `parameters.iter_mut()` (std: IntoIterator for &mut Vec<T>);
    # T12: the loop variable `ty` shadows the parameter `ty`, which the termination measure has to name: alpha-renamed to `ty__`
    rep(A.text('for ty in parameters'), 'for ty__ in it: parameters.iter_mut()', tag='T4',
        note='IntoIterator for &mut Vec<T> is iter_mut() (std documentation); loop variable alpha-renamed (T12) because it shadows the parameter'),
    rep(A.text('check_type(crate_name, serde_renamed, import_types, generic_types, ty);', nth=1), 'check_type(crate_name, serde_renamed, import_types, generic_types, ty__);', tag='T12',
        note='alpha-renaming of the shadowing loop variable'),
    ins(A.text('for ty in parameters'), """let ghost p0 = parameters@;
            let ghost id0 = *id;
            proof {
                assert(t0 is Generic && t0->parameters == *parameters);
                assert forall|k: int| 0 <= k < p0.len() implies decreases_to!(t0 => #[trigger] p0[k]) by {
                    assert(decreases_to!(t0 => t0->parameters)); assert(decreases_to!(t0->parameters => p0)); assert(decreases_to!(p0 => p0[k]));
                }
            }
            """, where='before'),
    ins(A.loop(0), """
                invariant
                    it.snapshot@.remaining().len() == p0.len(),
                    forall|k: int| 0 <= k < p0.len() ==> *final(#[trigger] it.snapshot@.remaining()[k]) == final(parameters)@[k],
                    forall|k: int| 0 <= k < p0.len() ==> *(#[trigger] it.snapshot@.remaining()[k]) == p0[k],
                    it.history@ =~= it.snapshot@.remaining().take(it.index@ as int),
                    it.index@ <= p0.len(),
                    it.iter.remaining() =~= it.snapshot@.remaining().skip(it.index@ as int),
                    t0 == *old(ty),
                    forall|k: int| 0 <= k < p0.len() ==> decreases_to!(t0 => #[trigger] p0[k]),
                    forall|k: int| 0 <= k < it.index@ ==> rewritten(crate_name, serde_renamed, import_types, generic_types@, p0[k], #[trigger] final(parameters)@[k]),
            """, cid='check_type.arguments_invariant'),
    ins(A.loop_body(0), """
                let ghost k0 = it.index@;
                proof { assert(it.snapshot@.remaining()[k0] == ty__); assert(*ty__ == p0[k0]); assert(decreases_to!(t0 => p0[k0])); }"""),
]

UNIT = Unit(
    name='recon',
    props=['C09', 'C07'],
    pre_verus=PRE_VERUS,
    spec_files=['std_slices.rs'],
    prelude=PRELUDE,
    items=[
        Item('enum_RustType', RT, ['enum RustType']),
        Item('enum_SpecialRustType', RT, ['enum SpecialRustType']),
        Item('struct_Id', RT, ['struct Id']),
        Item('struct_RustField', RT, ['struct RustField']),
        Item('enum_RustEnumVariant', RT, ['enum RustEnumVariant']),
        Item('struct_RustEnumVariantShared', RT, ['struct RustEnumVariantShared']),
        Item('check_type', 'core/src/reconcile.rs', ['fn check_type'], CHECK),
        Item('check_variant', 'core/src/reconcile.rs', ['fn check_variant'], VARIANT),
        Item('struct_RustStruct', RT, ['struct RustStruct']),
        Item('enum_RustEnum', RT, ['enum RustEnum']),
        Item('struct_RustEnumShared', RT, ['struct RustEnumShared']),
        Item('struct_RustTypeAlias', RT, ['struct RustTypeAlias']),
        Item('rename_references_block', 'core/src/reconcile.rs', ['fn reconcile_aliases'], BLOCK, wrap=BLOCK_WRAP,
             block=(A.text('let import_types = mem::take(&mut parsed_data.import_types);'), A.text('// Apply sorting') if False else A.text('parsed_data.structs.sort();'))),
    ],
    functions=['check_type', 'check_variant', 'rename_references_block'],
    trusted=[
        'T4: `for ty in parameters` (parameters: &mut Vec<RustType>) is verified as `for ty in parameters.iter_mut()` (std: IntoIterator for &mut Vec<T>); '
        'vstd\'s prophetic specification of slice::IterMut is trusted',
        'stub: resolve_renamed is a pure function of (crate, rename table, imports, name) (iterator/closure chain, not under contract)',
        'std: ToOwned::to_owned clones; T7 stubs CrateName, ImportedType',
    ],
    undecided=[
        'which name a definition is emitted under is chosen in the back ends\' format strings (Kotlin / Scala / Go define some items under id.original): text emission',
        'the outer loop of reconcile_aliases over the crates (`&mut BTreeMap`, no vstd iterator model), mem::take / restore of import_types, and '
        'collect_serde_renames (iterator chains) that builds the rename table',
        'prefixing (Swift / Kotlin prefix) is done at emission time',
    ],
)


# ------------------------------------------------------------------------------------ witness search / replay
def native(workdir):
    """bounded search on the REAL crates through parse -> reconcile (replay binary): every acyclic reference graph on 2..3 items x 12
    reference positions x 4 item shapes x every non-empty subset of the items (and the generic wrapper) carrying serde(rename); after
    reconcile_aliases no type expression may still mention the Rust name of a same-file type that is defined under another name; plus three
    fixed programs (a type imported from another crate where it is serde-renamed, with and without a rename in the importing crate;
    serialized_as combined with rename_all)."""
    import os
    import kf_replay
    exe = kf_replay.replay_bin()
    if not exe:
        return None, 'replay binary does not build: ' + kf_replay._bin.get('err', '')
    w = os.path.join(workdir, 'native_recon.sh')
    with open(w, 'w') as f:
        f.write('#!/bin/sh\nsub=$1; shift\nexec %s refs-$sub "$@"\n' % exe)
    os.chmod(w, 0o755)
    return w, ''


def replay_args(inp):
    if 'extra_program' in inp:
        return ['extra', str(inp['extra_program'])]
    return [str(inp['items']), str(inp['edges_code']), str(inp['wrapper']), str(inp['holder']), str(inp['renamed_mask'])]
