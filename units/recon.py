"""U-recon: core/src/reconcile.rs :: check_type, verbatim, over the real RustType / SpecialRustType.  Serves C09 (kernel): after
reconciliation every mention of a type whose definition is emitted under a serde-renamed name - as a plain type, as a generic
type, inside Vec / array / slice / Option / HashMap, at any depth - is spelled with that name, and nothing else in the type
expression changes (generic parameters are never renamed).  C07: recursion terminates, no panic."""
from rsx import A, ins, rep, drop
from vunit import Item, Unit

RT = 'core/src/rust_types.rs'

PRE_VERUS = r'''
use std::collections::{HashMap, HashSet};
'''

PRELUDE = r'''
// ---------- T7 stubs
#[verifier::external_body] pub struct CrateName { _p: u8 }
#[verifier::external_body] pub struct ImportedType { _p: u8 }
/// reconcile.rs: `type RenamedTypes = HashMap<String, HashMap<CrateName, String>>`
pub type RenamedTypes = HashMap<String, HashMap<CrateName, String>>;

/// std: ToOwned for a Clone type clones
pub assume_specification<T: Clone> [<T as std::borrow::ToOwned>::to_owned] (x: &T) -> (r: T)
    ensures r == *x;

/// what `resolve_renamed` answers for a name: the name its definition is emitted under, if that differs (an
/// iterator / closure chain over the import set and the rename table: uninterpreted, a pure function of its arguments)
pub uninterp spec fn resolved(crate_name: &CrateName, serde_renamed: &RenamedTypes, import_types: &HashSet<ImportedType>, id: Seq<char>) -> Option<String>;
#[verifier::external_body]
fn resolve_renamed(crate_name: &CrateName, serde_renamed: &RenamedTypes, import_types: &HashSet<ImportedType>, id: &str) -> (r: Option<String>)
    ensures r == resolved(crate_name, serde_renamed, import_types, id@)
{ unimplemented!() }

pub open spec fn new_name(c: &CrateName, m: &RenamedTypes, i: &HashSet<ImportedType>, id: String) -> String {
    match resolved(c, m, i, id@) { Some(n) => n, None => id }
}
/// C09: the type expression with every mentioned type name replaced by the name its definition is emitted under
pub open spec fn rw(c: &CrateName, m: &RenamedTypes, i: &HashSet<ImportedType>, t: RustType) -> RustType
    decreases t
{
    match t {
        RustType::Simple { id } => RustType::Simple { id: new_name(c, m, i, id) },
        RustType::Generic { id, parameters } => RustType::Generic { id: new_name(c, m, i, id), parameters: rw_vec(c, m, i, parameters) },
        RustType::Special(s) => RustType::Special(match s {
            SpecialRustType::Vec(a) => SpecialRustType::Vec(Box::new(rw(c, m, i, *a))),
            SpecialRustType::Array(a, n) => SpecialRustType::Array(Box::new(rw(c, m, i, *a)), n),
            SpecialRustType::Slice(a) => SpecialRustType::Slice(Box::new(rw(c, m, i, *a))),
            SpecialRustType::Option(a) => SpecialRustType::Option(Box::new(rw(c, m, i, *a))),
            SpecialRustType::HashMap(a, b) => SpecialRustType::HashMap(Box::new(rw(c, m, i, *a)), Box::new(rw(c, m, i, *b))),
            other => other,
        }),
    }
}
/// the argument list rewritten element-wise (a Vec is determined by its view)
pub uninterp spec fn rw_vec(c: &CrateName, m: &RenamedTypes, i: &HashSet<ImportedType>, v: Vec<RustType>) -> Vec<RustType>;
'''

CHECK = [
    ins(A.sig(), '''
    ensures /*C09*/ *final(ty) == rw(crate_name, serde_renamed, import_types, *old(ty)),
    decreases *old(ty)
''', cid='check_type.contract'),
    drop(A.text('debug!("checking type: {ty:?}");'), tag='T6'),
    drop(A.text('info!("renaming type from {id} to {renamed}");', nth=1), tag='T6'),
    drop(A.text('info!("renaming type from {id} to {renamed}");', nth=2), tag='T6'),
    drop(A.text('debug!("{crate_name} looking up original name {id}");'), tag='T6'),
    rep(A.span('for ty in parameters {', 'check_type(crate_name, serde_renamed, import_types, ty); }'),
        'outlined_each_parameter(crate_name, serde_renamed, import_types, parameters);', tag='T3', cid='o_params',
        note='`for ty in parameters` over &mut Vec is slice::IterMut: vstd models it with prophecy variables whose loop-invariant interface '
             'could not be used here; the loop is outlined and its element-wise effect ASSUMED'),
]

UNIT = Unit(
    name='recon',
    props=['C09', 'C07'],
    pre_verus=PRE_VERUS,
    prelude=PRELUDE,
    items=[
        Item('enum_RustType', RT, ['enum RustType']),
        Item('enum_SpecialRustType', RT, ['enum SpecialRustType']),
        Item('check_type', 'core/src/reconcile.rs', ['fn check_type'], CHECK),
    ],
    outlines={
        'o_params': {'decl': '''fn outlined_each_parameter(crate_name: &CrateName, serde_renamed: &RenamedTypes, import_types: &HashSet<ImportedType>, parameters: &mut Vec<RustType>)
    ensures *final(parameters) == rw_vec(crate_name, serde_renamed, import_types, *old(parameters))''', 'compile': False},
    },
    functions=['check_type'],
    trusted=[
        'outlined (T3): the loop `for ty in parameters { check_type(.., ty) }` rewrites the argument list element-wise (rw_vec uninterpreted); '
        'the recursion through this loop is therefore assumed, and with it termination on that path',
        'stub: resolve_renamed is a pure function of (crate, rename table, imports, name) (iterator/closure chain, not under contract)',
        'std: ToOwned::to_owned clones; T7 stubs CrateName, ImportedType',
    ],
    undecided=[
        'which name a definition is emitted under is chosen in the back ends\' format strings (Kotlin / Scala / Go define some items under id.original): text emission',
        'the loops of reconcile_aliases / check_variant over `&mut` vectors (slice::IterMut) that apply check_type to every field, variant and alias',
        'prefixing (Swift / Kotlin prefix) is done at emission time',
    ],
)


# ------------------------------------------------------------------------------------ witness search / replay
def native(workdir):
    """bounded search on the REAL crates through parse -> reconcile (replay binary): every acyclic reference graph on 2..3 items x 12
    reference positions x 4 item shapes x every non-empty subset of the items (and the generic wrapper) carrying serde(rename); after
    reconcile_aliases no type expression may still mention the Rust name of a same-file type that is defined under another name; plus three
    fixed programs (a type imported from another crate where it is serde-renamed, with and without a rename in the importing crate;
    serialized_as combined with rename_all)."""
    import os
    import kf_replay
    exe = kf_replay.replay_bin()
    if not exe:
        return None, 'replay binary does not build: ' + kf_replay._bin.get('err', '')
    w = os.path.join(workdir, 'native_recon.sh')
    with open(w, 'w') as f:
        f.write('#!/bin/sh\nsub=$1; shift\nexec %s refs-$sub "$@"\n' % exe)
    os.chmod(w, 0o755)
    return w, ''


def replay_args(inp):
    if 'extra_program' in inp:
        return ['extra', str(inp['extra_program'])]
    return [str(inp['items']), str(inp['edges_code']), str(inp['wrapper']), str(inp['holder']), str(inp['renamed_mask'])]
