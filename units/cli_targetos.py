"""bounded stand-in: scenario 'targetos' of units/clirun.py on the real `typeshare` binary built from /repo"""
import json
import os

import clirun


def native(workdir):
    w = os.path.join(workdir, 'native_cli_targetos.sh')
    with open(w, 'w') as f:
        f.write('#!/bin/sh\nexec python3 %s targetos "$@"\n' % os.path.join(clirun.HERE, 'clirun.py'))
    os.chmod(w, 0o755)
    return w, ''


native.__doc__ = clirun.SCENARIOS['targetos'].__doc__


def replay_args(inp):
    return [json.dumps(inp)]
