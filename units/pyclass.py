"""U-pyclass: the Python class writer around the members - Python::write_struct, Python::add_type_var and handle_model_config, verbatim.  Serves C12
(kernel): every pydantic / typing name the class header, the `Literal[..]` tag member of a variant class (Python::write_variant_class), the Generic[..] base list and the model_config line use has been recorded for the
import block, every type parameter for the TypeVar block, and nothing recorded is lost.  Python::write_field is used through the contract
PROVED for it in unit opt_python (stub carrying the same contract text)."""
from rsx import A, ins, rep, drop
from vunit import Item, Unit
import fmtcommon as F
import optcommon as O
import opt_python as P

RT = F.RT
SRC = P.SRC

PRELUDE = P.PRELUDE + r'''
/// outlined (T3): `writeln!(w, "    {content_key}{}{}", <: type>, < = value>)` in write_variant_class - appends text only
#[verifier::external_body]
fn write_content_line(w: &mut WriteSink, content_key: &str, content_type: Option<&str>, content_value: Option<&str>) -> (r: std::io::Result<()>) { unimplemented!() }

impl Python {
    /// ASSUMED here, PROVED in unit opt_python: the contract of Python::write_field (same text)
    #[verifier::external_body]
    fn write_field(&mut self, w: &mut WriteSink, field: &RustField, generic_types: &[String]) -> (r: std::io::Result<()>)
''' + P.FIELD_CONTRACT + r'''    { unimplemented!() }
}
'''

TYPEVAR = [
    ins(A.sig(), '''
        requires obeys_key_model::<String>(),
        ensures final(self).cfg() == old(self).cfg(),
            /*C12: recorded imports are never lost*/ imported_of(old(self).imports).subset_of(imported_of(final(self).imports)),
            /*C12: a declared type variable needs typing.TypeVar*/ imp(*final(self), "typing"@, "TypeVar"@),
            /*C12: the variable is recorded for the TypeVar block, earlier ones are kept*/ final(self).type_variables@ == old(self).type_variables@.insert(name),
''', cid='add_type_var.contract'),
]

MODELCFG = [
    rep(A.text('&mut dyn Write'), '&mut WriteSink', tag='T7'),
    ins(A.sig(), '''
        ensures final(python_module).cfg() == old(python_module).cfg(),
            final(python_module).type_variables == old(python_module).type_variables,
            /*C12: recorded imports are never lost*/ imported_of(old(python_module).imports).subset_of(imported_of(final(python_module).imports)),
            /*C12: whenever the `model_config = ConfigDict(..)` line is written, pydantic.ConfigDict is imported*/ final(w)@ != old(w)@ ==> imp(*final(python_module), "pydantic"@, "ConfigDict"@),
''', cid='handle_model_config.contract'),
    rep(A.span('fields.iter().find(|f| {', '});'), 'find_visibly_renamed(fields);', tag='T3', note='iter().find(closure): which field it finds is not part of the clause'),
]

STRUCT = [
    rep(A.text('&mut dyn Write'), '&mut WriteSink', tag='T7'),
    ins(A.ret(), '(r: ', where='before'), ins(A.ret(), ')', where='after'),
    ins(A.sig(), '''
        requires obeys_key_model::<String>(), forall|i: int| 0 <= i < rs.fields@.len() ==> dom(#[trigger] rs.fields@[i].ty),
        ensures final(self).cfg() == old(self).cfg(),
            /*C12: recorded imports are never lost*/ imported_of(old(self).imports).subset_of(imported_of(final(self).imports)),
            /*C12: `class X(BaseModel ..)` needs pydantic.BaseModel*/ r is Ok ==> imp(*final(self), "pydantic"@, "BaseModel"@),
            /*C12: `Generic[T, ..]` needs typing.Generic and typing.TypeVar, and every parameter is recorded for the TypeVar block*/ (r is Ok && rs.generic_types@.len() > 0) ==> imp(*final(self), "typing"@, "Generic"@) && imp(*final(self), "typing"@, "TypeVar"@)
                && forall|i: int| 0 <= i < rs.generic_types@.len() ==> final(self).type_variables@.contains(#[trigger] rs.generic_types@[i]),
''', cid='write_struct.contract'),
    ins(A.body_start(), '''
        let ghost s0 = *self;'''),
    rep(A.span('rs.generic_types .iter() .cloned() .for_each(|v|', '|v|'), '''let ghost s1 = *self;
            for v__ in it: rs.generic_types.iter()
                invariant s0 == *old(self), self.cfg() == s0.cfg(), imported_of(s0.imports).subset_of(imported_of(self.imports)), obeys_key_model::<String>(),
                    imp(*self, "pydantic"@, "BaseModel"@),
                    it.index@ > 0 ==> imp(*self, "typing"@, "TypeVar"@),
                    forall|k: int| 0 <= k < it.index@ ==> self.type_variables@.contains(#[trigger] rs.generic_types@[k]),
            {
                let v = v__.clone();
                ''', tag='T14b', note='iter().cloned().for_each(|v| F(v)) is the loop that runs F on a clone of every element (std); F stays verbatim'),
    rep(A.next_tok('self.add_type_var(v)', ')'), ';\n            }', tag='T14b'),
    rep(A.text('rs.generic_types.join('), 'join_strs(&rs.generic_types, ', tag='T3', note='slice join'),
    rep(A.span('rs.fields .iter() .try_for_each(|f|', '|f|'), '''let ghost s2 = *self;
        for f in it: rs.fields.iter()
            invariant s0 == *old(self), self.cfg() == s0.cfg(), imported_of(s0.imports).subset_of(imported_of(self.imports)),
                imp(*self, "pydantic"@, "BaseModel"@), rs.generic_types@.len() > 0 ==> imp(*self, "typing"@, "Generic"@) && imp(*self, "typing"@, "TypeVar"@),
                forall|i: int| 0 <= i < rs.generic_types@.len() ==> self.type_variables@.contains(#[trigger] rs.generic_types@[i]),
                obeys_key_model::<String>(), forall|i: int| 0 <= i < rs.fields@.len() ==> dom(#[trigger] rs.fields@[i].ty),
        {
            match (''', tag='T14b', note='iter().try_for_each(|f| F(f)) is the loop that runs F(f) and returns the first Err (std); F stays verbatim'),
    rep(A.next_tok('self.write_field(w, f, rs.generic_types.as_slice())', ')'), ') { Ok(()) => {}, Err(e__) => return Err(e__) }\n        }', tag='T14b'),
    drop(A.next_tok('self.write_field(w, f, rs.generic_types.as_slice())', '?'), tag='T14b'),
]


VARIANT = [
    rep(A.text('&mut dyn Write'), '&mut WriteSink', tag='T7'),
    ins(A.ret(), '(r: ', where='before'), ins(A.ret(), ')', where='after'),
    ins(A.sig(), '''
        ensures final(self).cfg() == old(self).cfg(), final(self).type_variables == old(self).type_variables,
            /*C12: recorded imports are never lost*/ imported_of(old(self).imports).subset_of(imported_of(final(self).imports)),
            /*C12: the `tag: Literal[..] = ..` member of a variant class needs typing.Literal*/ r is Ok ==> imp(*final(self), "typing"@, "Literal"@),
''', cid='write_variant_class.contract'),
    rep(A.span('writeln!( w, "    {content_key}{}{}",', '} ) ?'), 'write_content_line(w, content_key, content_type, content_value)?', tag='T3',
        note='the content member line (format! calls nested inside a writeln!): appends text only, no clause speaks about it'),
]

UNIT = Unit(
    name='pyclass', props=['C12', 'C07'], pre_verus=O.PRE_VERUS, spec_files=['std_slices.rs', 'seqjoin.rs', 'typexpr.rs', 'txt.rs', 'optmark.rs'], prelude=PRELUDE,
    items=[it for it in O.base_items('Python', SRC) if it.name not in ('is_optional', 'is_double_optional')] + [
        Item('struct_RustStruct', RT, ['struct RustStruct']),
        Item('struct_CustomJsonTranslationFunctions', SRC, ['struct CustomJsonTranslationFunctions']),
        Item('add_type_var', SRC, ['impl Python {', 'fn add_type_var'], TYPEVAR, wrap=('impl Python {\n', '\n}\n'), auto=('strlit',)),
        Item('handle_model_config', SRC, ['fn handle_model_config'], MODELCFG, auto=('fmt', 'strlit')),
        Item('write_variant_class', SRC, ['impl Python {', 'fn write_variant_class'], VARIANT, wrap=('impl Python {\n', '\n}\n'), auto=('fmt', 'strlit')),
        Item('write_struct', SRC, ['impl Language for Python {', 'fn write_struct'], STRUCT, wrap=('impl Python {\n', '\n}\n'), auto=('fmt', 'strlit')),
    ],
    functions=['Python::add_type_var', 'Python::write_struct', 'Python::write_variant_class', 'handle_model_config'],
    trusted=['T14: write! / writeln! / format! sites through contracts generated from their literals; T7: `&mut dyn Write` is a ghost text sink',
             'T14b: iter().cloned().for_each(F) and iter().try_for_each(F) verified as the loops std documents (F verbatim)',
             'Python::write_field is used through the contract PROVED for it in unit opt_python (stub with the same contract text, generated from one constant)',
             'stubs: Python::add_import (HashMap entry API) records the (module, name) pair and changes nothing else; write_comments appends text only; '
             'outlined: fields.iter().find(closure) (which field is found is not part of a clause); [String]::join',
             'vstd: HashSet::insert under obeys_key_model::<String>() (assumed for String keys); String::clone'],
    undecided=['that the recorded imports and type variables are then written (write_all_imports: iterator chains + text) - bounded stand-in helper-search',
               'the enum writers (Enum, Union, the TypeVars of generic enums, and that `BaseModel` is imported by the caller of write_variant_class, which writes `class X(BaseModel)`) - bounded stand-in helper-search'],
)
UNIT.crate_attrs = '#![feature(allocator_api)]'
UNIT.forbid = F.FORBID
UNIT.allowed_calls = O.ALLOWED | {'insert', 'clone', 'as_slice'}


def native(workdir):
    import helpersearch
    return helpersearch.native(workdir)


def replay_args(inp):
    import helpersearch
    return helpersearch.replay_args(inp)
