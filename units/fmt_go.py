"""U-fmt_go: Go's type-expression translator (see fmtcommon)."""
from rsx import A, ins, rep, drop
from vunit import Item
import fmtcommon as F

SRC = 'core/src/language/go.rs'

PRELUDE = r'''
// ---------- T7 stubs (field types this unit only stores)
#[verifier::external_body] #[verifier::reject_recursive_types(K)] pub struct BTreeSet<K> { _k: ::core::marker::PhantomData<K> }
impl BTreeSet<String> {
    /// the package names recorded for the import block
    pub uninterp spec fn names(&self) -> Set<Seq<char>>;
}
impl Go {
    /// stub for Go::add_import (`self.imports.insert(name.to_string())`): records the package for the import block, nothing else changes
    #[verifier::external_body]
    fn add_import(&mut self, name: &str)
        ensures final(self).cfg() == old(self).cfg(), final(self).imports.names() == old(self).imports.names().insert(name@),
    { unimplemented!() }
}
'''

SPECIAL = F.SPECIAL_HEAD + F.special_key_reps(1)

IS_VEC = [
    ins(A.ret(), '(r: ', where='before'), ins(A.ret(), ')', where='after'),
    ins(A.sig(), '''
        ensures r == (self is Special && self->Special_0 is Vec),
'''),
]

UNIT = F.make_unit('fmt_go', 'Go', SRC, 'Go',
                   'TCfg { lang: Lang::Go, map: self.type_mappings@, prefix: Seq::empty(), no_pointer_slice: self.no_pointer_slice }',
                   PRELUDE, SPECIAL,
                   overrides={'format_generic_parameters': (F.generic_parameters('[', ']', join_text='parameters.join('), ('fmt',))},
                   extra_items=[Item('is_vec', F.RT, ['impl RustType {', 'fn is_vec'], IS_VEC, wrap=('impl RustType {\n', '\n}\n'))],
                   trusted_extra=['stub: Go::add_import records the package name in `imports` and changes nothing else'],
                   x12={
                       'frame': '/*C12: recorded imports are never lost*/ old(self).imports.names().subset_of(final(self).imports.names()),',
                       'ty': '/*C12: a type expression that prints `time.Time` has recorded the import of "time"*/ (r is Ok && reaches(old(self).cfg(), *ty, Kind::DateTime)) ==> final(self).imports.names().contains("time"@),',
                       'gen': '/*C12*/ (r is Ok && reaches_any(old(self).cfg(), *base, parameters@, Kind::DateTime)) ==> final(self).imports.names().contains("time"@),',
                       'special': '/*C12*/ (r is Ok && reaches_special(old(self).cfg(), *special_ty, Kind::DateTime)) ==> final(self).imports.names().contains("time"@),',
                       'inv': '\n                    /*C12*/ old(self).imports.names().subset_of(self.imports.names()), forall|k: int| 0 <= k < it.index@ ==> (reaches(c0, #[trigger] parameters@[k], Kind::DateTime) ==> self.imports.names().contains("time"@)),',
                   })
UNIT.spec_files = list(UNIT.spec_files) + ['helpers.rs']
UNIT.functions.append('RustType::is_vec')


def _search():
    # the unit serves two properties: a failing input is looked for with the stand-in of the property being checked
    import os
    if os.environ.get('VERIF_PID') == 'C12':
        import helpersearch
        return helpersearch
    import typesearch
    return typesearch


def native(workdir):
    return _search().native(workdir)


def replay_args(inp):
    if 'trigger' in inp:
        import helpersearch
        return helpersearch.replay_args(inp)
    import typesearch
    return typesearch.replay_args(inp)
