"""U-fmt_go: Go's type-expression translator (see fmtcommon)."""
from rsx import A, ins, rep, drop
from vunit import Item
import fmtcommon as F

SRC = 'core/src/language/go.rs'

PRELUDE = r'''
// ---------- T7 stubs (field types this unit only stores)
#[verifier::external_body] #[verifier::reject_recursive_types(K)] pub struct BTreeSet<K> { _k: ::core::marker::PhantomData<K> }
impl Go {
    /// stub for Go::add_import (records a package for the import block - C12's domain): leaves the translation settings alone
    #[verifier::external_body]
    fn add_import(&mut self, name: &str)
        ensures final(self).cfg() == old(self).cfg()
    { unimplemented!() }
}
'''

SPECIAL = F.SPECIAL_HEAD + F.special_key_reps(1)

IS_VEC = [
    ins(A.ret(), '(r: ', where='before'), ins(A.ret(), ')', where='after'),
    ins(A.sig(), '''
        ensures r == (self is Special && self->Special_0 is Vec),
'''),
]

UNIT = F.make_unit('fmt_go', 'Go', SRC, 'Go',
                   'TCfg { lang: Lang::Go, map: self.type_mappings@, prefix: Seq::empty(), no_pointer_slice: self.no_pointer_slice }',
                   PRELUDE, SPECIAL,
                   overrides={'format_generic_parameters': (F.generic_parameters('[', ']', join_text='parameters.join('), ('fmt',))},
                   extra_items=[Item('is_vec', F.RT, ['impl RustType {', 'fn is_vec'], IS_VEC, wrap=('impl RustType {\n', '\n}\n'))],
                   trusted_extra=['stub: Go::add_import leaves type_mappings / no_pointer_slice unchanged (import bookkeeping is C12\'s domain)'])
UNIT.functions.append('RustType::is_vec')


def native(workdir):
    import typesearch
    return typesearch.native(workdir)


def replay_args(inp):
    import typesearch
    return typesearch.replay_args(inp)
