"""U-opt_python: Python::write_field (see optcommon)."""
from rsx import A, ins, rep, drop
from vunit import Item, Unit
import fmtcommon as F
import optcommon as O

RT = F.RT

SRC = 'core/src/language/python.rs'

PRELUDE = O.PRELUDE + r'''
/// the (module, name) pairs recorded for the import block (`imports: HashMap<module, HashSet<name>>`)
pub uninterp spec fn imported_of(m: HashMap<String, HashSet<String>>) -> Set<(Seq<char>, Seq<char>)>;
pub open spec fn imp(p: Python, m: Seq<char>, n: Seq<char>) -> bool { imported_of(p.imports).contains((m, n)) }
impl Python {
    pub open spec fn cfg(&self) -> TCfg { TCfg { lang: Lang::Python, map: self.type_mappings@, prefix: Seq::empty(), no_pointer_slice: false } }
''' + (O.FORMAT_TYPE_STUB % {'fmt': 'fmt_python'}).replace('final(self).cfg() == old(self).cfg(),', 'final(self).cfg() == old(self).cfg(), /*proved in fmt_python (C12 frame)*/ imported_of(old(self).imports).subset_of(imported_of(final(self).imports)), final(self).type_variables == old(self).type_variables,') + r'''
    #[verifier::external_body]
    fn write_comments(&self, w: &mut WriteSink, is_docstring: bool, comments: &[String], indent_level: usize) -> (r: std::io::Result<()>)
        ensures r is Ok ==> final(w)@ == old(w)@ + comments_text(indent_level as int, comments@),
    { unimplemented!() }
    /// stub for Python::add_import (`self.imports.entry(module).or_default().insert(identifier)`, entry API): records the pair, nothing else changes
    #[verifier::external_body]
    fn add_import(&mut self, module: String, name: String)
        ensures final(self).cfg() == old(self).cfg(), imported_of(final(self).imports) == imported_of(old(self).imports).insert((module@, name@)),
            final(self).types_for_custom_json_translation == old(self).types_for_custom_json_translation, final(self).type_variables == old(self).type_variables,
    { unimplemented!() }
}
/// python_property_aware_rename: snake case + keyword escape - a pure function of the name
pub uninterp spec fn py_name(name: Seq<char>) -> Seq<char>;
#[verifier::external_body]
fn python_property_aware_rename(name: &str) -> (r: String) ensures r@ == py_name(name@) { unimplemented!() }
/// json_translation_for_type: custom (de)serialiser names for a mapped type text (a table lookup), a pure function of the text
pub uninterp spec fn py_custom(t: Seq<char>) -> Option<CustomJsonTranslationFunctions>;
#[verifier::external_body]
fn json_translation_for_type(python_type: &str) -> (r: Option<CustomJsonTranslationFunctions>) ensures r == py_custom(python_type@) { unimplemented!() }
/// T7: the struct-level decorator table (not used by the functions under contract)
#[verifier::external_body] pub struct DecoratorMap { _p: u8 }
/// outlined (T3): `fields.iter().find(|f| python_property_aware_rename(&f.id.original) != f.id.renamed)`
#[verifier::external_body]
fn find_visibly_renamed(fields: &[RustField]) -> (r: Option<&RustField>) { unimplemented!() }
/// the member as Python writes it: `name: T` / `name: Optional[T]` (spec/optmark.rs member), and for a type text with custom (de)serialiser functions the
/// whole type wrapped in Annotated[..] - the optional marker stays inside, around the type text
spec fn py_member_text(name: Seq<char>, t: Seq<char>, f: RustField) -> Seq<char> {
    match py_custom(t) {
        None => member(Lang::Python, name, t, f),
        Some(ct) => name + ": "@ + py_annotated(py_inner(t, f), ct.deserialization_name@, ct.serialization_name@),
    }
}
/// `[String]::join(sep)`
#[verifier::external_body]
fn join_strs(v: &Vec<String>, sep: &str) -> (r: String) ensures r@ == join(strs(v@), sep@) { unimplemented!() }
'''

COMMON = [
    ins(A.sig(), '''
        ensures final(self).cfg() == old(self).cfg(), final(self).type_variables == old(self).type_variables,
            /*C12: recorded imports are never lost*/ imported_of(old(self).imports).subset_of(imported_of(final(self).imports)),
            /*C12: Optional[..] / default=None members*/ is_optional ==> imp(*final(self), "typing"@, "Optional"@),
            /*C12: Annotated[.., BeforeValidator(..), PlainSerializer(..)] members*/ requires_custom_translation ==> imp(*final(self), "typing"@, "Annotated"@)
                && imp(*final(self), "pydantic"@, "BeforeValidator"@) && imp(*final(self), "pydantic"@, "PlainSerializer"@),
            /*C12: `= Field(..)` members*/ (is_aliased || is_optional) ==> imp(*final(self), "pydantic"@, "Field"@),
''', cid='add_common_imports.contract'),
]

# the contract of Python::write_field: proved here, and used as the stub's contract in unit pyclass (same text)
FIELD_CONTRACT = '''        requires obeys_key_model::<String>(), dom(field.ty),
        ensures /*C04 (a member whose type text has a custom (de)serialiser is wrapped in Annotated[..] as a whole: the optional marker stays around the type text inside)*/
            r is Ok ==> exists|pre: Seq<char>, t: Seq<char>, post: Seq<char>| #[trigger] wit3(pre, t, post)
                && tx_ok(old(self).cfg(), generic_types@, field.ty, t)
                && final(w)@ == old(w)@ + pre + py_member_text(py_name(field.id.original@), t, *field)
                        + py_suffix(py_name(field.id.original@) != field.id.renamed@, field.id.renamed@, optional(*field)) + post,
            final(self).cfg() == old(self).cfg(), final(self).type_variables == old(self).type_variables,
            /*C12: recorded imports are never lost*/ imported_of(old(self).imports).subset_of(imported_of(final(self).imports)),
            /*C12: a member written with `= Field(..)` (aliased, Option or serde(default)) has pydantic.Field imported*/ (r is Ok && (py_name(field.id.original@) != field.id.renamed@ || optional(*field))) ==> imp(*final(self), "pydantic"@, "Field"@),
            /*C12: a member whose type is wrapped in `Optional[..]` by this writer (serde(default) on a non-Option) has typing.Optional imported*/ (r is Ok && field.has_default && !is_opt(field.ty)) ==> imp(*final(self), "typing"@, "Optional"@),
            /*C12: a member written as Annotated[.., BeforeValidator(..), PlainSerializer(..)] has these three names imported*/ r is Ok ==> exists|t: Seq<char>| #[trigger] wit(t) && tx_ok(old(self).cfg(), generic_types@, field.ty, t)
                && (py_custom(t) is Some ==> imp(*final(self), "typing"@, "Annotated"@) && imp(*final(self), "pydantic"@, "BeforeValidator"@)
                        && imp(*final(self), "pydantic"@, "PlainSerializer"@)),
'''

FIELD = [
    rep(A.text('&mut dyn Write'), '&mut WriteSink', tag='T7'),
    ins(A.ret(), '(r: ', where='before'), ins(A.ret(), ')', where='after'),
    ins(A.sig(), '\n' + FIELD_CONTRACT, cid='write_field.contract'),
    ins(A.body_start(), '''
        let ghost w0 = w@;'''),
    ins(A.text('let mut field_type = python_type.clone();'), '''let ghost t0 = python_type@;
        ''', where='before'),
    rep(A.text('decorators.join('), 'join_strs(&decorators, ', tag='T3', note='slice join'),
    ins(A.text('let mut decorators: Vec<String> = Vec::new();'), '''let ghost ft = field_type@;
        proof {
            /*C04*/ assert(py_custom(t0) is None ==> ft == py_inner(t0, *field));
            /*C04*/ assert(py_custom(t0) is Some ==> ft == py_annotated(py_inner(t0, *field), py_custom(t0)->Some_0.deserialization_name@, py_custom(t0)->Some_0.serialization_name@));
        }
        ''', where='before'),
    ins(A.text('self.write_comments(w, true, &field.comments, 1)?;'), '''let ghost w1 = w@;
        ''', where='before'),
    ins(A.text('Ok(())'), '''proof {
            let aliased = py_name(field.id.original@) != field.id.renamed@;
            let d = py_decorators(aliased, field.id.renamed@, optional(*field));
            /*C04*/ assert(strs(decorators@) =~= d);
            let pre = wfmt_write_field_4_p0();
            let post = wfmt_write_field_4_p3() + "\\n"@ + comments_text(1, field.comments@);
            let sfx = py_suffix(aliased, field.id.renamed@, optional(*field));
            /*C04*/ assert(python_return_value@ == sfx);
            let m = py_name(field.id.original@) + ": "@ + ft;
            /*C04*/ assert(w1 =~= w0 + pre + m + sfx + wfmt_write_field_4_p3() + "\\n"@);
            /*C04*/ assert(w@ =~= w0 + pre + m + sfx + post);
            /*C04*/ assert(m == py_member_text(py_name(field.id.original@), t0, *field));
            /*C04*/ assert(wit3(pre, t0, post));
        }
        ''', where='before'),
]

UNIT = Unit(
    name='opt_python', props=['C04', 'C12', 'C07'], pre_verus=O.PRE_VERUS, spec_files=['std_slices.rs', 'seqjoin.rs', 'typexpr.rs', 'txt.rs', 'optmark.rs'], prelude=PRELUDE,
    items=O.base_items('Python', SRC) + [
        Item('struct_CustomJsonTranslationFunctions', SRC, ['struct CustomJsonTranslationFunctions']),
        Item('add_common_imports', SRC, ['impl Python {', 'fn add_common_imports'], COMMON, wrap=('impl Python {\n', '\n}\n'), auto=('strlit',)),
        Item('write_field', SRC, ['impl Python {', 'fn write_field'], FIELD, wrap=('impl Python {\n#[verifier::rlimit(40)] // solver budget only: the proof needs 9-20 M resource units depending on the seed, the default cap is 30 M\n', '\n}\n'),
             auto=('fmt', 'strlit', 'then_some', 'map_err_q')),
    ],
    functions=['Python::write_field', 'Python::add_common_imports', 'RustType::is_optional', 'RustType::is_double_optional'],
    trusted=O.TRUSTED + ['stubs: python_property_aware_rename and json_translation_for_type are pure functions of their argument; Python::add_import '
                         '(HashMap entry API) records the (module, name) pair and changes nothing else; outlined: [String]::join',
                         'format_type never loses a recorded import (frame clause PROVED in unit fmt_python, assumed on the stub here)'],
    undecided=O.UNDECIDED + ['Python ignores per-field type overrides'],
)
UNIT.crate_attrs = '#![feature(allocator_api)]'
UNIT.forbid = F.FORBID
UNIT.allowed_calls = O.ALLOWED | {'insert'}


def _search():
    # the unit serves two properties: a failing input is looked for with the stand-in of the property being checked
    import os
    if os.environ.get('VERIF_PID') == 'C12':
        import helpersearch
        return helpersearch
    import optsearch
    return optsearch


def native(workdir):
    return _search().native(workdir)


def replay_args(inp):
    if 'trigger' in inp:
        import helpersearch
        return helpersearch.replay_args(inp)
    import optsearch
    return optsearch.replay_args(inp)
