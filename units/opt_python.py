"""U-opt_python: Python::write_field (see optcommon)."""
from rsx import A, ins, rep, drop
from vunit import Item, Unit
import fmtcommon as F
import optcommon as O

SRC = 'core/src/language/python.rs'

PRELUDE = O.PRELUDE + r'''
impl Python {
    pub open spec fn cfg(&self) -> TCfg { TCfg { lang: Lang::Python, map: self.type_mappings@, prefix: Seq::empty(), no_pointer_slice: false } }
''' + O.FORMAT_TYPE_STUB % {'fmt': 'fmt_python'} + r'''
    #[verifier::external_body]
    fn write_comments(&self, w: &mut WriteSink, is_docstring: bool, comments: &[String], indent_level: usize) -> (r: std::io::Result<()>)
        ensures r is Ok ==> final(w)@ == old(w)@ + comments_text(indent_level as int, comments@),
    { unimplemented!() }
    /// stub: import bookkeeping (C12's domain) leaves type_mappings alone
    #[verifier::external_body]
    fn add_common_imports(&mut self, is_optional: bool, requires_custom_translation: bool, is_aliased: bool)
        ensures final(self).cfg() == old(self).cfg(),
    { unimplemented!() }
    /// stub: import bookkeeping (C12's domain) leaves type_mappings alone
    #[verifier::external_body]
    fn add_import(&mut self, module: String, name: String)
        ensures final(self).cfg() == old(self).cfg(),
    { unimplemented!() }
}
/// python_property_aware_rename: snake case + keyword escape - a pure function of the name
pub uninterp spec fn py_name(name: Seq<char>) -> Seq<char>;
#[verifier::external_body]
fn python_property_aware_rename(name: &str) -> (r: String) ensures r@ == py_name(name@) { unimplemented!() }
/// json_translation_for_type: custom (de)serialiser names for a mapped type text (a table lookup), a pure function of the text
pub uninterp spec fn py_custom(t: Seq<char>) -> Option<CustomJsonTranslationFunctions>;
#[verifier::external_body]
fn json_translation_for_type(python_type: &str) -> (r: Option<CustomJsonTranslationFunctions>) ensures r == py_custom(python_type@) { unimplemented!() }
/// `[String]::join(sep)`
#[verifier::external_body]
fn join_strs(v: &Vec<String>, sep: &str) -> (r: String) ensures r@ == join(strs(v@), sep@) { unimplemented!() }
'''

FIELD = [
    rep(A.text('&mut dyn Write'), '&mut WriteSink', tag='T7'),
    ins(A.ret(), '(r: ', where='before'), ins(A.ret(), ')', where='after'),
    ins(A.sig(), '''
        requires obeys_key_model::<String>(), dom(field.ty),
        ensures /*C04 (members whose type text needs a custom (de)serialiser get an Annotated[..] wrapper: not decided here)*/
            r is Ok ==> exists|pre: Seq<char>, t: Seq<char>, post: Seq<char>| #[trigger] wit3(pre, t, post)
                && tx_ok(old(self).cfg(), generic_types@, field.ty, t)
                && (py_custom(t) is None ==> final(w)@ == old(w)@ + pre + member(Lang::Python, py_name(field.id.original@), t, *field)
                        + py_suffix(py_name(field.id.original@) != field.id.renamed@, field.id.renamed@, optional(*field)) + post),
            final(self).cfg() == old(self).cfg(),
''', cid='write_field.contract'),
    ins(A.body_start(), '''
        let ghost w0 = w@;'''),
    ins(A.text('let mut field_type = python_type.clone();'), '''let ghost t0 = python_type@;
        ''', where='before'),
    rep(A.text('decorators.join('), 'join_strs(&decorators, ', tag='T3', note='slice join'),
    ins(A.text('self.write_comments(w, true, &field.comments, 1)?;'), '''let ghost w1 = w@;
        ''', where='before'),
    ins(A.text('Ok(())'), '''proof {
            if py_custom(t0) is None {
                let aliased = py_name(field.id.original@) != field.id.renamed@;
                let d = py_decorators(aliased, field.id.renamed@, optional(*field));
                assert(strs(decorators@) =~= d);
                let pre = wfmt_write_field_4_p0();
                let post = wfmt_write_field_4_p3() + "\\n"@ + comments_text(1, field.comments@);
                let m = member(Lang::Python, py_name(field.id.original@), t0, *field);
                let sfx = py_suffix(aliased, field.id.renamed@, optional(*field));
                assert(python_return_value@ == sfx);
                assert(w1 =~= w0 + pre + m + sfx + wfmt_write_field_4_p3() + "\\n"@);
                assert(w@ =~= w0 + pre + m + sfx + post);
                assert(wit3(pre, t0, post));
            } else {
                assert(wit3(Seq::<char>::empty(), t0, Seq::<char>::empty()));
            }
        }
        ''', where='before'),
]

UNIT = Unit(
    name='opt_python', props=['C04', 'C07'], pre_verus=O.PRE_VERUS, spec_files=['std_slices.rs', 'seqjoin.rs', 'typexpr.rs', 'txt.rs', 'optmark.rs'], prelude=PRELUDE,
    items=O.base_items('Python', SRC) + [
        Item('struct_CustomJsonTranslationFunctions', SRC, ['struct CustomJsonTranslationFunctions']),
        Item('write_field', SRC, ['impl Python {', 'fn write_field'], FIELD, wrap=('impl Python {\n', '\n}\n'),
             auto=('fmt', 'strlit', 'then_some', 'map_err_q')),
    ],
    functions=['Python::write_field', 'RustType::is_optional', 'RustType::is_double_optional'],
    trusted=O.TRUSTED + ['stubs: python_property_aware_rename and json_translation_for_type are pure functions of their argument; add_common_imports '
                         'leaves type_mappings unchanged; outlined: [String]::join'],
    undecided=O.UNDECIDED + ['Python members whose type text has a custom (de)serialiser (Annotated[..] wrapper); Python ignores per-field type overrides'],
)
UNIT.crate_attrs = '#![feature(allocator_api)]'
UNIT.forbid = F.FORBID
UNIT.allowed_calls = O.ALLOWED | {'insert'}


def native(workdir):
    import optsearch
    return optsearch.native(workdir)


def replay_args(inp):
    import optsearch
    return optsearch.replay_args(inp)
