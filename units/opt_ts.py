"""U-opt_ts: TypeScript::write_field (see optcommon)."""
from rsx import A, ins, rep, drop
from vunit import Item, Unit
import fmtcommon as F
import optcommon as O

SRC = 'core/src/language/typescript.rs'

PRELUDE = O.PRELUDE + r'''
impl TypeScript {
    pub open spec fn cfg(&self) -> TCfg { TCfg { lang: Lang::TypeScript, map: self.type_mappings@, prefix: Seq::empty(), no_pointer_slice: false } }
''' + O.FORMAT_TYPE_STUB % {'fmt': 'fmt_ts'} + r'''
    #[verifier::external_body]
    fn write_comments(&mut self, w: &mut WriteSink, indent: usize, comments: &[String]) -> (r: io::Result<()>)
        ensures r is Ok ==> final(w)@ == old(w)@ + comments_text(indent as int, comments@), final(self).cfg() == old(self).cfg(),
    { unimplemented!() }
}
/// outlined (T3): reviver bookkeeping `if self.custom_translations(&ts_ty).is_some() { ..entry(..)..insert(..) }` - touches only that map
#[verifier::external_body]
fn note_field_translation(seen: &mut BTreeMap<String, BTreeSet<String>>, ts_ty: &String, key: &String) { unimplemented!() }
/// outlined (T3): is the field marked `readonly` (decorator lookup)
pub uninterp spec fn readonly_of(f: RustField) -> bool;
#[verifier::external_body]
fn is_readonly_field(field: &RustField) -> (r: bool) ensures r == readonly_of(*field) { unimplemented!() }
/// typescript_property_aware_rename: quotes a key containing `-` (a pure function of the name)
pub uninterp spec fn ts_prop_name(name: Seq<char>) -> Seq<char>;
#[verifier::external_body]
fn typescript_property_aware_rename(name: &str) -> (r: String) ensures r@ == ts_prop_name(name@) { unimplemented!() }
'''

FIELD = [
    rep(A.text('&mut dyn Write'), '&mut WriteSink', tag='T7'),
    ins(A.ret(), '(r: ', where='before'), ins(A.ret(), ')', where='after'),
    ins(A.sig(), '''
        requires obeys_key_model::<String>(), dom(field.ty),
        ensures /*C04*/ r is Ok ==> exists|pre: Seq<char>, t: Seq<char>, post: Seq<char>| #[trigger] wit3(pre, t, post)
                && field_type_ok(old(self).cfg(), generic_types@, *field, SupportedLanguage::TypeScript, t)
                && final(w)@ == old(w)@ + pre + member(Lang::TypeScript, ts_prop_name(field.id.renamed@), t, *field) + post,
            final(self).cfg() == old(self).cfg(),
''', cid='write_field.contract'),
    ins(A.body_start(), '''
        let ghost w0 = w@;
        let ghost c0 = self.cfg();'''),
    rep(A.span('if self.custom_translations(&ts_ty).is_some() {', '.or_default() .insert(field.id.renamed.clone()); }'),
        'note_field_translation(&mut self.types_for_custom_json_translation, &ts_ty, &field.id.renamed);', tag='T3'),
    rep(A.span('field .decorators', '.is_some()'), 'is_readonly_field(field)', tag='T3'),
    ins(A.text('Ok(())'), '''proof {
            let ro = if is_readonly { "readonly "@ } else { Seq::<char>::empty() };
            // the text before the name and after the member is whatever the literal says (incidental); what lies between is C04's business
            let pre = comments_text(1, field.comments@) + wfmt_write_field_0_p0() + ro;
            let post = wfmt_write_field_0_p5() + "\\n"@;
            let m = member(Lang::TypeScript, ts_prop_name(field.id.renamed@), ts_ty@, *field);
            assert(wit3(pre, ts_ty@, post));
            assert(w@ =~= w0 + pre + m + post);
        }
        ''', where='before'),
]

UNIT = Unit(
    name='opt_ts', props=['C04', 'C07'], pre_verus=O.PRE_VERUS, spec_files=['std_slices.rs', 'seqjoin.rs', 'typexpr.rs', 'txt.rs', 'optmark.rs'], prelude=PRELUDE,
    items=O.base_items('TypeScript', SRC) + [
        Item('write_field', SRC, ['impl TypeScript {', 'fn write_field'], FIELD, wrap=('impl TypeScript {\n', '\n}\n'),
             auto=('fmt', 'strlit', 'then_some', 'map_err_q')),
    ],
    functions=['TypeScript::write_field', 'RustType::is_optional', 'RustType::is_double_optional'],
    trusted=O.TRUSTED + ['outlined: reviver bookkeeping (touches only types_for_custom_json_translation); readonly lookup; typescript_property_aware_rename is a pure function of the name'],
    undecided=O.UNDECIDED,
)
UNIT.crate_attrs = '#![feature(allocator_api)]'
UNIT.forbid = F.FORBID
UNIT.allowed_calls = O.ALLOWED


def native(workdir):
    import optsearch
    return optsearch.native(workdir)


def replay_args(inp):
    import optsearch
    return optsearch.replay_args(inp)
