"""U-opt_ts: TypeScript::write_field (see optcommon)."""
from rsx import A, ins, rep, drop
from vunit import Item, Unit
import fmtcommon as F
import optcommon as O

SRC = 'core/src/language/typescript.rs'

PRELUDE = O.PRELUDE + r'''
impl TypeScript {
    pub open spec fn cfg(&self) -> TCfg { TCfg { lang: Lang::TypeScript, map: self.type_mappings@, prefix: Seq::empty(), no_pointer_slice: false } }
''' + O.FORMAT_TYPE_STUB % {'fmt': 'fmt_ts'} + r'''
    #[verifier::external_body]
    fn write_comments(&mut self, w: &mut WriteSink, indent: usize, comments: &[String]) -> (r: io::Result<()>)
        ensures r is Ok ==> final(w)@ == old(w)@ + comments_text(indent as int, comments@), final(self).cfg() == old(self).cfg(),
    { unimplemented!() }
}
// ---------- T7 stubs for the enum types the lifted payload block names (only these fields / this accessor are used)
pub struct RustEnumShared { pub generic_types: Vec<String> }
pub struct RustEnum { pub s: RustEnumShared }
impl RustEnum {
    #[verifier::external_body]
    pub fn shared(&self) -> (r: &RustEnumShared) ensures *r == self.s { unimplemented!() }
}
pub struct RustEnumVariantShared { pub id: Id }
impl BTreeMap<String, BTreeSet<String>> {
    /// the type texts recorded for the ReviverFunc / ReplacerFunc footer
    pub uninterp spec fn keys(&self) -> Set<Seq<char>>;
    /// std: BTreeMap::is_empty - no key recorded
    #[verifier::external_body]
    pub fn is_empty(&self) -> (r: bool) ensures r == (self.keys() =~= Set::<Seq<char>>::empty()) { unimplemented!() }
}
/// the custom translation snippets of one recorded type (struct CustomJsonTranslationContent: two texts)
pub struct CustomJsonTranslationContent { reviver: String, replacer: String }
/// outlined (T3): `self.types_for_custom_json_translation.iter().filter_map(|(ts_type, ..)| self.custom_translations(ts_type)).collect()`
#[verifier::external_body]
fn collect_translations(this: &TypeScript) -> (r: Vec<CustomJsonTranslationContent>) { unimplemented!() }
/// outlined (T3): `content.iter().map(|c| &c.reviver).join("\n    ")` / the same for `replacer` (itertools join): some text
#[verifier::external_body]
fn join_revivers(v: &Vec<CustomJsonTranslationContent>) -> (r: String) { unimplemented!() }
#[verifier::external_body]
fn join_replacers(v: &Vec<CustomJsonTranslationContent>) -> (r: String) { unimplemented!() }
/// trigger plumbing for "the output is earlier text + a + declaration + b"
pub open spec fn wit2(a: Seq<char>, b: Seq<char>) -> bool { true }
/// the declaration every use of the helper refers to
pub open spec fn reviver_decl() -> Seq<char> { "export const ReviverFunc"@ }
/// outlined (T3): reviver bookkeeping `if self.custom_translations(&ts_ty).is_some() { ..entry(..)..insert(..) }` - touches only that map
#[verifier::external_body]
fn note_field_translation(seen: &mut BTreeMap<String, BTreeSet<String>>, ts_ty: &String, key: &String) { unimplemented!() }
/// outlined (T3): is the field marked `readonly` (decorator lookup)
pub uninterp spec fn readonly_of(f: RustField) -> bool;
#[verifier::external_body]
fn is_readonly_field(field: &RustField) -> (r: bool) ensures r == readonly_of(*field) { unimplemented!() }
/// typescript_property_aware_rename: quotes a key containing `-` (a pure function of the name)
pub uninterp spec fn ts_prop_name(name: Seq<char>) -> Seq<char>;
#[verifier::external_body]
fn typescript_property_aware_rename(name: &str) -> (r: String) ensures r@ == ts_prop_name(name@) { unimplemented!() }
'''

FIELD = [
    rep(A.text('&mut dyn Write'), '&mut WriteSink', tag='T7'),
    ins(A.ret(), '(r: ', where='before'), ins(A.ret(), ')', where='after'),
    ins(A.sig(), '''
        requires obeys_key_model::<String>(), dom(field.ty),
        ensures /*C04*/ r is Ok ==> exists|pre: Seq<char>, t: Seq<char>, post: Seq<char>| #[trigger] wit3(pre, t, post)
                && field_type_ok(old(self).cfg(), generic_types@, *field, SupportedLanguage::TypeScript, t)
                && final(w)@ == old(w)@ + pre + member(Lang::TypeScript, ts_prop_name(field.id.renamed@), t, *field) + post,
            final(self).cfg() == old(self).cfg(),
''', cid='write_field.contract'),
    ins(A.body_start(), '''
        let ghost w0 = w@;
        let ghost c0 = self.cfg();'''),
    rep(A.span('if self.custom_translations(&ts_ty).is_some() {', '.or_default() .insert(field.id.renamed.clone()); }'),
        'note_field_translation(&mut self.types_for_custom_json_translation, &ts_ty, &field.id.renamed);', tag='T3'),
    rep(A.span('field .decorators', '.is_some()'), 'is_readonly_field(field)', tag='T3'),
    ins(A.text('Ok(())'), '''proof {
            let ro = if is_readonly { "readonly "@ } else { Seq::<char>::empty() };
            // the text before the name and after the member is whatever the literal says (incidental); what lies between is C04's business
            let pre = comments_text(1, field.comments@) + wfmt_write_field_0_p0() + ro;
            let post = wfmt_write_field_0_p5() + "\\n"@;
            let m = member(Lang::TypeScript, ts_prop_name(field.id.renamed@), ts_ty@, *field);
            assert(wit3(pre, ts_ty@, post));
            assert(w@ =~= w0 + pre + m + post);
        }
        ''', where='before'),
]

ENDFILE = [
    rep(A.text('&mut dyn Write'), '&mut WriteSink', tag='T7'),
    ins(A.ret(), '(r: ', where='before'), ins(A.ret(), ')', where='after'),
    ins(A.sig(), '''
        ensures /*C12: whenever a type text has been recorded for the reviver / replacer helpers, the footer that declares them is written*/
            (r is Ok && !(old(self).types_for_custom_json_translation.keys() =~= Set::<Seq<char>>::empty())) ==> exists|a: Seq<char>, b: Seq<char>| #[trigger] wit2(a, b)
                && final(w)@ == old(w)@ + a + reviver_decl() + b,
''', cid='end_file.contract'),
    ins(A.body_start(), '''
        let ghost w0 = w@;'''),
    rep(A.span('self .types_for_custom_json_translation .iter() .filter_map(', '.collect::<Vec<CustomJsonTranslationContent>>()'), 'collect_translations(self)', tag='T3',
        note='which snippets are collected is not part of the clause'),
    rep(A.span('custom_translation_content .iter() .map(|custom_json_translation| &custom_json_translation.reviver)', '.join("\\n    ")'), 'join_revivers(&custom_translation_content)', tag='T3'),
    rep(A.span('custom_translation_content .iter() .map(|custom_json_translation| &custom_json_translation.replacer)', '.join("\\n    ")'), 'join_replacers(&custom_translation_content)', tag='T3'),
    ins(A.text('return writeln!('), '''let ghost w1 = w@;
            ''', where='before'),
    rep(A.text('return', nth=1), 'let r__: std::io::Result<()> =', tag='T13', note='`return E;` as `let r = E; return r;` so that the proof can stand between the call and the return'),
    ins(A.text('} Ok(())'), '''proof {
                if r__ is Ok {
                    // the declaration is whatever the literal says: its first piece has to begin with `export const ReviverFunc`
                    wfmt_end_file_0_p0_chars();
                    reveal_strlit("export const ReviverFunc");
                    let p0 = wfmt_end_file_0_p0();
                    let n = reviver_decl().len() as int;
                    assert(p0.len() >= n);
                    let rest = p0.subrange(n, p0.len() as int);
                    assert(p0 =~= reviver_decl() + rest);
                    let a = w1.subrange(w0.len() as int, w1.len() as int);
                    assert(w1 =~= w0 + a);
                    let b = w@.subrange(w1.len() + n, w@.len() as int);
                    assert(wit2(a, b));
                    assert(w@ =~= w0 + a + reviver_decl() + b);
                }
            }
            return r__;
        ''', where='before'),
]

PAYLOAD_WRAP = ('''impl TypeScript {
/// T11: the arm of write_enum_variants' closure that writes the payload of a newtype (tuple) variant of an algebraic enum
fn tuple_payload_block(&mut self, w: &mut WriteSink, e: &RustEnum, tag_key: &String, content_key: &String, ty: &RustType, shared: &RustEnumVariantShared) -> (r: io::Result<()>)
    requires obeys_key_model::<String>(), dom(*ty),
    ensures /*C04: the payload of a newtype variant is optional exactly when its type is Option<T>; the marker never changes the type text; Option<Option<T>> keeps `| null`*/
        r is Ok ==> exists|pre: Seq<char>, t: Seq<char>, post: Seq<char>| #[trigger] wit3(pre, t, post)
            && tx_ok(old(self).cfg(), e.s.generic_types@, *ty, t)
            && final(w)@ == old(w)@ + pre + ts_payload(content_key@, t, *ty) + post,
        final(self).cfg() == old(self).cfg(),
{
    let ghost w0 = w@;
    let ghost c0 = self.cfg();
    let r__: io::Result<()> =
''', ''';
    proof {
        if r__ is Ok {
            let t = choose|t: Seq<char>| #[trigger] wit(t) && tx_ok(c0, e.s.generic_types@, *ty, t) && w@ == w0 + wfmt_tuple_payload_block_0_p0() + tag_key@ + wfmt_tuple_payload_block_0_p1() + debug_str(shared.id.renamed@)
                + wfmt_tuple_payload_block_0_p2() + content_key@ + wfmt_tuple_payload_block_0_p3() + mark(is_opt(*ty), "?"@) + wfmt_tuple_payload_block_0_p4() + t + wfmt_tuple_payload_block_0_p5()
                + mark(is_double_opt(*ty), " | null"@) + wfmt_tuple_payload_block_0_p6();
            wfmt_tuple_payload_block_0_p3_chars(); wfmt_tuple_payload_block_0_p5_chars();
            let pre = wfmt_tuple_payload_block_0_p0() + tag_key@ + wfmt_tuple_payload_block_0_p1() + debug_str(shared.id.renamed@) + wfmt_tuple_payload_block_0_p2();
            let post = wfmt_tuple_payload_block_0_p6();
            assert(wit3(pre, t, post));
            assert(w@ =~= w0 + pre + ts_payload(content_key@, t, *ty) + post);
        }
    }
    r__
}
}
''')

UNIT = Unit(
    name='opt_ts', props=['C04', 'C12', 'C07'], pre_verus=O.PRE_VERUS, spec_files=['std_slices.rs', 'seqjoin.rs', 'typexpr.rs', 'txt.rs', 'optmark.rs'], prelude=PRELUDE,
    items=O.base_items('TypeScript', SRC) + [
        Item('write_field', SRC, ['impl TypeScript {', 'fn write_field'], FIELD, wrap=('impl TypeScript {\n#[verifier::rlimit(40)] // solver budget only: up to 25 M resource units depending on the seed, the default cap is 30 M\n', '\n}\n'),
             auto=('fmt', 'strlit', 'then_some', 'map_err_q')),
        Item('end_file', SRC, ['impl Language for TypeScript {', 'fn end_file'], ENDFILE, wrap=('impl TypeScript {\n', '\n}\n'), auto=('fmt', 'strlit')),
        Item('tuple_payload_block', SRC, ['impl TypeScript {', 'fn write_enum_variants'], [], wrap=PAYLOAD_WRAP,
             block=(A.text('RustEnumVariant::Tuple { ty, shared } =>'), A.text('RustEnumVariant::AnonymousStruct { fields, shared } =>')),
             auto=('fmt', 'strlit', 'then_some', 'map_err_q', ('tok', 'r#type', 'rtype__', 'T12'))),
    ],
    functions=['TypeScript::write_field', 'TypeScript::tuple_payload_block', 'TypeScript::end_file', 'RustType::is_optional', 'RustType::is_double_optional'],
    trusted=O.TRUSTED + ['outlined: reviver bookkeeping (touches only types_for_custom_json_translation); readonly lookup; typescript_property_aware_rename is a pure function of the name',
                         'T11: the arm of write_enum_variants that writes a newtype-variant payload is lifted into a function of (self, w, e, tag_key, content_key, ty, shared); T12: the raw identifier '
                         '`r#type` is renamed (Verus 0.2026.09.13 aborts on raw identifiers); stubs RustEnum / RustEnumShared / RustEnumVariantShared carry only the fields the block reads',
                         'end_file: BTreeMap::is_empty as "no key recorded"; the filter_map / map / join chains that collect the snippets are outlined (some text); T13: `return E;` as `let r = E; return r;`'],
    undecided=[u for u in O.UNDECIDED if 'newtype-variant' not in u] + ['members written on other paths (type aliases) and the text around a member; newtype-variant payloads are decided for TypeScript only (the other '
                                  'back ends put the marker of Option<T> into the type text: C05)',
                                  'C12: which snippets the footer contains (custom_translations table, iterator chains); that every use of ReviverFunc / ReplacerFunc lies in the footer itself'],
)
UNIT.crate_attrs = '#![feature(allocator_api)]'
UNIT.forbid = F.FORBID
UNIT.allowed_calls = O.ALLOWED


def _search():
    # the unit serves two properties: a failing input is looked for with the stand-in of the property being checked
    import os
    if os.environ.get('VERIF_PID') == 'C12':
        import helpersearch
        return helpersearch
    import optsearch
    return optsearch


def native(workdir):
    return _search().native(workdir)


def replay_args(inp):
    if 'trigger' in inp:
        import helpersearch
        return helpersearch.replay_args(inp)
    import optsearch
    return optsearch.replay_args(inp)
