"""U-fmt_python: Python's type-expression translator (see fmtcommon)."""
from rsx import A, ins, rep, drop
import fmtcommon as F

SRC = 'core/src/language/python.rs'

PRELUDE = r'''
/// the (module, name) pairs recorded for the import block (`imports: HashMap<module, HashSet<name>>`)
pub uninterp spec fn imported_of(m: HashMap<String, HashSet<String>>) -> Set<(Seq<char>, Seq<char>)>;
impl Python {
    /// stub for Python::add_import (`self.imports.entry(module).or_default().insert(identifier)`): records the pair, nothing else changes
    #[verifier::external_body]
    fn add_import(&mut self, module: String, identifier: String)
        ensures final(self).cfg() == old(self).cfg(), imported_of(final(self).imports) == imported_of(old(self).imports).insert((module@, identifier@)),
            final(self).type_variables == old(self).type_variables,
    { unimplemented!() }
    /// stub for Python::add_imports (imports for the well-known names Url / DateTime): only adds
    #[verifier::external_body]
    fn add_imports(&mut self, tp: &str)
        ensures final(self).cfg() == old(self).cfg(), imported_of(old(self).imports).subset_of(imported_of(final(self).imports)),
            final(self).type_variables == old(self).type_variables,
    { unimplemented!() }
}
/// outlined (T3): `if json_translation_for_type(mapped).is_some() { self.types_for_custom_json_translation.insert(..) }` - bookkeeping
/// for the custom (de)serialisers; touches only that field
#[verifier::external_body]
fn note_custom_translation(seen: &mut HashSet<String>, mapped: &String) { unimplemented!() }
'''

PY_HELPERS = [('Seq', 'typing', 'List'), ('Opt', 'typing', 'Optional'), ('Map', 'typing', 'Dict'), ('DateTime', 'datetime', 'datetime')]


def _clauses(reach, where):
    return ' '.join('/*C12*/ (r is Ok && %s) ==> imported_of(%s.imports).contains(("%s"@, "%s"@)),' % (reach % k, where, m, n) for (k, m, n) in PY_HELPERS)


X12 = {
    'frame': '/*C12: recorded imports are never lost*/ imported_of(old(self).imports).subset_of(imported_of(final(self).imports)), /*C12: the recorded type variables are untouched*/ final(self).type_variables == old(self).type_variables,',
    'ty': '/*C12: a type expression that prints List[ / Optional[ / Dict[ / datetime has recorded the import of that name*/ ' + _clauses('reaches(old(self).cfg(), *ty, Kind::%s)', 'final(self)'),
    'gen': _clauses('reaches_any(old(self).cfg(), *base, parameters@, Kind::%s)', 'final(self)'),
    'special': _clauses('reaches_special(old(self).cfg(), *special_ty, Kind::%s)', 'final(self)'),
    'inv': '\n                    /*C12*/ imported_of(old(self).imports).subset_of(imported_of(self.imports)), self.type_variables == old(self).type_variables, ' + ' '.join(
        'forall|k: int| 0 <= k < it.index@ ==> (reaches(c0, #[trigger] parameters@[k], Kind::%s) ==> imported_of(self.imports).contains(("%s"@, "%s"@))),' % (k, m, n) for (k, m, n) in PY_HELPERS),
}

SPECIAL = F.SPECIAL_HEAD + F.special_key_reps(1) + [
    rep(A.span('if json_translation_for_type(mapped).is_some() {', '.insert(mapped.to_string()); }'),
        'note_custom_translation(&mut self.types_for_custom_json_translation, mapped);', tag='T3',
        note='custom (de)serialiser bookkeeping: writes only types_for_custom_json_translation'),
]

GENERIC = F.default_generic() + [
    rep(A.text('parameters.join('), 'join_strings(parameters, ', tag='T3', note='slice join: the strings separated by the given separator'),
]

UNIT = F.make_unit('fmt_python', 'Python', SRC, 'Python',
                   'TCfg { lang: Lang::Python, map: self.type_mappings@, prefix: Seq::empty(), no_pointer_slice: false }',
                   PRELUDE, SPECIAL,
                   overrides={'format_generic_type': (GENERIC, ('fmt',)), 'format_simple_type': (F.simple_contract('_generic_types'), ())},
                   trusted_extra=['stubs: Python::add_import records the (module, name) pair and changes nothing else; add_imports only adds; the custom-translation bookkeeping touches only its own field'],
                   x12=X12)
UNIT.spec_files = list(UNIT.spec_files) + ['helpers.rs']
# Python never calls format_generic_parameters (its format_generic_type spells the brackets itself); the trait default is still extracted and
# verified against the default notation, it is simply unused by this back end


def _search():
    # the unit serves two properties: a failing input is looked for with the stand-in of the property being checked
    import os
    if os.environ.get('VERIF_PID') == 'C12':
        import helpersearch
        return helpersearch
    import typesearch
    return typesearch


def native(workdir):
    return _search().native(workdir)


def replay_args(inp):
    if 'trigger' in inp:
        import helpersearch
        return helpersearch.replay_args(inp)
    import typesearch
    return typesearch.replay_args(inp)
