"""U-fmt_python: Python's type-expression translator (see fmtcommon)."""
from rsx import A, ins, rep, drop
import fmtcommon as F

SRC = 'core/src/language/python.rs'

PRELUDE = r'''
impl Python {
    /// stubs for Python::add_import / add_imports (record a module member for the import block - C12's domain): leave type_mappings alone
    #[verifier::external_body]
    fn add_import(&mut self, module: String, identifier: String)
        ensures final(self).cfg() == old(self).cfg()
    { unimplemented!() }
    #[verifier::external_body]
    fn add_imports(&mut self, tp: &str)
        ensures final(self).cfg() == old(self).cfg()
    { unimplemented!() }
}
/// outlined (T3): `if json_translation_for_type(mapped).is_some() { self.types_for_custom_json_translation.insert(..) }` - bookkeeping
/// for the custom (de)serialisers (C12's domain); touches only that field
#[verifier::external_body]
fn note_custom_translation(seen: &mut HashSet<String>, mapped: &String) { unimplemented!() }
'''

SPECIAL = F.SPECIAL_HEAD + F.special_key_reps(1) + [
    rep(A.span('if json_translation_for_type(mapped).is_some() {', '.insert(mapped.to_string()); }'),
        'note_custom_translation(&mut self.types_for_custom_json_translation, mapped);', tag='T3',
        note='custom (de)serialiser bookkeeping: writes only types_for_custom_json_translation'),
]

GENERIC = F.default_generic() + [
    rep(A.text('parameters.join('), 'join_strings(parameters, ', tag='T3', note='slice join: the strings separated by the given separator'),
]

UNIT = F.make_unit('fmt_python', 'Python', SRC, 'Python',
                   'TCfg { lang: Lang::Python, map: self.type_mappings@, prefix: Seq::empty(), no_pointer_slice: false }',
                   PRELUDE, SPECIAL,
                   overrides={'format_generic_type': (GENERIC, ('fmt',)), 'format_simple_type': (F.simple_contract('_generic_types'), ())},
                   trusted_extra=['stubs: Python::add_import / add_imports and the custom-translation bookkeeping leave type_mappings unchanged (import bookkeeping is C12\'s domain)'])
# Python never calls format_generic_parameters (its format_generic_type spells the brackets itself); the trait default is still extracted and
# verified against the default notation, it is simply unused by this back end


def native(workdir):
    import typesearch
    return typesearch.native(workdir)


def replay_args(inp):
    import typesearch
    return typesearch.replay_args(inp)
