"""U-opt_go: Go::write_field (see optcommon)."""
from rsx import A, ins, rep, drop
from vunit import Item, Unit
import fmtcommon as F
import optcommon as O

SRC = 'core/src/language/go.rs'

PRELUDE = O.PRELUDE + r'''
impl Go {
    pub open spec fn cfg(&self) -> TCfg { TCfg { lang: Lang::Go, map: self.type_mappings@, prefix: Seq::empty(), no_pointer_slice: self.no_pointer_slice } }
''' + O.FORMAT_TYPE_STUB % {'fmt': 'fmt_go'} + r'''
    /// stubs: acronym upper-casing of a type name and the exported field name (pure functions of their arguments and the acronym list)
    #[verifier::external_body]
    fn acronyms_to_uppercase(&self, name: &str) -> (r: String) ensures r@ == go_acr(self.uppercase_acronyms@, name@) { unimplemented!() }
    #[verifier::external_body]
    fn format_field_name(&mut self, name: String, exported: bool) -> (r: String)
        ensures r@ == go_field_name(old(self).uppercase_acronyms@, name@, exported), final(self).cfg() == old(self).cfg(),
                final(self).uppercase_acronyms@ == old(self).uppercase_acronyms@,
    { unimplemented!() }
}
pub uninterp spec fn go_acr(acronyms: Seq<String>, name: Seq<char>) -> Seq<char>;
pub uninterp spec fn go_field_name(acronyms: Seq<String>, name: Seq<char>, exported: bool) -> Seq<char>;
/// stub for the free function write_comments of go.rs
#[verifier::external_body]
fn write_comments(w: &mut WriteSink, indent: usize, comments: &[String]) -> (r: std::io::Result<()>)
    ensures r is Ok ==> final(w)@ == old(w)@ + comments_text(indent as int, comments@),
{ unimplemented!() }
/// outlined (T3): `&s[1..s.len() - 1]` - the JSON key without the quotes Debug formatting put around it
pub uninterp spec fn unquote(s: Seq<char>) -> Seq<char>;
#[verifier::external_body]
fn strip_quotes(s: &String) -> (r: &str) ensures r@ == unquote(s@) { unimplemented!() }
'''

FIELD = [
    rep(A.text('&mut dyn Write'), '&mut WriteSink', tag='T7'),
    ins(A.ret(), '(r: ', where='before'), ins(A.ret(), ')', where='after'),
    ins(A.sig(), '''
        requires obeys_key_model::<String>(), dom(field.ty),
        ensures /*C04*/ r is Ok ==> exists|pre: Seq<char>, t: Seq<char>, post: Seq<char>| #[trigger] wit3(pre, t, post)
                && field_type_ok(old(self).cfg(), generic_types@, *field, SupportedLanguage::Go, t)
                && final(w)@ == old(w)@ + pre
                    + member(Lang::Go, go_field_name(final(self).uppercase_acronyms@, field.id.original@, true), go_acr(final(self).uppercase_acronyms@, t), *field)
                    + go_tag(unquote(debug_str(field.id.renamed@)), *field) + post,
            final(self).cfg() == old(self).cfg(),
''', cid='write_field.contract'),
    ins(A.ret(fn='option_symbol'), '(r: ', where='before'), ins(A.ret(fn='option_symbol'), ')', where='after'),
    ins(A.sig(fn='option_symbol'), '''
            ensures r@ == mark(optional, ",omitempty"@)
''', cid='option_symbol.contract'),
    ins(A.body_start(fn='option_symbol'), '''
            proof { reveal_strlit(""); assert(""@ =~= Seq::<char>::empty()); }'''),
    ins(A.text('write_comments(w, 1, &field.comments)?;'), '''let ghost w0 = w@;
        ''', where='before'),
    rep(A.text('&formatted_renamed_id[1..formatted_renamed_id.len() - 1]'), 'strip_quotes(&formatted_renamed_id)', tag='T3',
        note='string slicing: the text between the first and the last character'),
    ins(A.text('Ok(())'), '''proof {
            reveal_strlit("");
            let acr0 = self.uppercase_acronyms@;
            // the text before the name is whatever the literal says (incidental); name, marker, type and struct tag are C04's business
            let pre = comments_text(1, field.comments@) + wfmt_write_field_2_p0();
            let post = "\\n"@;
            let nm = go_field_name(acr0, field.id.original@, true);
            let star = mark(field.has_default && !is_opt(field.ty), "*"@);
            let osym = mark(optional(*field), ",omitempty"@);
            let m = member(Lang::Go, nm, go_acr(acr0, type_name@), *field);
            let tag = go_tag(unquote(debug_str(field.id.renamed@)), *field);
            let a = w0 + comments_text(1, field.comments@) + wfmt_write_field_2_p0() + nm + " "@ + star + go_type@;
            assert(a =~= w0 + pre + m);
            let b = a + " `json:\\""@ + renamed_id@ + osym + "\\"`"@;
            assert(b =~= a + tag);
            assert(w@ == b + "\\n"@);
            // the override case: `*` override for an Option<T> field (literal of the format! site)
            fmt_write_field_0_p0_chars(); fmt_write_field_0_p1_chars(); reveal_strlit("*");
            assert(wit3(pre, type_name@, post));
            assert(w@ =~= w0 + pre + m + tag + post);
        }
        ''', where='before'),
]

UNIT = Unit(
    name='opt_go', props=['C04', 'C07'], pre_verus=O.PRE_VERUS, spec_files=['std_slices.rs', 'seqjoin.rs', 'typexpr.rs', 'txt.rs', 'optmark.rs'], prelude=PRELUDE,
    items=O.base_items('Go', SRC) + [
        Item('write_field', SRC, ['impl Go {', 'fn write_field'], FIELD, wrap=('impl Go {\n', '\n}\n'),
             auto=('fmt', 'strlit', 'then_some', 'map_err_q')),
    ],
    functions=['Go::write_field', 'RustType::is_optional', 'RustType::is_double_optional'],
    trusted=O.TRUSTED + ['stubs: acronyms_to_uppercase / format_field_name are pure functions of (acronym list, name); outlined: the slice that removes the '
                         'quotes of the Debug-formatted key'],
    undecided=O.UNDECIDED,
)
UNIT.crate_attrs = '#![feature(allocator_api)]'
UNIT.forbid = F.FORBID
UNIT.allowed_calls = O.ALLOWED


def native(workdir):
    import optsearch
    return optsearch.native(workdir)


def replay_args(inp):
    import optsearch
    return optsearch.replay_args(inp)
