"""U-deps: core/src/topsort.rs - the dependency collector get_dependencies_from_type / get_enum_dependencies /
get_struct_dependencies / get_type_alias_dependencies / get_const_dependencies / get_dependencies, verbatim, over the real
RustType / RustItem definitions.  Serves C11 (every same-file type an item mentions - through any container or generic
argument, at any depth - is recorded as a dependency), C07 (no panic; termination NOT proved, see trusted)."""
from rsx import A, ins, rep, drop
from vunit import Item, Unit

RT = 'core/src/rust_types.rs'
TS = 'core/src/topsort.rs'

PRE_VERUS = r'''
use std::collections::{HashMap, HashSet, BTreeSet};
use vstd::std_specs::hash::*;
'''

PRELUDE = r'''
// ---------- T7 stubs (types this unit only stores)
#[verifier::external_body] pub struct DecoratorMap { _p: u8 }
#[verifier::external_body] pub struct FieldDecorator { _p: u8 }
#[verifier::external_body] pub struct SupportedLanguage { _p: u8 }
#[verifier::external_body] pub struct RustConstExpr { _p: u8 }

/// ASSUMED: String satisfies vstd's hash-table key model (Eq/Hash of String are consistent and deterministic)
#[verifier::external_body]
pub proof fn axiom_string_key_model() ensures obeys_key_model::<String>() {}

// ---------- C11 vocabulary: which type names does a type expression / an item mention?
/// `name` occurs in the type tree: as the type itself, as a generic argument, or inside Vec / array / slice / Option / HashMap,
/// at any depth
pub open spec fn mentions_in(tp: RustType, name: String) -> bool
    decreases tp
{
    match tp {
        RustType::Simple { id } => id == name,
        RustType::Generic { id, parameters } =>
            id == name || exists|i: int| 0 <= i < parameters@.len() && mentions_in(#[trigger] parameters@[i], name),
        RustType::Special(sp) => match sp {
            SpecialRustType::Vec(a) => mentions_in(*a, name),
            SpecialRustType::Array(a, _) => mentions_in(*a, name),
            SpecialRustType::Slice(a) => mentions_in(*a, name),
            SpecialRustType::Option(a) => mentions_in(*a, name),
            SpecialRustType::HashMap(a, b) => mentions_in(*a, name) || mentions_in(*b, name),
            _ => false,
        },
    }
}
pub open spec fn fields_mention(fields: Seq<RustField>, name: String) -> bool {
    exists|i: int| 0 <= i < fields.len() && mentions_in((#[trigger] fields[i]).ty, name)
}
pub open spec fn variant_mentions(v: RustEnumVariant, name: String) -> bool {
    match v {
        RustEnumVariant::Unit(_) => false,
        RustEnumVariant::Tuple { ty, shared } => mentions_in(ty, name),
        RustEnumVariant::AnonymousStruct { fields, shared } => fields_mention(fields@, name),
    }
}
pub open spec fn enum_mentions(e: RustEnum, name: String) -> bool {
    match e {
        RustEnum::Unit(_) => false,   // unit variants carry no types
        RustEnum::Algebraic { tag_key, content_key, shared } =>
            exists|i: int| 0 <= i < shared.variants@.len() && variant_mentions(#[trigger] shared.variants@[i], name),
    }
}
/// the type names an item refers to (struct fields, newtype and struct variants, alias target, const type)
pub open spec fn item_mentions(it: RustItem, name: String) -> bool {
    match it {
        RustItem::Struct(s) => fields_mention(s.fields@, name),
        RustItem::Enum(e) => enum_mentions(e, name),
        RustItem::Alias(a) => mentions_in(a.r#type, name),
        RustItem::Const(c) => mentions_in(c.r#type, name),
    }
}
pub open spec fn enum_name(e: RustEnum) -> String {
    match e { RustEnum::Unit(shared) => shared.id.original, RustEnum::Algebraic { tag_key, content_key, shared } => shared.id.original }
}
pub open spec fn item_name(it: RustItem) -> String {
    match it { RustItem::Struct(s) => s.id.original, RustItem::Enum(e) => enum_name(e), RustItem::Alias(a) => a.id.original, RustItem::Const(c) => c.id.original }
}
pub open spec fn is_prefix(a: Seq<String>, b: Seq<String>) -> bool { a.len() <= b.len() && b.subrange(0, a.len() as int) == a }
/// every same-file type mentioned by `tp` that was not already being visited is recorded in res
pub open spec fn cov_type(tp: RustType, types: Map<String, &RustItem>, seen0: Set<String>, res: Seq<String>) -> bool {
    forall|name: String| #[trigger] mentions_in(tp, name) && types.contains_key(name) && !seen0.contains(name) ==> res.contains(name)
}
pub open spec fn cov_fields(fields: Seq<RustField>, own: String, types: Map<String, &RustItem>, seen0: Set<String>, res: Seq<String>) -> bool {
    forall|name: String| #[trigger] fields_mention(fields, name) && name != own && types.contains_key(name) && !seen0.contains(name) ==> res.contains(name)
}
pub open spec fn cov_item(it: RustItem, types: Map<String, &RustItem>, seen0: Set<String>, res: Seq<String>) -> bool {
    forall|name: String| #[trigger] item_mentions(it, name) && name != item_name(it) && types.contains_key(name) && !seen0.contains(name) ==> res.contains(name)
}
proof fn lemma_prefix_contains(a: Seq<String>, b: Seq<String>, x: String)
    requires is_prefix(a, b), a.contains(x)
    ensures b.contains(x)
{
    let i = choose|i: int| 0 <= i < a.len() && a[i] == x;
    assert(b.subrange(0, a.len() as int)[i] == a[i]);
    assert(b[i] == x);
}
proof fn lemma_prefix_trans(a: Seq<String>, b: Seq<String>, c: Seq<String>)
    requires is_prefix(a, b), is_prefix(b, c)
    ensures is_prefix(a, c)
{
    assert(c.subrange(0, a.len() as int) =~= a) by {
        assert forall|i: int| 0 <= i < a.len() implies c.subrange(0, a.len() as int)[i] == a[i] by {
            assert(b.subrange(0, a.len() as int)[i] == a[i]);
            assert(c.subrange(0, b.len() as int)[i] == b[i]);
        }
    }
}
proof fn lemma_prefix_push(a: Seq<String>, x: String) ensures is_prefix(a, a.push(x))
{ assert(a.push(x).subrange(0, a.len() as int) =~= a); }
proof fn lemma_prefix_refl(a: Seq<String>) ensures is_prefix(a, a)
{ assert(a.subrange(0, a.len() as int) =~= a); }
pub open spec fn cov_variant(v: RustEnumVariant, types: Map<String, &RustItem>, seen0: Set<String>, res: Seq<String>) -> bool {
    forall|name: String| #[trigger] variant_mentions(v, name) && types.contains_key(name) && !seen0.contains(name) ==> res.contains(name)
}
proof fn lemma_cov_variant_mono(v: RustEnumVariant, types: Map<String, &RustItem>, seen0: Set<String>, res1: Seq<String>, res2: Seq<String>)
    requires cov_variant(v, types, seen0, res1), is_prefix(res1, res2)
    ensures cov_variant(v, types, seen0, res2)
{
    assert forall|name: String| #[trigger] variant_mentions(v, name) && types.contains_key(name) && !seen0.contains(name) implies res2.contains(name) by {
        lemma_prefix_contains(res1, res2, name);
    }
}
/// `seen` discipline, stated at the level the property needs: whatever is (still) marked as being visited was either
/// marked before, or has already been recorded - so a later mention of it is never lost
pub open spec fn seen_ok(seen0: Set<String>, seen1: Set<String>, res1: Seq<String>) -> bool {
    forall|x: String| #[trigger] seen1.contains(x) ==> seen0.contains(x) || res1.contains(x)
}
proof fn lemma_seen_ok_trans(seen0: Set<String>, seen_c: Set<String>, res_c: Seq<String>, seen2: Set<String>, res2: Seq<String>)
    requires seen_ok(seen0, seen_c, res_c), seen_ok(seen_c, seen2, res2), is_prefix(res_c, res2)
    ensures seen_ok(seen0, seen2, res2)
{
    assert forall|x: String| #[trigger] seen2.contains(x) implies seen0.contains(x) || res2.contains(x) by {
        if !res2.contains(x) { assert(seen_c.contains(x)); if !seen0.contains(x) { lemma_prefix_contains(res_c, res2, x); } }
    }
}
proof fn lemma_seen_ok_grow(seen0: Set<String>, seen1: Set<String>, res1: Seq<String>, res2: Seq<String>)
    requires seen_ok(seen0, seen1, res1), is_prefix(res1, res2)
    ensures seen_ok(seen0, seen1, res2)
{
    assert forall|x: String| #[trigger] seen1.contains(x) implies seen0.contains(x) || res2.contains(x) by {
        if !seen0.contains(x) { lemma_prefix_contains(res1, res2, x); }
    }
}
// ---------- termination: the number of same-file types not yet marked in `seen` decreases along every recursion path
/// the lookup table is keyed by each item's own name (how topsort() builds it)
pub open spec fn types_wf(types: Map<String, &RustItem>) -> bool {
    forall|k: String| #[trigger] types.contains_key(k) ==> item_name(*types[k]) == k
}
pub open spec fn todo(types: Map<String, &RustItem>, seen: Set<String>) -> nat { types.dom().difference(seen).len() }
proof fn lemma_todo_insert(types: Map<String, &RustItem>, seen: Set<String>, x: String)
    requires types.contains_key(x), !seen.contains(x)
    ensures todo(types, seen.insert(x)) < todo(types, seen)
{
    let d = types.dom().difference(seen);
    assert(d.contains(x));
    assert(types.dom().difference(seen.insert(x)) =~= d.remove(x));
    vstd::set::lemma_set_remove_len(d, x);
}
proof fn lemma_todo_mono(types: Map<String, &RustItem>, s1: Set<String>, s2: Set<String>)
    requires s1.subset_of(s2)
    ensures todo(types, s2) <= todo(types, s1)
{
    vstd::set_lib::lemma_len_subset(types.dom().difference(s2), types.dom().difference(s1));
}
/// coverage established by a callee (w.r.t. the `seen` it started from and its own result) survives later pushes and
/// holds w.r.t. the caller's initial `seen`
proof fn lemma_cov_type_mono(tp: RustType, types: Map<String, &RustItem>, seen1: Set<String>, res1: Seq<String>, seen0: Set<String>, res2: Seq<String>)
    requires cov_type(tp, types, seen1, res1), seen_ok(seen0, seen1, res1), is_prefix(res1, res2)
    ensures cov_type(tp, types, seen0, res2)
{
    assert forall|name: String| #[trigger] mentions_in(tp, name) && types.contains_key(name) && !seen0.contains(name) implies res2.contains(name) by {
        if seen1.contains(name) { assert(res1.contains(name)); }
        lemma_prefix_contains(res1, res2, name);
    }
}
'''

COMMON_REQ = '''
    requires obeys_key_model::<String>(), types_wf(types@)@OWNREQ@
    ensures
        is_prefix(old(res)@, final(res)@),
        /*markers are never lost*/ old(seen)@.subset_of(final(seen)@),
        /*whatever is left marked in `seen` was marked before or is already recorded*/ seen_ok(old(seen)@, final(seen)@, final(res)@),
'''
NODEC = ''

BASE = """proof {
                        lemma_prefix_push(res_a, *id);
                        assert(types@.contains_key(*id)); assert(item_name(**tp) == *id);     // types_wf: the entry found under `id` is the item named `id`
                        lemma_todo_insert(types@, seen0, *id);                                 // one more same-file type is marked: the measure drops
                    }
                    let ghost res_b = res@;
                    """
AFTER_BASE = """
                    proof { lemma_prefix_trans(res_a, res_b, res@); assert(res_b.contains(*id)) by { assert(res_b[res_a.len() as int] == *id); } lemma_prefix_contains(res_b, res@, *id); }"""

FROM_TYPE = [
    ins(A.text('fn get_dependencies_from_type'), NODEC, where='before'),
    ins(A.sig(), COMMON_REQ.replace('@OWNREQ@', '') + """        /*C11*/ cov_type(*tp, types@, old(seen)@, final(res)@),
    decreases todo(types@, old(seen)@), 0int, *tp
""", cid='get_dependencies_from_type.contract'),
    ins(A.body_start(), """
    broadcast use vstd::std_specs::hash::group_hash_axioms;
    let ghost res0 = res@;
    let ghost seen0 = seen@;
    proof { lemma_prefix_refl(res0); }
"""),
    # ---- Generic arm
    ins(A.text('if let Some(tp) = types.get(id) {', nth=1), """let ghost res_a = res@;
            """, where='before'),
    ins(A.text('get_dependencies(tp, types, res, seen);', nth=1), BASE, where='before'),
    ins(A.text('seen.remove(&id.clone());', nth=1), AFTER_BASE, where='after'),
    ins(A.text('for parameter in parameters'), """proof { lemma_prefix_trans(res0, res_a, res@); }
            """, where='before'),
    ins(A.text('for parameter in'), ' it:'),
    ins(A.loop(0), """
                invariant
                    obeys_key_model::<String>(), types_wf(types@), seen0.subset_of(seen@), seen0 == old(seen)@,
                    *tp == (RustType::Generic { id: *id, parameters: *parameters }),
                    is_prefix(res0, res@), seen_ok(seen0, seen@, res@),
                    (types@.contains_key(*id) && !seen0.contains(*id)) ==> res@.contains(*id),
                    forall|k: int| 0 <= k < it.index@ ==> cov_type(#[trigger] parameters@[k], types@, seen0, res@),
            """, cid='get_dependencies_from_type.generic_args_invariant'),
    ins(A.loop_body(0), """
                let ghost res_c = res@;
                let ghost seen_c = seen@;
                proof {
                    lemma_todo_mono(types@, seen0, seen_c);
                    assert(parameters@[it.index@] == *parameter);
                    assert(decreases_to!(*tp => tp->parameters)); assert(tp->parameters == *parameters);
                    assert(decreases_to!(*tp => *parameters)); assert(decreases_to!(*parameters => parameters@));
                    assert(decreases_to!(parameters@ => parameters@[it.index@]));   // a generic argument is a strict sub-term of the type
                }"""),
    ins(A.text('get_dependencies_from_type(parameter, types, res, seen);'), """
                proof {
                    lemma_prefix_trans(res0, res_c, res@);
                    if types@.contains_key(*id) && !seen0.contains(*id) { lemma_prefix_contains(res_c, res@, *id); }
                    lemma_prefix_refl(res@);
                    assert forall|k: int| 0 <= k < it.index@ + 1 implies cov_type(#[trigger] parameters@[k], types@, seen0, res@) by {
                        if k < it.index@ { lemma_cov_type_mono(parameters@[k], types@, seen0, res_c, seen0, res@); }
                        else { lemma_cov_type_mono(*parameter, types@, seen_c, res@, seen0, res@); }
                    }
                }""", where='after'),
    ins(A.loop_after(0), """
            proof {
                assert forall|name: String| #[trigger] mentions_in(*tp, name) && types@.contains_key(name) && !seen0.contains(name) implies res@.contains(name) by {
                    if *id != name {
                        let i = choose|i: int| 0 <= i < parameters@.len() && mentions_in(#[trigger] parameters@[i], name);
                        assert(cov_type(parameters@[i], types@, seen0, res@));
                    }
                }
            }"""),
    # ---- Simple arm
    ins(A.text('if let Some(tp) = types.get(id) {', nth=2), """let ghost res_a = res@;
            """, where='before'),
    ins(A.text('get_dependencies(tp, types, res, seen);', nth=2), BASE, where='before'),
    ins(A.text('seen.remove(&id.clone());', nth=2), AFTER_BASE, where='after'),
    # ---- Special arm
    ins(A.text('get_dependencies_from_type(vt, types, res, seen);'), """let ghost res_k = res@;
                let ghost seen_k = seen@;
                proof { lemma_todo_mono(types@, seen0, seen_k); }
                """, where='before'),
    ins(A.text('get_dependencies_from_type(vt, types, res, seen);'), """
                proof {
                    lemma_prefix_trans(res0, res_k, res@); lemma_prefix_refl(res@);
                    lemma_cov_type_mono(**kt, types@, seen0, res_k, seen0, res@);
                    lemma_cov_type_mono(**vt, types@, seen_k, res@, seen0, res@);
                    assert forall|name: String| #[trigger] mentions_in(*tp, name) && types@.contains_key(name) && !seen0.contains(name) implies res@.contains(name) by {
                        assert(mentions_in(**kt, name) || mentions_in(**vt, name));
                    }
                }""", where='after'),
    ins(A.text('get_dependencies_from_type(inner, types, res, seen);', nth=1), """
                proof {
                    assert forall|name: String| #[trigger] mentions_in(*tp, name) && types@.contains_key(name) && !seen0.contains(name) implies res@.contains(name) by {
                        assert(mentions_in(**inner, name));
                    }
                }""", where='after'),
    ins(A.text('get_dependencies_from_type(inner, types, res, seen);', nth=2), """
                proof {
                    assert forall|name: String| #[trigger] mentions_in(*tp, name) && types@.contains_key(name) && !seen0.contains(name) implies res@.contains(name) by {
                        assert(mentions_in(**inner, name));
                    }
                }""", where='after'),
    ins(A.text('_ => {}'), """ /*other special types mention nothing*/""", where='after'),
    ins(A.body_end(), """proof { assert(is_prefix(res0, res@)); assert(cov_type(*tp, types@, seen0, res@)); }
"""),
]

ENUM = [
    ins(A.text('fn get_enum_dependencies'), NODEC, where='before'),
    ins(A.sig(), COMMON_REQ.replace('@OWNREQ@', ', types@.contains_key(enum_name(*enm))') + '''        /*C11*/ !old(seen)@.contains(enum_name(*enm)) ==> cov_item(RustItem::Enum(*enm), types@, old(seen)@, final(res)@),
    decreases todo(types@, old(seen)@), 1int
''', cid='get_enum_dependencies.contract'),
    ins(A.body_start(), '''
    broadcast use vstd::std_specs::hash::group_hash_axioms;
    let ghost res0 = res@;
    let ghost seen0 = seen@;
    let ghost own = enum_name(*enm);
    let ghost sown = seen0.insert(own);
    proof { lemma_prefix_refl(res0); }
'''),
    rep(A.text('shared.id.original.to_string()', nth=1), 'outlined_name_shared(shared)', tag='T3', cid='o_nshared'),
    rep(A.text('shared.id.original.to_string()', nth=2), 'outlined_name_shared(shared)', tag='T3', cid='o_nshared'),
    ins(A.text('for variant in'), ' it:'),
    ins(A.loop(0), """
                    invariant
                        obeys_key_model::<String>(), types_wf(types@), own == shared.id.original, sown == seen0.insert(own),
                        sown.subset_of(seen@), !seen0.contains(own), types@.contains_key(own), seen0 == old(seen)@,
                        is_prefix(res0, res@), seen_ok(sown, seen@, res@),
                        forall|k: int| 0 <= k < it.index@ ==> cov_variant(#[trigger] shared.variants@[k], types@, sown, res@),
                """, cid='get_enum_dependencies.variants_invariant'),
    ins(A.loop_body(0), """
                    let ghost res_v = res@;
                    let ghost vidx = it.index@;
                    proof { lemma_prefix_refl(res_v); }"""),
    ins(A.text('for field in'), ' it2:'),
    ins(A.loop(1), """
                                invariant
                                    obeys_key_model::<String>(), types_wf(types@), sown == seen0.insert(own),
                                    sown.subset_of(seen@), !seen0.contains(own), types@.contains_key(own), seen0 == old(seen)@,
                                    is_prefix(res0, res@), is_prefix(res_v, res@), seen_ok(sown, seen@, res@),
                                    forall|j: int| 0 <= j < it2.index@ ==> cov_type((#[trigger] fields@[j]).ty, types@, sown, res@),
                            """, cid='get_enum_dependencies.fields_invariant'),
    ins(A.loop_body(1), """
                                let ghost res_c = res@;
                                let ghost seen_c = seen@;
                                proof { lemma_todo_insert(types@, seen0, own); lemma_todo_mono(types@, sown, seen_c); }"""),
    ins(A.text('get_dependencies_from_type(&field.ty, types, res, seen)'), """;
                                proof {
                                    lemma_prefix_trans(res0, res_c, res@); lemma_prefix_trans(res_v, res_c, res@); lemma_prefix_refl(res@);
                                    assert forall|j: int| 0 <= j < it2.index@ + 1 implies cov_type((#[trigger] fields@[j]).ty, types@, sown, res@) by {
                                        if j < it2.index@ { lemma_cov_type_mono(fields@[j].ty, types@, sown, res_c, sown, res@); }
                                        else { lemma_cov_type_mono(field.ty, types@, seen_c, res@, sown, res@); }
                                    }
                                }""", where='after'),
    ins(A.loop_after(1), """
                            proof {
                                assert forall|name: String| #[trigger] variant_mentions(*variant, name) && types@.contains_key(name) && !sown.contains(name) implies res@.contains(name) by {
                                    let j = choose|j: int| 0 <= j < fields@.len() && mentions_in((#[trigger] fields@[j]).ty, name);
                                    assert(cov_type(fields@[j].ty, types@, sown, res@));
                                }
                            }"""),
    ins(A.text('get_dependencies_from_type(ty, types, res, seen)'), """let ghost seen_c = seen@;
                            proof { lemma_todo_insert(types@, seen0, own); lemma_todo_mono(types@, sown, seen_c); }
                            """, where='before'),
    ins(A.text('get_dependencies_from_type(ty, types, res, seen)'), """;
                            proof {
                                lemma_prefix_trans(res0, res_v, res@); lemma_prefix_refl(res@);
                                lemma_cov_type_mono(*ty, types@, seen_c, res@, sown, res@);
                            }""", where='after'),
    ins(A.loop_end(0), """
                    proof {
                        assert(is_prefix(res_v, res@));
                        assert(cov_variant(*variant, types@, sown, res@));
                        assert forall|k: int| 0 <= k < vidx + 1 implies cov_variant(#[trigger] shared.variants@[k], types@, sown, res@) by {
                            if k < vidx { lemma_cov_variant_mono(shared.variants@[k], types@, sown, res_v, res@); }
                        }
                    }
                """),
    ins(A.loop_after(0), """
                proof {
                    assert forall|name: String| #[trigger] item_mentions(RustItem::Enum(*enm), name) && name != own && types@.contains_key(name) && !seen0.contains(name) implies res@.contains(name) by {
                        let i = choose|i: int| 0 <= i < shared.variants@.len() && variant_mentions(#[trigger] shared.variants@[i], name);
                        assert(cov_variant(shared.variants@[i], types@, sown, res@));
                    }
                }"""),
]

STRUCT = [
    ins(A.text('fn get_struct_dependencies'), NODEC, where='before'),
    ins(A.sig(), COMMON_REQ.replace('@OWNREQ@', ', types@.contains_key(strct.id.original)') + '''        /*C11*/ !old(seen)@.contains(strct.id.original) ==> cov_item(RustItem::Struct(*strct), types@, old(seen)@, final(res)@),
    decreases todo(types@, old(seen)@), 1int
''', cid='get_struct_dependencies.contract'),
    ins(A.body_start(), '''
    broadcast use vstd::std_specs::hash::group_hash_axioms;
    let ghost res0 = res@;
    let ghost seen0 = seen@;
    let ghost own = strct.id.original;
    proof { lemma_prefix_refl(res0); }
'''),
    rep(A.text('strct.id.original.to_string()', nth=1), 'outlined_name_struct(strct)', tag='T3', cid='o_nstruct'),
    rep(A.text('strct.id.original.to_string()', nth=2), 'outlined_name_struct(strct)', tag='T3', cid='o_nstruct'),
    ins(A.text('for field in'), ' it:'),
    ins(A.loop(0), """
            invariant
                obeys_key_model::<String>(), types_wf(types@), own == strct.id.original,
                seen0.insert(own).subset_of(seen@), !seen0.contains(own), types@.contains_key(own), seen0 == old(seen)@,
                is_prefix(res0, res@), seen_ok(seen0.insert(own), seen@, res@),
                forall|k: int| 0 <= k < it.index@ ==> cov_type((#[trigger] strct.fields@[k]).ty, types@, seen0.insert(own), res@),
        """, cid='get_struct_dependencies.invariant'),
    ins(A.loop_body(0), """
            let ghost res_c = res@;
            let ghost seen_c = seen@;
            proof { lemma_todo_insert(types@, seen0, own); lemma_todo_mono(types@, seen0.insert(own), seen_c); }"""),
    ins(A.text('get_dependencies_from_type(&field.ty, types, res, seen)'), """;
            proof {
                lemma_prefix_trans(res0, res_c, res@); lemma_prefix_refl(res@);
                assert forall|k: int| 0 <= k < it.index@ + 1 implies cov_type((#[trigger] strct.fields@[k]).ty, types@, seen0.insert(own), res@) by {
                    if k < it.index@ { lemma_cov_type_mono(strct.fields@[k].ty, types@, seen0.insert(own), res_c, seen0.insert(own), res@); }
                    else { lemma_cov_type_mono(field.ty, types@, seen_c, res@, seen0.insert(own), res@); }
                }
            }""", where='after'),
    ins(A.loop_after(0), """
        proof {
            assert forall|name: String| #[trigger] item_mentions(RustItem::Struct(*strct), name) && name != own && types@.contains_key(name) && !seen0.contains(name) implies res@.contains(name) by {
                let i = choose|i: int| 0 <= i < strct.fields@.len() && mentions_in((#[trigger] strct.fields@[i]).ty, name);
                assert(cov_type(strct.fields@[i].ty, types@, seen0.insert(own), res@));
            }
        }"""),
]

ALIAS = [
    ins(A.text('fn get_type_alias_dependencies'), NODEC, where='before'),
    ins(A.sig(), COMMON_REQ.replace('@OWNREQ@', ', types@.contains_key(ta.id.original)') + '''        /*C11*/ !old(seen)@.contains(ta.id.original) ==> cov_item(RustItem::Alias(*ta), types@, old(seen)@, final(res)@),
    decreases todo(types@, old(seen)@), 1int
''', cid='get_type_alias_dependencies.contract'),
    ins(A.body_start(), '''
    broadcast use vstd::std_specs::hash::group_hash_axioms;
    let ghost res0 = res@;
    let ghost seen0 = seen@;
    let ghost own = ta.id.original;
    proof { lemma_prefix_refl(res0); }
'''),
    rep(A.text('ta.id.original.to_string()', nth=1), 'outlined_name_alias(ta)', tag='T3', cid='o_nalias'),
    rep(A.text('ta.id.original.to_string()', nth=2), 'outlined_name_alias(ta)', tag='T3', cid='o_nalias'),
    ins(A.text('get_dependencies_from_type(&ta.r#type, types, res, seen);'), """let ghost seen_a = seen@;
        proof { lemma_todo_insert(types@, seen0, own); }
        """, where='before'),
    ins(A.text('get_dependencies_from_type(&ta.r#type, types, res, seen);'), """
        let ghost res_a = res@;
        proof { lemma_prefix_refl(res_a); lemma_cov_type_mono(ta.r#type, types@, seen_a, res_a, seen0.insert(own), res_a); }""", where='after'),
    ins(A.text('for generic in'), ' it:'),
    ins(A.loop(0), """
            invariant
                obeys_key_model::<String>(), types_wf(types@), is_prefix(res0, res@), is_prefix(res_a, res@), seen_ok(seen0.insert(own), seen@, res@),
                seen0.insert(own).subset_of(seen@), !seen0.contains(own), types@.contains_key(own), seen0 == old(seen)@,
        """, cid='get_type_alias_dependencies.invariant'),
    ins(A.loop_body(0), """
            let ghost res_c = res@;
            proof { lemma_prefix_refl(res_c); lemma_todo_insert(types@, seen0, own); lemma_todo_mono(types@, seen0.insert(own), seen@); }"""),
    ins(A.loop_end(0), """
            proof { lemma_prefix_trans(res0, res_c, res@); lemma_prefix_trans(res_a, res_c, res@); }
        """),
    ins(A.loop_after(0), """
        proof {
            lemma_cov_type_mono(ta.r#type, types@, seen0.insert(own), res_a, seen0.insert(own), res@);
            assert forall|name: String| #[trigger] item_mentions(RustItem::Alias(*ta), name) && name != own && types@.contains_key(name) && !seen0.contains(name) implies res@.contains(name) by {
                assert(mentions_in(ta.r#type, name));
            }
        }"""),
]

CONST = [
    ins(A.text('fn get_const_dependencies'), NODEC, where='before'),
    ins(A.sig(), COMMON_REQ.replace('@OWNREQ@', ', types@.contains_key(c.id.original)') + '''        /*C11*/ !old(seen)@.contains(c.id.original) ==> cov_item(RustItem::Const(*c), types@, old(seen)@, final(res)@),
    decreases todo(types@, old(seen)@), 1int
''', cid='get_const_dependencies.contract'),
    ins(A.body_start(), '''
    broadcast use vstd::std_specs::hash::group_hash_axioms;
    let ghost res0 = res@;
    let ghost seen0 = seen@;
    proof { lemma_prefix_refl(res0); }
'''),
    ins(A.text('get_dependencies_from_type(&c.r#type, types, res, seen);'), '''proof { lemma_todo_insert(types@, seen0, c.id.original); }
        ''', where='before'),
    rep(A.text('c.id.original.to_string()', nth=1), 'outlined_name_const(c)', tag='T3', cid='o_nconst'),
    rep(A.text('c.id.original.to_string()', nth=2), 'outlined_name_const(c)', tag='T3', cid='o_nconst'),
]

DEPS = [
    ins(A.text('fn get_dependencies'), NODEC, where='before'),
    ins(A.sig(), COMMON_REQ.replace('@OWNREQ@', ', types@.contains_key(item_name(*thing))') + '''        /*C11: every same-file type the item mentions is recorded*/ !old(seen)@.contains(item_name(*thing)) ==> cov_item(*thing, types@, old(seen)@, final(res)@),
    decreases todo(types@, old(seen)@), 2int
''', cid='get_dependencies.contract'),
]

UNIT = Unit(
    name='deps',
    props=['C11', 'C07'],
    pre_verus=PRE_VERUS,
    prelude=PRELUDE,
    items=[
        Item('struct_Id', RT, ['struct Id']),
        Item('enum_RustType', RT, ['enum RustType']),
        Item('enum_SpecialRustType', RT, ['enum SpecialRustType']),
        Item('struct_RustField', RT, ['struct RustField']),
        Item('struct_RustStruct', RT, ['struct RustStruct']),
        Item('struct_RustConst', RT, ['struct RustConst']),
        Item('struct_RustTypeAlias', RT, ['struct RustTypeAlias']),
        Item('enum_RustEnum', RT, ['enum RustEnum']),
        Item('struct_RustEnumShared', RT, ['struct RustEnumShared']),
        Item('enum_RustEnumVariant', RT, ['enum RustEnumVariant']),
        Item('struct_RustEnumVariantShared', RT, ['struct RustEnumVariantShared']),
        Item('enum_RustItem', RT, ['enum RustItem']),
        Item('get_dependencies_from_type', TS, ['fn get_dependencies_from_type'], FROM_TYPE),
        Item('get_enum_dependencies', TS, ['fn get_enum_dependencies'], ENUM),
        Item('get_struct_dependencies', TS, ['fn get_struct_dependencies'], STRUCT),
        Item('get_type_alias_dependencies', TS, ['fn get_type_alias_dependencies'], ALIAS),
        Item('get_const_dependencies', TS, ['fn get_const_dependencies'], CONST),
        Item('get_dependencies', TS, ['fn get_dependencies'], DEPS),
    ],
    outlines={
        'o_nshared': 'fn outlined_name_shared(shared: &RustEnumShared) -> (r: String)\n    ensures r == shared.id.original',
        'o_nstruct': 'fn outlined_name_struct(strct: &RustStruct) -> (r: String)\n    ensures r == strct.id.original',
        'o_nalias': 'fn outlined_name_alias(ta: &RustTypeAlias) -> (r: String)\n    ensures r == ta.id.original',
        'o_nconst': 'fn outlined_name_const(c: &RustConst) -> (r: String)\n    ensures r == c.id.original',
    },
    functions=['get_dependencies_from_type', 'get_enum_dependencies', 'get_struct_dependencies', 'get_type_alias_dependencies',
               'get_const_dependencies', 'get_dependencies'],
    trusted=[
        'termination of the collector IS proved (measure: number of same-file types not yet marked in `seen`, then call level, then the type term) '
        'under the precondition types_wf: the lookup table is keyed by each item\'s own name (true by construction in topsort(); glue not under contract)',
        'axiom: String obeys vstd\'s hash-table key model; vstd contracts of HashMap::get, HashSet::insert/remove, Vec::push, String::clone',
        'outlined (T3): `x.id.original.to_string()` returns an equal String',
        'T7 stubs: DecoratorMap, FieldDecorator, SupportedLanguage, RustConstExpr',
    ],
    undecided=[
        'the glue in topsort(): names -> indices (HashMap::from_iter, get_index, iterator chains) and that `types` is keyed by the name references use '
        '(after reconcile_aliases a reference to a serde-renamed type is spelled with the new name and is not found: known finding kf-c11-renamed-ref)',
    ],
)


# ------------------------------------------------------------------------------------ witness search / replay
def native(workdir):
    """bounded search on the REAL crates through parse -> reconcile -> generate (replay binary): every acyclic reference graph on
    2..4 items x 12 reference positions (direct, Vec, array, slice, Option, HashMap value, local / nested / same-name nested /
    foreign generic argument) x 4 item shapes; the emitted TypeScript is checked against an independent reading of the IR."""
    import os
    import kf_replay
    exe = kf_replay.replay_bin()
    if not exe:
        return None, 'replay binary does not build: ' + kf_replay._bin.get('err', '')
    w = os.path.join(workdir, 'native_deps.sh')
    with open(w, 'w') as f:
        f.write('#!/bin/sh\nsub=$1; shift\nexec %s order-$sub "$@"\n' % exe)
    os.chmod(w, 0o755)
    return w, ''


def replay_args(inp):
    return [str(inp['items']), str(inp['edges_code']), str(inp['wrapper']), str(inp['holder'])]
