"""registry: which units decide which property; witnesses (replay inputs on the real code); evidence."""
import importlib
import json
import os
import subprocess
import sys
import time

import rsx
import vunit

VERIF = vunit.VERIF
REPO = vunit.REPO

# ----------------------------------------------------------------------------------------------- properties
SOURCE_COMMITS = []

NA_TEXT = ('deciding code is text emission through write!/format! into dyn Write (postcondition needs a target-language grammar) '
           'or a syn tree walk built from iterator-adapter chains; Verus can express neither and the Kani compiler crashes on '
           'anything reaching proc_macro2/syn - see DESIGN.md section 6')

PROPS = {
    'C11': {
        'units': ['topo', 'deps', 'genloop'],
        'title': 'definitions emitted exactly once each and after the definitions they use',
        'technique': 'Verus function contracts + loop invariants + decreases on toposort_impl/inner and sort_by_indices, and contracts on the six '
                     'dependency-collector functions over the real RustType/RustItem definitions, all extracted verbatim',
        'level_text': 'For every in-range reference graph (cycles included, no size bound) toposort_impl returns a permutation of 0..n, and '
                      'on every acyclic graph each node comes after all nodes it refers to; sort_by_indices applies any permutation to any '
                      'slice without losing or duplicating an element; both terminate and never index out of bounds. Proved by Verus on the '
                      'function texts re-extracted from /repo on every run. The dependency collector records, for every item, every same-file type '
                      'its type trees mention - through Vec / array / slice / Option / HashMap / generic arguments at any depth, in struct fields, '
                      'tuple and struct variants, alias targets and const types.',
        'level_note': 'Not under contract: the glue in topsort() that turns names into indices (iterator chains) and the writer loops. The collector\'s '
                      'termination is not proved. Assumed: std contracts of <[T]>::contains / swap, HashMap/HashSet (vstd) with the String key-model axiom; '
                      'outlined expressions (iter().position, (0..n).collect(), to_string()).',
        'design_ref': 'DESIGN.md section 5 C11',
    },
}

PROPS['C18'] = {
    'kani': ['kint'], 'engine': 'kani',
    'title': 'I54/U53 hold exactly the JS-safe integers',
    'technique': 'Kani function contracts (proof_for_contract / stub_verified) + loop-free full-domain harnesses on a verbatim copy of lib/src/integer.rs',
    'level_text': 'For all 2^64 values of u64 / i64 (no sampling, no bound): TryFrom accepts exactly [0, 2^53-1] resp. [-(2^53-1), 2^53-1] '
                  '(range written from the JS definition, not from the constants in the file), accepted values convert back unchanged, survive '
                  'an IEEE-754 double, narrow/widen conversions never truncate, ordering and equality agree with the wide integers, '
                  'usize_from_u53_saturated is min(v, usize::MAX).',
    'level_note': 'serde leg assumed from serde_derive semantics of #[serde(try_from)] (attribute presence checked each run); serde_json parser trusted; '
                  'CBMC bit-precise semantics trusted.',
    'design_ref': 'DESIGN.md section 5 C18',
}

PROPS['C16'] = {
    'units': ['rename', 'serdecase'],
    'title': 'rename_all case conversion agrees with serde_derive',
    'technique': 'Verus contracts on the six RenameExt methods, rename_all_to_case and get_ident (extracted verbatim) against a Seq<char> '
                 'specification of serde_derive 1.0.214 case.rs; the vendored real case.rs is itself proved equal to that specification (unit serdecase); '
                 'known-finding classes carved out as spec predicates',
    'level_text': 'For every string (any length, every Unicode scalar) and each of the eight rules, in field and in variant position, the name '
                  'typeshare computes equals serde_derive\'s outside the declared known-finding classes (kf_field / kf_variant), an unknown rule '
                  'leaves the name unchanged, serde(rename) overrides the rule; none of these functions can panic and every loop terminates.',
    'level_note': 'Assumed: std string/char contracts (spec/chars.rs), Unicode-on-ASCII axioms, two outlined expressions, serde_rename as a pure '
                  'stub. Inside a known-finding class the contract is silent (findings listed in known_findings.json, each replayed on the real code every run).',
    'design_ref': 'DESIGN.md section 5 C16',
}

PROPS['C20'] = {
    'units': ['cfg', 'cfg_all', 'cfgfind', 'langwire'],
    'title': 'CLI options override typeshare.toml',
    'technique': 'Verus postcondition on override_configuration (extracted verbatim, both cargo feature sets): precedence clause per dual setting '
                 '+ frame clause generated for every other leaf field of Config',
    'level_text': 'For all option/config values (strings, maps and vectors of any content): every setting that exists both on the command line and in '
                  'typeshare.toml takes the command-line value when given else the loaded value; every file-only setting (type mappings, decorators, '
                  'constraints, acronyms, no_pointer_slice) reaches generation unchanged; target_os comes from the command line only; Err exactly for '
                  'Go without a package. Proved for feature sets {} and {go, python}. The ancestor-directory search returns the NEAREST directory (from the '
                  'working directory upwards, the root included) that holds a typeshare.toml, None iff there is none, and terminates. The last hop, '
                  'main.rs::language (features go + python): the back end selected by --lang receives every leaf of its *Params section in the field of '
                  'the same name (clauses generated from the struct definitions), Swift also multi_file.',
    'level_note': 'Kernel: override_configuration and find_configuration_file. TOML/serde round trip, -g never overwriting, load_config\'s choice between -c and '
                  'the discovered file are not under contract (reported as undecided parts; bounded stand-in cli_config); that the back ends USE the '
                  'wired fields is text emission. Assumed: outlined expressions, anyhow::ensure! expansion, Path/PathBuf as component sequences with std-documented push/pop/is_file.',
    'design_ref': 'DESIGN.md section 5 C20',
}

PROPS['C06'] = {
    'units': ['merge'],
    'title': 'output independent of arrival order (sequential kernel)',
    'technique': 'Verus contracts on ParsedData::add_assign (concatenation), the sort block of reconcile_aliases (sorted + same multiset, all four '
                 'item kinds) and a uniqueness lemma (vstd lemma_sorted_unique): merged vectors are a function of the multiset of per-file results',
    'level_text': 'For any per-file results and any arrival order at the collector: folding with += concatenates (so the multiset of items per kind '
                  'is order independent), the sort block leaves every kind (structs, enums, aliases, consts) sorted with the same items, and a sorted '
                  'permutation under a total order is unique - hence the item sequences handed to generation do not depend on arrival order, '
                  'provided no two items of a kind share a name (known finding kf-duplicate-names).',
    'level_note': 'Sequential kernel only: threads, the parallel walker, channel behaviour and hash-seed dependent picks in other code are not decided. '
                  'Assumed: <[T]>::sort contract w.r.t. an uninterpreted Ord relation; the hand-written Ord impls are external; HashSet::extend outlined.',
    'design_ref': 'DESIGN.md section 5 C06',
}
PROPS['C03'] = {
    'units': ['merge', 'topo', 'tos', 'genloop'],
    'title': 'exactly the parsed items reach generation (conservation kernel)',
    'technique': 'Verus contracts on ParsedData::push / is_empty / add_assign, TypeShareVisitor::collect_result, the sort block, toposort_impl and '
                 'sort_by_indices: each stage preserves exactly the items (and keeps errors)',
    'level_text': 'Between the parser\'s per-item result and the writer loop nothing is dropped, duplicated or invented: collect_result pushes an Ok '
                  'item to exactly the vector of its kind and records an Err as one more error; is_empty keeps a file whose only content is an error; '
                  '+= concatenates items and errors; sorting and topological reordering are permutations.',
    'level_note': 'Kernel: that the syn visitor reaches every annotated item and only those, that is_skipped selects exactly the non-skipped members, and '
                  'that every back end emits one definition per item are not under contract (syn walks / text emission).',
    'design_ref': 'DESIGN.md section 5 C03',
}

PROPS['C17'] = {
    'units': ['write'],
    'title': 'idempotent re-runs; output depends only on the latest inputs (kernel)',
    'technique': 'Verus contracts on check_write_file, write_multiple_files, write_single_file and Swift::write_codable_file (extracted verbatim) over a '
                 'tracked ghost file-system log; history statement as lemmas over the contract',
    'level_text': 'For every prior state of the output location and every output: identical content => no write at all (modification time preserved); '
                  'changed non-empty output => on success the file holds exactly the new output, nothing of the earlier content survives; at most one '
                  'write, only to the output file, all other files untouched; hence re-running is a no-op and the last run wins (lemmas). In folder '
                  'mode every crate\'s module file, and in single-file mode the output file, holds exactly what this run generated for it.',
    'level_note': 'Ghost log with outlined std::fs calls whose contracts are assumed (notably: reading an existing file succeeds); generation being a '
                  'function of the sources is C06\'s domain; files the last run is not responsible for and the per-crate loops (dyn Language) are not decided.',
    'design_ref': 'DESIGN.md section 5 C17',
}
PROPS['C07'] = {
    'units': ['rename', 'topo', 'cfg', 'cfg_all', 'merge', 'write', 'tos', 'deps', 'serdecase', 'recon', 'genloop', 'cfgfind'], 'kani': ['kint'],
    'title': 'never panics or spins (kernel)',
    'technique': 'panic-freedom (unwrap/index/slice/overflow/callee preconditions) and termination (decreases) obligations of every function put under '
                 'contract for the other properties, with weakest preconditions (Verus); Kani overflow/cast checks on integer.rs',
    'level_text': 'Every function under contract in this framework (rename family, rename_all_to_case, get_ident, toposort_impl/inner, sort_by_indices, '
                  'override_configuration, ParsedData::push/add_assign/is_empty, collect_result, the sort block, check_write_file, write_codable_file, '
                  'all of integer.rs) is proved free of panics for every input its callers can supply and every loop/recursion is proved to terminate.',
    'level_note': 'Kernel: sites that need a syn value to reach, text-emitting functions (todo!/panic! in back ends), process-level behaviour (worker '
                  'panics in the parallel walker, channel deadlock, hangs) are not under contract and are listed as undecided.',
    'design_ref': 'DESIGN.md section 5 C07',
    'undecided': ['parser.rs unnamed[0] / first().unwrap() / try_into().unwrap(), rust_types.rs TryFrom<&syn::Type>, visitors.rs (syn values needed)',
                  'go.rs original[..1], kotlin.rs / swift.rs / scala.rs todo!() for consts, scala.rs panic! without package (text-emitting back ends)',
                  'process level: worker panic inside the parallel walker, channel dead-lock, hangs (no thread support in either verifier)'],
}

PROPS['C13'] = {
    'units': ['tos'],
    'title': '--target-os accept/reject rule (kernel)',
    'technique': 'Verus contracts on TargetOsIterator::next (scope propagation over an opaque syn::Meta, termination from a finite-tree axiom), '
                 'accept_target_os (early return + decision rule) and parser.rs::is_skipped, extracted verbatim with the syn-facing expressions outlined',
    'level_text': 'For every meta tree (any depth, any arity): next() yields exactly the target_os leaves in stack order, each with scope Reject iff it '
                  'or an ancestor is `not` (or the pushed scope was Reject); accept_target_os returns true without --target-os and otherwise exactly '
                  'the documented rule over the accepted / rejected name lists; is_skipped is skip-marker OR NOT rule.',
    'level_note': 'Kernel: the plumbing from attributes to the two lists (flat_map / partition over syn values) and the call sites at file / type level '
                  '(visitors.rs) are assumed / not decided; syn types are stubs with uninterpreted observers.',
    'design_ref': 'DESIGN.md section 5 C13',
}
PROPS['C07']['units'].append('tos')
PROPS['C07']['units'].append('deps')

PROPS['C09'] = {
    'units': ['recon'],
    'title': 'references use the name the type is defined under (IR kernel)',
    'technique': 'Verus postconditions on reconcile.rs::check_type, check_variant and the per-crate block of reconcile_aliases (extracted verbatim, real IR '
                 'types, loops over `&mut` vectors via vstd\'s prophetic IterMut model): every type expression of every struct field, variant payload, '
                 'struct-variant field and alias target is related to its old value by a recursive rewrite relation',
    'level_text': 'For every type expression (any depth through Vec / array / slice / Option / HashMap / generic arguments): after check_type every '
                  'mentioned name for which the rename table has an entry - as a plain type and as a generic type - is the renamed name, and nothing '
                  'else in the expression changes (structure, other names); a name that is a generic parameter of the item being rewritten is never replaced.',
    'level_note': 'Kernel at the IR level only: which name a definition is printed under, and prefixing, are format strings in six back ends (text '
                  'emission, not under contract: bounded stand-in cli_refnames compares defined and used names in the emitted text; known finding: Go defines renamed enums / aliases under the Rust name); the loop over a generic type\'s arguments (slice::IterMut) is outlined with an assumed element-wise '
                  'effect; resolve_renamed is a pure stub; the loops applying check_type to every field / variant / alias are not under contract.',
    'design_ref': 'DESIGN.md section 10.7',
    'bounded': ['recon', 'cli_refnames'],
}
PROPS['C07']['units'].append('recon')
PROPS['C07']['units'].append('genloop')
PROPS['C07']['units'].append('cfgfind')
PROPS['C07']['units'].append('langwire')
PROPS['C01'] = {
    'units': ['rename', 'serdecase'],
    'title': 'field wire names equal serde\'s JSON keys (IR kernel)',
    'technique': 'Verus postcondition on parser.rs::get_ident + rename_all_to_case + the RenameExt methods (extracted verbatim) against serde_derive\'s '
                 'field algorithm (itself proved for the vendored case.rs); emission into six target languages only by a bounded stand-in',
    'level_text': 'For every identifier, rule and attribute outcome: the name typeshare records for a field (Id.renamed, the string every back end '
                  'prints as the key) is the serde(rename) value if present, otherwise serde_derive\'s apply_to_field of the identifier with the raw '
                  'prefix removed (outside the listed known-finding classes, which do not contain conventionally named fields), otherwise the identifier.',
    'level_note': 'Kernel at the IR level. That each back end binds exactly Id.renamed as the key (quoted property, SerialName, CodingKeys, json tag, '
                  'pydantic alias) is text emission: NOT proved, covered only by the bounded stand-in wire-search (labelled bounded). serde_rename / '
                  'serde_rename_all extraction are syn walks (stubs).',
    'design_ref': 'DESIGN.md section 10.8',
    'bounded': ['wire_c01'],
}
PROPS['C02'] = {
    'units': ['rename', 'serdecase'],
    'title': 'enum variant wire names equal serde\'s (IR kernel)',
    'technique': 'the same contracts as C01 in variant position (get_ident is the single entry point for fields and variants) against serde_derive\'s '
                 'apply_to_variant; tag / content keys and emission only by a bounded stand-in',
    'level_text': 'For every identifier and rule the name recorded for an enum variant is the serde(rename) value if present, otherwise serde_derive\'s '
                  'apply_to_variant of the identifier (outside the listed known-finding classes, which do not contain UpperCamelCase variants with a '
                  'lowercase letter), otherwise the identifier.',
    'level_note': 'Kernel at the IR level. Tag and content keys (get_tag_key / get_content_key are syn walks), one case per variant, and the printing of '
                  'names and keys in six languages are NOT proved; bounded stand-in wire-search only.',
    'design_ref': 'DESIGN.md section 10.8',
    'bounded': ['wire_c02'],
}
PROPS['C05'] = {
    'units': ['fmt_ts', 'fmt_kotlin', 'fmt_swift', 'fmt_scala', 'fmt_go', 'fmt_python'],
    'title': 'type expressions translate structurally and honour type mappings (IR -> target text kernel)',
    'technique': 'Verus postconditions on the type-expression translators of all six back ends - Language::format_type / format_simple_type / '
                 'format_generic_type / format_generic_parameters (trait defaults or the back end\'s override) and each format_special_type, extracted '
                 'verbatim and re-homed per back end - against a recursive translation RELATION written from the property (spec/typexpr.rs); each '
                 'format! site is verified through a contract generated from its literal in the current source',
    'level_text': 'For every type expression of the IR (any depth, any generic parameters in scope), every type_mappings table and every prefix, in each '
                  'of the six back ends: what format_type returns is the compositional translation - the target\'s sequence of the translated element '
                  'for Vec / slice / array, the target\'s map of translated key and value, the (mapped, else prefixed, never for a generic parameter) '
                  'name followed by ALL translated generic arguments in order, a mapped type replaced by its mapping at every position (user, generic '
                  'and built-in types alike), each primitive spelled as SOME target type of the same JSON category that holds every value - or a '
                  'refusal only where the property admits one (generic parameter as TypeScript / Python map key, OffsetDateTime). The recursion '
                  'terminates and TypeScript\'s panic! for 64-bit integers is unreachable for parser output.',
    'level_note': 'Kernel from the IR to the type-expression text. That references / smart pointers / path prefixes disappear is the syn-based parser '
                  '(TryFrom<&syn::Type>): NOT proved, bounded stand-in type-search only. Where the translated expression is placed in the output is text '
                  'emission. Assumed: std::fmt `{}` semantics behind the generated format! contracts, the key spelling of built-in types '
                  '(uninterpreted), vstd HashMap model with the String key-model axiom, std combinator desugarings (T14b). Domain: no u64/i64/usize/isize.',
    'design_ref': 'DESIGN.md section 10.9',
    'bounded': ['typesearch'],
}
for _u in PROPS['C05']['units']:
    PROPS['C07']['units'].append(_u)
PROPS['C04'] = {
    'units': ['opt_ts', 'opt_kotlin', 'opt_swift', 'opt_scala', 'opt_go', 'opt_python'],
    'title': 'a generated member is optional iff the Rust field is Option<T> or has the bare serde(default) (member-writer kernel)',
    'technique': 'Verus postconditions on the member writers TypeScript::write_field, Kotlin::write_element, Scala::write_element, Go::write_field, '
                 'Python::write_field, the stored-property statements of Swift::write_struct and the newtype-variant payload arm of TypeScript::write_enum_variants (both lifted, T11), extracted verbatim, over a ghost text sink: every write! / writeln! / format! site is verified through a contract generated from its '
                 'literal, the optional-marker conditions stay verbatim in the verified text',
    'level_text': 'For every field (any type, any attributes as recorded in the IR, any type override, any generic parameters, every configuration): '
                  'the text the writer appends contains the member in the target\'s notation - name, optional marker, type text - where the marker is '
                  'present exactly when the Rust type is Option<T> or has_default is set (TypeScript `?`, plus `| null` exactly for Option<Option<T>>; '
                  'Kotlin ` = null` / `? = null`; Swift `?`; Scala ` = None`; Go `*` + `,omitempty` in the json tag; Python `Optional[..]` + `default=None` in '
                  'Field(..)), and the type text is the override or a '
                  'translation of the Rust type in the sense of C05 - the marker never changes it. Python members whose type text has custom (de)serialiser functions are wrapped as a '
                  'whole in Annotated[..]: the `Optional[..]` marker stays inside, around the type text. TypeScript newtype-variant payloads: `content` + `?` exactly for Option<T>, '
                  '` | null` exactly for Option<Option<T>>, type text unchanged.',
    'level_note': 'Kernel: the struct-member writers of all six back ends (Swift: the stored property; its initialiser parameters repeat the expression and are '
                  'not under contract). Newtype-variant payloads of the five other back ends (the marker of Option<T> is part of the type text there: C05), aliases, and that has_default is set exactly for the bare serde(default) (syn) are NOT proved: bounded '
                  'stand-in opt-search only. format_type is used through the contract proved in the fmt units. Known finding carved out: Scala writes a '
                  'non-Option member with serde(default) as `T = _` (pinned by a snapshot).',
    'design_ref': 'DESIGN.md sections 10.10 and 10.17',
    'bounded': ['optsearch', 'cli_extras'],
}
for _u in PROPS['C04']['units']:
    PROPS['C07']['units'].append(_u)
PROPS['C15'] = {
    'units': ['doc_kotlin', 'doc_swift', 'doc_scala', 'doc_go', 'doc_ts', 'doc_python'],
    'title': 'documentation text is carried only inside comments of the generated code (line-comment kernel + TypeScript block comments)',
    'technique': 'Verus postconditions on write_comment / write_comments of the four line-comment back ends (Kotlin, Swift, Scala, Go; extracted '
                 'verbatim) over a ghost text sink: the writeln! site through a contract generated from its literal, the marker taken from the literal '
                 'itself; str::split on line breaks as iteration over break-free pieces; plus a postcondition on TypeScript::write_comments (block '
                 'comment): the three format! literals through generated contracts and per-character lemmas, the proof generic in their pieces; plus a postcondition '
                 'on the `#` comment branch of Python::write_comments (flat_map(split).map(format!).collect().join as the nested loops std documents, closure body verbatim)',
    'level_text': 'For every doc string (any characters: line feeds, carriage returns, comment terminators, quote sequences, backslashes), any '
                  'indentation and any number of comments: the text the writer appends is a sequence of whole lines, each of the form indentation + a '
                  'marker starting with `//` + text without a line break + line feed - so every byte of the doc text lies between `//` and the end of its '
                  'line and cannot become code. TypeScript: for every non-empty comment list the appended text is indentation + `/*` + body + `*/` + line feed '
                  'where the body (the literals\' own text, the indentation, the escaped doc strings, the separator between them) contains no `*/` - the '
                  'comment ends exactly where the writer ends it - GIVEN that the `*/` -> `*\\/` replacement leaves no `*/` in a doc string (assumed). Python, `#` comments '
                  '(is_docstring == false): for every non-empty comment list the appended text is a sequence of lines indentation + `#` + text without a line break + line feed.',
    'level_note': 'Kernel: the comment writers of Kotlin, Swift, Scala, Go and TypeScript. For TypeScript the str::replace step is an assumed '
                  'contract (its omission or a different replacement loses the anchor: undecided, left to the stand-in). Python `#` comments (is_docstring == false: the '
                  'doc comment of an algebraic enum) ARE proved: the appended text is a sequence of lines indentation + `#` + text without a line break + line feed. Python docstrings ('
                  '`\"\"\"` escaped) are NOT proved: bounded stand-in doc-search only (its lexical argument - backslash parity before a quote run - is outside what the string vocabulary here expresses). '
                  'That every doc string of the source reaches a writer and is reproduced completely is syn code (stand-in). Assumed: str::split yields '
                  'pieces without separator characters; "\\t".repeat(n) is indentation; trim_end introduces no line break; std::fmt `{}` semantics.',
    'design_ref': 'DESIGN.md section 10.11',
    'bounded': ['docsearch'],
}
for _u in PROPS['C15']['units']:
    PROPS['C07']['units'].append(_u)
PROPS['C12'] = {
    'units': ['fmt_go', 'fmt_swift', 'fmt_python', 'fmt_ts', 'contains', 'opt_python', 'pyclass', 'opt_ts', 'swiftvoid'],
    'title': 'every helper name typeshare introduces is defined or imported (bookkeeping kernel)',
    'technique': 'additional Verus postconditions on the type-expression translators of Go, Swift, Python and TypeScript (the same verbatim extraction as C05): '
                 'whenever the translation reaches a built-in type whose spelling uses a helper, the helper has been recorded; plus contracts on '
                 'RustType::contains_type / SpecialRustType::contains_type / id, on which Scala\'s alias decision rests; plus Verus contracts on the Python class '
                 'writers Python::write_field, add_common_imports (verbatim, unit opt_python) and write_struct, add_type_var, handle_model_config (verbatim, unit pyclass): every pydantic / '
                 'typing name their text uses has been recorded for the import block; and on the two writers that turn a recorded flag into text - TypeScript::end_file '
                 '(unit opt_ts: something recorded => the ReviverFunc declaration is written) and Swift::end_file / get_codable_contents / write_codable (unit swiftvoid: flag set, '
                 'one file => the CodableVoid declaration is written)',
    'level_text': 'For every type expression, configuration and generic scope: after format_type answers Ok, Go has recorded the import of "time" if '
                  'the expression reaches OffsetDateTime; TypeScript has recorded `Date` for the ReviverFunc / ReplacerFunc footer if it reaches OffsetDateTime; Swift has raised the CodableVoid flag if it reaches (); Python has recorded typing.List / '
                  'typing.Optional / typing.Dict / datetime.datetime for every sequence / Option / map / OffsetDateTime it reaches - "reaches" meaning '
                  'at any depth and not hidden behind a mapped type - and recorded helpers are never lost again. contains_type(name) is true whenever a '
                  'built-in type spelled `name` occurs anywhere in the expression (lemma), which is what Scala asks for each unsigned integer name. Python classes: '
                  'after write_struct answers Ok, pydantic.BaseModel is recorded, and for a generic struct typing.Generic, typing.TypeVar and every type parameter '
                  '(TypeVar block); after write_field answers Ok, pydantic.Field is recorded whenever the member is written with `= Field(..)` (aliased, Option or '
                  'serde(default)), typing.Optional whenever the writer wraps the type in `Optional[..]`, typing.Annotated / pydantic.BeforeValidator / '
                  'PlainSerializer whenever the type text has a custom (de)serialiser; handle_model_config records pydantic.ConfigDict whenever it writes the '
                  '`model_config = ConfigDict(..)` line; none of these functions loses a recorded import or type variable. TypeScript::end_file (verbatim, unit opt_ts): '
                  'whenever a type text has been recorded for the reviver / replacer helpers, the text it appends contains the declaration `export const ReviverFunc` (taken from the literal). '
                  'Swift::end_file / get_codable_contents / write_codable (verbatim, unit swiftvoid): with the CodableVoid flag set and one output file, the appended text contains `public struct CodableVoid`.',
    'level_note': 'Kernel at the level of what is RECORDED (and, for TypeScript\'s footer and Swift\'s CodableVoid in single-file mode, that the recorded flag makes end_file write the declaration). That the recorded imports / '
                  'the CodableVoid definition / the Scala package object are then WRITTEN, that names used on other paths (Python enums: Enum, Literal, Union and their TypeVars; Go json.) are imported, '
                  'and Scala::unsigned_integer_used\'s collection of the file\'s types (iterator chains) are not proved: bounded stand-in helper-search. '
                  'Assumed: add_import / add_imports record and only add (entry-API stubs); AtomicBool::store modelled as an update (sequential code).',
    'design_ref': 'DESIGN.md section 10.12',
    'bounded': ['helpersearch', 'cli_extras'],
}
PROPS['C07']['units'].append('contains')
PROPS['C07']['units'].append('pyclass')
PROPS['C07']['units'].append('swiftvoid')
PROPS['C08'] = {
    'units': ['errgate', 'merge'],
    'title': 'a recorded parse error ends the run with an error before anything is written (error-gate kernel)',
    'technique': 'Verus contracts on cli/src/main.rs::check_parse_errors and ::generate_types (extracted verbatim; BTreeMap::values().filter(P) as a '
                 'loop over the values with `if P`, the predicate kept from the source) with the property as the PRECONDITION of the only function that '
                 'writes output (write_generated); plus the error-conservation clauses of ParsedData::add_assign, TypeShareVisitor::collect_result and '
                 'the sort block of reconcile_aliases (unit merge)',
    'level_text': 'For every set of per-crate parse results: check_parse_errors answers Err exactly when some crate carries a recorded error; in '
                  'generate_types every path to write_generated - the only callee that creates or modifies output files - passes a check that answered '
                  'Ok on the very data handed to the writer, so a run with a recorded error returns Err and writes nothing; a failed item is recorded as '
                  'an error of its file (collect_result) and recorded errors survive merging per-file results and alias sorting (add_assign, sort block).',
    'level_note': 'Kernel: from "an error was recorded" to "the run fails and nothing is written". That the parser RECORDS an error for each '
                  'construct on the property\'s list (u64 / i64 / usize / isize, tuples, several-field tuple structs / variants, serde(flatten), '
                  'data enums without tag + content, tag / content on unit enums, non-integer-literal consts; at any depth, via serialized_as) and that '
                  'skip removes it is syn code (TryFrom<&syn::Type>, parse_struct / parse_enum / parse_const): NOT proved, bounded stand-in '
                  'cli_unsupported on the real binary. Assumed: reconcile_aliases / all_types neither add nor drop errors at map level; '
                  'write_generated is the only writer; an Err from parallel_parse propagates by `?` (visible in the verified text).',
    'design_ref': 'DESIGN.md section 10.13',
    'bounded': ['cli_unsupported'],
}
PROPS['C07']['units'].append('errgate')
PROPS['C14'] = {
    'units': ['imports', 'impwrite', 'write'],
    'title': 'imports of a generated module are sound and complete w.r.t. what the other modules define; one module per crate (import-table kernel)',
    'technique': 'Verus contract on core/src/language/mod.rs::used_imports (the loop verbatim; the `.filter(P)` of the loop source as `if P`, P kept from '
                 'the source; the closure `fallback` lifted into a function with its captured variables as parameters, T11) over stub containers with the '
                 'std lookups specified; TypeScript::write_imports and Kotlin::write_imports over a ghost text sink (write! sites through literal-generated contracts); '
                 'plus the module-per-crate clause of cli/src/writer.rs::write_multiple_files (unit write)',
    'level_text': 'For every set of references collected from a crate (any order of the hash set), every table of the types the generated modules define '
                  'and every current crate: the import table used_imports returns names, under a module, only types that module defines and never the '
                  'current crate itself (soundness, including the re-export heuristic); and for every reference (crate c, name n) with c another '
                  'crate that has a generated module: the named type is imported from c when c defines it, and all of c\'s types when the reference is a '
                  'glob (completeness). write_imports (TypeScript, Kotlin): the text written is one statement per entry of the table (Kotlin: per name), in the '
                  'table\'s order, naming exactly the entry\'s module and exactly its names, then an empty line. write_multiple_files: each crate\'s module file holds exactly what was generated from that crate\'s data.',
    'level_note': 'Kernel: the import TABLE. That the references / the per-crate type sets are what the sources say (syn UseTree and path walks, '
                  'CrateName::find_crate_name over Path components), that the statements are valid import syntax, the file names (output_file_name: format! in closures) and that the definitions equal single-file output are NOT proved: '
                  'bounded stand-in cli_multifile on the real binary. Assumed: the entry-API statements record the pair(s) and change nothing else; '
                  'the re-export search answers only (k, t) with t defined by k, named as the reference, k not the current crate (outlined iterator '
                  'chain); HashSet / HashMap lookups as documented. Known finding carved out by input: Go writes a cross-crate struct payload of a '
                  'tuple variant as value in folder mode and as pointer in single-file mode.',
    'design_ref': 'DESIGN.md section 10.14',
    'bounded': ['cli_multifile', 'cli_extras'],
}
PROPS['C07']['units'].append('imports')
PROPS['C07']['units'].append('impwrite')
PROPS['C19'] = {
    'units': ['annot'],
    'title': 'the typeshare attribute macro removes exactly the typeshare attributes and leaves everything else of the item alone (macro kernel)',
    'technique': 'Verus contracts on annotation/src/lib.rs - the macro `typeshare`, strip_configuration_attribute and its two nested functions, extracted '
                 'verbatim - over plain-struct stand-ins for the part of syn\'s DeriveInput tree the code walks (attrs / fields / variants + an opaque '
                 'rest); the `iter_mut()` loops through vstd\'s prophetic IterMut specification; Vec::retain with the source\'s closure as an assumed contract',
    'level_text': 'For every item the macro is applied to: if it parses as a struct, enum or union, the result is the printed form of a tree that '
                  'differs from the parsed one exactly by the removal of the attributes whose path is `typeshare` from every variant, every field of '
                  'every variant (named or unnamed), every struct field and every named union field - other attributes keep their order, the item\'s own attributes, '
                  'generics, visibility, types and discriminants (the opaque rest of each node) are untouched, and no such attribute is left at any of these '
                  'positions; anything else (type alias, const, function) is handed back untouched.',
    'level_note': 'Kernel: the tree transformation. What rustc and serde_derive make of the result (compiles exactly when the un-annotated program does, '
                  'same serialised form), that quote prints untouched parts equivalently and that syn\'s real types behave like the stand-ins are NOT '
                  'proved: bounded stand-in twins (an annotated program and its plain twin built against /repo/lib). Assumed: Vec::retain keeps exactly the '
                  'elements the predicate accepts; the predicate (path prints as `typeshare`) is uninterpreted.',
    'design_ref': 'DESIGN.md section 10.15',
    'bounded': ['twins'],
}
PROPS['C07']['units'].append('annot')
PROPS['C10'] = {
    'units': ['kw', 'doc_kotlin', 'doc_swift', 'doc_scala', 'doc_go', 'doc_ts', 'doc_python'],
    'title': 'generated files are lexically well-formed: comments are closed, keyword collisions are escaped (two clause kernels)',
    'technique': 'Verus contracts on the keyword-escaping helpers swift_keyword_aware_rename and python_property_aware_rename (extracted verbatim; '
                 'format! through literal-generated contracts; keyword tables and convert_case as uninterpreted functions) and, for the clause '
                 '"comments are closed", the comment-writer contracts of C15 (Kotlin, Swift, Scala, Go line comments; TypeScript block comment)',
    'level_text': 'Keyword clause: for every name, Swift writes it in backquotes exactly when the back end\'s table lists it and unchanged otherwise; '
                  'Python writes name + `_` exactly when the snake-case form is listed and the snake-case form otherwise. Comment clause: every comment '
                  'the five comment writers emit is closed where the writer closes it (each `//` line ends at its line feed; the TypeScript block comment '
                  'contains no `*/` before its end), for every doc text.',
    'level_note': 'Two clauses of the property only. That a whole output file is a valid compilation unit - every declaration matches the target\'s '
                  'grammar, all delimiters and string literals are closed - is NOT proved and cannot be stated with the contracts here (it needs each '
                  'grammar as specification and a proof over every writer): bounded stand-in cli_wellformed on the real binary - CPython\'s own '
                  'parser for Python, and for the other five languages only a lexer-level check (comments, literals, brackets closed; no declaration '
                  'grammar). The keyword tables are the back end\'s own ("where the backend promises to"). Known finding carved out by input: a quote '
                  'in the serde(rename) of an algebraic enum\'s variant is not escaped by Kotlin, Swift and Python.',
    'design_ref': 'DESIGN.md section 10.16',
    'bounded': ['cli_wellformed'],
}
PROPS['C07']['units'].append('kw')
PROPS['C03']['bounded'] = ['merge', 'tos', 'cli_extras']
PROPS['C06']['bounded'] = ['merge', 'cli_determinism']
PROPS['C11']['bounded'] = ['topo', 'deps']
PROPS['C13']['bounded'] = ['tos', 'cli_targetos']
PROPS['C16']['bounded'] = ['rename']
PROPS['C01'].setdefault('bounded', []); PROPS['C01']['bounded'] = list(PROPS['C01']['bounded']) + ['cli_extras']
PROPS['C15']['bounded'] = list(PROPS['C15']['bounded']) + ['cli_extras']
PROPS['C17']['bounded'] = ['write', 'cli_runs']
PROPS['C18']['bounded'] = ['kint']
PROPS['C20']['bounded'] = ['cfg_all', 'cli_config', 'cli_extras']
PROPS['C07']['bounded'] = ['rename', 'topo', 'cli_robust']

NOT_APPLICABLE = {
}

ALL_UNITS = sorted({u for p_ in PROPS.values() for u in p_.get('units', [])})
ALL_KANI = ['kint']


def rebaseline(work):
    led = {}
    os.makedirs(work, exist_ok=True)
    for name in ALL_UNITS:
        u = importlib.import_module(name).UNIT
        vunit.rebaseline(u)
        text, _ = vunit.build(u)
        p = os.path.join(work, 'rebaseline-%s.rs' % name)
        with open(p, 'w') as f:
            f.write(text)
        r = vunit.run_verus(p)
        os.remove(p)
        if not r['ok']:
            print('rebaseline: unit %s does not verify on this tree:\n%s' % (name, r['stderr'][-2000:]))
            return 2
        led[name] = {'verified': r['verified'], 'functions': sorted(k for k, v in r['functions'].items() if v['success']),
                     'assumptions': vunit.scan_assumptions(text)}
        print('rebaseline %s: verified=%d' % (name, r['verified']))
    for name in ALL_KANI:
        importlib.import_module(name).rebaseline()
        print('rebaseline %s: pinned' % name)
    os.makedirs(os.path.join(VERIF, 'baseline'), exist_ok=True)
    with open(os.path.join(VERIF, 'baseline', 'ledger.json'), 'w') as f:
        json.dump(led, f, indent=1, sort_keys=True)
    return 0


# ----------------------------------------------------------------------------------------------- native harnesses
def _rustc(src_path, out_path, timeout=300):
    pr = subprocess.run(['rustc', '--edition', '2021', '-O', '-A', 'warnings', '-o', out_path, src_path],
                        capture_output=True, text=True, timeout=timeout)
    return pr.returncode == 0, pr.stderr[-3000:]


def _raw_item(unit, name):
    it = next(i for i in unit.items if i.name == name)
    return vunit.current_item_text(it)


def native_harness(kind, workdir):
    """compile the un-annotated current text of the functions + a driver; -> (exe_path | None, err)"""
    mod = importlib.import_module(kind)
    src = mod.native_source(lambda unit_item: _raw_item(mod.UNIT, unit_item))
    sp = os.path.join(workdir, 'native_%s.rs' % kind)
    with open(sp, 'w') as f:
        f.write(src)
    exe = os.path.join(workdir, 'native_%s' % kind)
    ok, err = _rustc(sp, exe)
    return (exe if ok else None), err


def _run_retry(cmd, **kw):
    """subprocess.run that retries ETXTBSY: the checks run units in threads; a script / binary one thread has just written can still be held
    open (for the instant between fork and exec) by a child another thread is spawning"""
    for attempt in range(8):
        try:
            return subprocess.run(cmd, **kw)
        except OSError as ex:
            if ex.errno != 26 or attempt == 7:
                raise
            time.sleep(0.05 * (attempt + 1))


def run_native(exe, args, timeout=120):
    try:
        pr = _run_retry([exe] + list(args), capture_output=True, text=True, timeout=timeout)
    except subprocess.TimeoutExpired:
        return {'found': False, 'error': 'native search timed out'}
    for line in pr.stdout.splitlines():
        if line.startswith('WITNESS '):
            w = json.loads(line[8:])
            return {'found': True, 'input': w, 'replay_kind': os.path.basename(exe)}
    if pr.returncode != 0:
        # a search that crashed or stopped without reporting is NOT a pass
        return {'found': False, 'error': 'bounded search ended with exit %s without a WITNESS line: %s' % (pr.returncode, (pr.stderr or pr.stdout).strip()[-300:])}
    return {'found': False, 'searched': pr.stdout.strip()[-300:]}


# a unit that serves several properties: the search for a failing input uses the stand-in of the property being checked, not the unit's own
# (which looks for violations of the unit's first property) - otherwise a change that breaks property A shows up as a violation of B
WITNESS_SEARCH = {('write', 'C14'): 'cli_multifile', ('merge', 'C08'): 'cli_unsupported'}


def _native_for(name, workdir):
    name = WITNESS_SEARCH.get((name, os.environ.get('VERIF_PID')), name)
    mod = importlib.import_module(name)
    if hasattr(mod, 'native'):
        return mod.native(workdir)
    if hasattr(mod, 'native_source'):
        return native_harness(name, workdir)
    return None, 'no native harness for unit %s' % name


def witness(pid, unit_res, workdir, seed):
    """best-effort search for a concrete failing input on the REAL code (never decides)"""
    name = unit_res['unit']
    exe, err = _native_for(name, workdir)
    if not exe:
        return {'found': False, 'error': 'no native harness: ' + err[-500:]}
    w = run_native(exe, ['search'])
    w['kind'] = name
    return w


def replay(pid, path, work):
    with open(path) as f:
        body = json.load(f)
    wit = body.get('witness') or {}
    print('replay of %s: unit=%s' % (path, body.get('unit')))
    for d in body.get('failed_obligations', []):
        print('  failed obligation: fn=%s: %s | %s' % (d.get('function'), d.get('message'), d.get('text')))
    if not wit.get('found'):
        print('no failing input was recorded (no-failing-input-found); verifier output:')
        for d in body.get('failed_obligations', []):
            print(d.get('rendered') or '')
        return 1
    os.makedirs(work, exist_ok=True)
    import tempfile
    import shutil
    wd = tempfile.mkdtemp(prefix='replay-', dir=work)
    try:
        exe, err = _native_for(wit['kind'], wd)
        if not exe:
            print('cannot build replay harness: ' + err)
            return 2
        mod = importlib.import_module(WITNESS_SEARCH.get((wit['kind'], pid), wit['kind']))
        inp = wit['input'].get('input', wit['input'])
        args = mod.replay_args(inp) if hasattr(mod, 'replay_args') else [json.dumps(inp)]
        pr = _run_retry([exe, 'check'] + args, capture_output=True, text=True, timeout=60)
        print(pr.stdout.strip())
        return 1 if 'WITNESS ' in pr.stdout else 0
    finally:
        shutil.rmtree(wd, ignore_errors=True)


# ----------------------------------------------------------------------------------------------- kani (filled in by kani units)
def run_kani(name, workdir, tier, seed):
    mod = importlib.import_module(name)
    return mod.run(workdir, tier, seed)


def run_bounded(name, workdir, seed):
    """bounded stand-in for the functions of the property's pipeline that are outside the verifier's reach (syn walks, iterator
    glue, text emission, real file system): the unit's native search on the REAL code, run on every check, labelled bounded and
    never counted as proved.  A failing input is a real violation; finding none proves nothing."""
    t0 = time.time()
    mod = importlib.import_module(name)
    res = {'unit': name + '/bounded', 'backend': 'bounded search on the real code', 'bounded': True, 'status': 'pass',
           'bound': (getattr(mod, 'native', None) or getattr(mod, 'native_source')).__doc__ or '', 'failed': []}
    try:
        exe, err = _native_for(name, workdir)
        if not exe:
            res.update(status='undecided', reason='bounded search could not be built: ' + err[-400:])
            return res
        w = run_native(exe, ['search'], timeout=600)
    except Exception as ex:
        res.update(status='undecided', reason='bounded search failed to run: %r' % ex)
        return res
    w['kind'] = name
    res['wall_s'] = time.time() - t0
    res['searched'] = w.get('searched')
    if w.get('found'):
        res.update(status='violation', witness=w,
                   failed=[{'class': 'bounded-stand-in', 'function': None, 'section': name,
                            'message': 'bounded search on the real code found a failing input (functions outside the verifier\'s reach)',
                            'text': json.dumps(w.get('input'))[:300]}])
    elif w.get('error'):
        res.update(status='undecided', reason='bounded search: ' + str(w.get('error'))[:300])
    return res


def thorough_extra(pid, workdir, seed):
    out = []
    for name in PROPS[pid].get('thorough', []):
        mod = importlib.import_module(name)
        out.append(mod.run(workdir, 'thorough', seed))
    return out


# ----------------------------------------------------------------------------------------------- known findings
def known_findings(pid, known, workdir, seed):
    """-> (KNOWN-FINDING lines, unlisted violations).  Each open finding's witness is replayed on the real code;
    a finding that no longer reproduces prints nothing."""
    lines = []
    for kf in known.get('findings', []):
        if kf.get('property') != pid or kf.get('status') != 'open':
            continue
        mod = importlib.import_module(kf.get('replay_module', 'kf_replay'))
        try:
            still = mod.replay_known(kf, workdir)
        except Exception as ex:
            lines.append('note: known finding %s could not be replayed (%s)' % (kf['id'], str(ex)[:200]))
            continue
        if still:
            lines.append('KNOWN-FINDING: property=%s %s %s' % (pid, kf['id'], kf['what']))
    return lines, []


# ----------------------------------------------------------------------------------------------- evidence
def evidence(pid, tier, seed, results, stability, violations, undecided, kf_lines, wall):
    obligations = discharged = 0
    trusted, fns, samples, unit_rows, undec_parts, bounded = [], [], [], [], [], []
    cmds = []
    for r in results:
        v = r.get('verus')
        if v:
            obligations += (v.get('verified') or 0) + (v.get('errors') or 0)
            discharged += (v.get('verified') or 0)
            cmds.append(v.get('cmd'))
        elif r.get('bounded'):
            bounded.append({'unit': r['unit'], 'bound': ' '.join((r.get('bound') or '').split())[:500], 'searched': r.get('searched'), 'status': r['status'],
                            'wall_s': r.get('wall_s')})
        elif r.get('backend', '').startswith('kani'):
            if r.get('bounded'):
                bounded.append({'unit': r['unit'], 'bound': r.get('bound'), 'harnesses': r.get('harnesses'), 'status': r['status']})
            else:
                obligations += r.get('obligations', 0)
                discharged += r.get('discharged', 0)
            cmds.append(r.get('cmd'))
        trusted += ['%s: %s' % (r['unit'], a) for a in r.get('assumptions', [])]
        for fn, info in (r.get('functions') or {}).items():
            if info.get('mode') in ('exec', 'proof'):
                fns.append('%s::%s (%s, %s, %sms)' % (r['unit'], fn, info.get('mode'), 'ok' if info.get('success') else 'FAILED', info.get('ms')))
        unit_rows.append({'unit': r['unit'], 'backend': r.get('backend'), 'status': r['status'], 'reason': r.get('reason'),
                          'verified': (v or {}).get('verified', r.get('discharged')), 'errors': (v or {}).get('errors'),
                          'wall_s': (v or {}).get('wall_s', r.get('wall_s')), 'smt_ms': (v or {}).get('smt_ms'),
                          'canaries': r.get('canaries'), 'clauses': r.get('clauses'),
                          'items': [{k: i[k] for k in ('name', 'src', 'path', 'sha256', 'changed_vs_pinned')} |
                                    {'transformations': sorted(set(e['tag'] for e in i['edits']))}
                                    for i in (r.get('provenance') or {}).get('items', [])],
                          'outlined': [o['id'] for o in (r.get('provenance') or {}).get('outlines', [])],
                          'harnesses': r.get('harnesses')})
        for s in r.get('samples', []):
            samples.append(s)
    for name in PROPS[pid].get('units', []):
        u = importlib.import_module(name).UNIT
        trusted += ['%s: %s' % (name, t) for t in u.trusted]
        undec_parts += u.undecided
        # sample obligations: the contract clauses carrying the property
        for it in u.items:
            for e in it.edits:
                if e.cid and e.cid.endswith('.contract'):
                    samples.append({'obligation': e.cid, 'unit': name, 'source': '%s :: %s' % (it.src, ' :: '.join(it.path)),
                                    'clause': ' '.join(e.text.split())[:600]})
    for name in PROPS[pid].get('kani', []):
        m = importlib.import_module(name)
        trusted += ['%s: %s' % (name, t) for t in getattr(m, 'TRUSTED', [])]
        undec_parts += getattr(m, 'UNDECIDED', [])
    undec_parts += PROPS[pid].get('undecided', [])
    ev = {
        'property_id': pid, 'tier': tier, 'seed': seed, 'level': 'proof',
        'coverage': {
            'obligations': obligations, 'discharged': discharged,
            'checker_cmd': ' ; '.join(c for c in cmds if c),
            'trusted_base': sorted(set(trusted)),
            'samples': samples[:12],
            'functions_under_contract': sorted(fns),
            'units': unit_rows,
            'bounded_units_not_counted_as_proved': bounded,
            'undecided_parts_of_the_property': undec_parts,
            'proof_stability_runs': stability,
            'known_findings_reproduced': kf_lines,
            'explanation': 'obligations = verification units reported by the verifier (Verus: functions / recursive specs verified, each '
                           'comprising its postconditions, loop invariants, termination measure, callee preconditions and panic-freedom; '
                           'Kani: checks of complete harnesses); every count is read from the verifier output of this run.',
        },
        'assumptions': sorted(set(trusted)),
        'wall_s': round(wall, 2),
        'violations': len(violations),
    }
    if undecided:
        ev['coverage']['undecided_units'] = [{'unit': r['unit'], 'reason': r.get('reason')} for r in undecided]
    return ev
