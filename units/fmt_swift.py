"""U-fmt_swift: Swift's type-expression translator (see fmtcommon)."""
from rsx import A, ins, rep, drop
import fmtcommon as F

SRC = 'core/src/language/swift.rs'

PRELUDE = r'''
// ---------- T7 stubs (field types this unit only stores)
#[verifier::external_body] pub struct GenericConstraints { _p: u8 }
/// std::sync::atomic::AtomicBool: the CodableVoid flag (C12's domain); `store` through a shared reference changes nothing a
/// specification of this unit can see
#[verifier::external_body] pub struct AtomicBool { _p: u8 }
pub enum Ordering { SeqCst }
impl AtomicBool {
    #[verifier::external_body]
    pub fn store(&self, v: bool, o: Ordering) { unimplemented!() }
}
'''

SPECIAL = F.SPECIAL_HEAD + F.special_key_reps(2)

UNIT = F.make_unit('fmt_swift', 'Swift', SRC, 'Swift',
                   'TCfg { lang: Lang::Swift, map: self.type_mappings@, prefix: self.prefix@, no_pointer_slice: false }',
                   PRELUDE, SPECIAL,
                   overrides={'format_simple_type': (F.simple_contract('generic_types'), ('fmt',))},
                   trusted_extra=['stub: AtomicBool::store (CodableVoid flag) has no effect visible to this unit'])


def native(workdir):
    import typesearch
    return typesearch.native(workdir)


def replay_args(inp):
    import typesearch
    return typesearch.replay_args(inp)
