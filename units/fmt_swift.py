"""U-fmt_swift: Swift's type-expression translator (see fmtcommon)."""
from rsx import A, ins, rep, drop
import fmtcommon as F

SRC = 'core/src/language/swift.rs'

PRELUDE = r'''
// ---------- T7 stubs (field types this unit only stores)
#[verifier::external_body] pub struct GenericConstraints { _p: u8 }
/// T7: std::sync::atomic::AtomicBool - the CodableVoid flag.  The code is sequential and holds `&mut self` wherever it stores, so
/// `store` (through `&self` in std) is verified as an update of the flag
#[verifier::external_body] pub struct AtomicBool { _p: u8 }
pub enum Ordering { SeqCst }
impl AtomicBool {
    pub uninterp spec fn is_set(&self) -> bool;
    #[verifier::external_body]
    pub fn store(&mut self, v: bool, o: Ordering)
        ensures final(self).is_set() == v
    { unimplemented!() }
}
'''

SPECIAL = F.SPECIAL_HEAD + F.special_key_reps(2)

UNIT = F.make_unit('fmt_swift', 'Swift', SRC, 'Swift',
                   'TCfg { lang: Lang::Swift, map: self.type_mappings@, prefix: self.prefix@, no_pointer_slice: false }',
                   PRELUDE, SPECIAL,
                   overrides={'format_simple_type': (F.simple_contract('generic_types'), ('fmt',))},
                   trusted_extra=['T7: AtomicBool::store verified as an update of the flag (sequential code holding &mut self)'],
                   x12={
                       'frame': '/*C12: the CodableVoid flag is never cleared*/ old(self).should_emit_codable_void.is_set() ==> final(self).should_emit_codable_void.is_set(),',
                       'ty': '/*C12: a type expression that prints `CodableVoid` has raised the flag that makes its definition be emitted*/ (r is Ok && reaches(old(self).cfg(), *ty, Kind::Unit)) ==> final(self).should_emit_codable_void.is_set(),',
                       'gen': '/*C12*/ (r is Ok && reaches_any(old(self).cfg(), *base, parameters@, Kind::Unit)) ==> final(self).should_emit_codable_void.is_set(),',
                       'special': '/*C12*/ (r is Ok && reaches_special(old(self).cfg(), *special_ty, Kind::Unit)) ==> final(self).should_emit_codable_void.is_set(),',
                       'inv': '\n                    /*C12*/ (old(self).should_emit_codable_void.is_set() ==> self.should_emit_codable_void.is_set()), forall|k: int| 0 <= k < it.index@ ==> (reaches(c0, #[trigger] parameters@[k], Kind::Unit) ==> self.should_emit_codable_void.is_set()),',
                   })
UNIT.spec_files = list(UNIT.spec_files) + ['helpers.rs']


def _search():
    # the unit serves two properties: a failing input is looked for with the stand-in of the property being checked
    import os
    if os.environ.get('VERIF_PID') == 'C12':
        import helpersearch
        return helpersearch
    import typesearch
    return typesearch


def native(workdir):
    return _search().native(workdir)


def replay_args(inp):
    if 'trigger' in inp:
        import helpersearch
        return helpersearch.replay_args(inp)
    import typesearch
    return typesearch.replay_args(inp)
