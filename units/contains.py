"""U-contains: RustType::contains_type, SpecialRustType::contains_type and SpecialRustType::id (core/src/rust_types.rs), verbatim.  Serves C12
(kernel, Scala): `contains_type(name)` answers true whenever the type expression mentions the built-in type spelled `name` at ANY depth -
through Vec / array / slice / Option / HashMap and generic arguments - which is what Scala's unsigned_integer_used asks for each
unsigned integer name before it decides to emit the `type UByte = Byte ...` aliases.  C07: recursion terminates, no panic."""
from rsx import A, ins, rep, drop
from vunit import Item, Unit

RT = 'core/src/rust_types.rs'

PRE_VERUS = r'''
use vstd::std_specs::iter::IteratorSpec;
'''

PRELUDE = r'''
/// std: AsRef<T> for Box<T> borrows the boxed value
pub assume_specification<T: ?Sized, A: ::std::alloc::Allocator> [<::std::boxed::Box<T, A> as ::std::convert::AsRef<T>>::as_ref] (b: &::std::boxed::Box<T, A>) -> (r: &T)
    ensures r == &**b;

/// the Rust spelling of a built-in type (what SpecialRustType::id returns): written from the Rust names, checked against the code below
pub open spec fn sid(s: SpecialRustType) -> Seq<char> {
    match s {
        SpecialRustType::Unit => "()"@, SpecialRustType::F64 => "f64"@, SpecialRustType::F32 => "f32"@, SpecialRustType::Vec(_) => "Vec"@,
        SpecialRustType::Array(_, _) => "[]"@, SpecialRustType::Slice(_) => "&[]"@, SpecialRustType::Option(_) => "Option"@,
        SpecialRustType::HashMap(_, _) => "HashMap"@, SpecialRustType::DateTime => "OffsetDateTime"@, SpecialRustType::String => "String"@,
        SpecialRustType::Char => "char"@, SpecialRustType::Bool => "bool"@, SpecialRustType::I8 => "i8"@, SpecialRustType::I16 => "i16"@,
        SpecialRustType::I32 => "i32"@, SpecialRustType::I64 => "i64"@, SpecialRustType::U8 => "u8"@, SpecialRustType::U16 => "u16"@,
        SpecialRustType::U32 => "u32"@, SpecialRustType::U64 => "u64"@, SpecialRustType::ISize => "isize"@, SpecialRustType::USize => "usize"@,
        SpecialRustType::I54 => "I54"@, SpecialRustType::U53 => "U53"@,
    }
}
/// C12: the type expression mentions the name - as a user / generic type, or as a built-in type - at any depth
pub open spec fn mentions_name(ty: RustType, n: Seq<char>) -> bool
    decreases ty, 1int
{
    match ty {
        RustType::Simple { id } => id@ == n,
        RustType::Generic { id, parameters } => id@ == n || any_mentions(parameters@, n),
        RustType::Special(s) => special_mentions(s, n),
    }
}
pub open spec fn any_mentions(ps: Seq<RustType>, n: Seq<char>) -> bool
    decreases ps, 0int
{
    exists|i: int| 0 <= i < ps.len() && mentions_name(#[trigger] ps[i], n)
}
pub open spec fn special_mentions(s: SpecialRustType, n: Seq<char>) -> bool
    decreases s, 0int
{
    match s {
        SpecialRustType::Vec(t) => mentions_name(*t, n),
        SpecialRustType::Array(t, _) => mentions_name(*t, n),
        SpecialRustType::Slice(t) => mentions_name(*t, n),
        SpecialRustType::Option(t) => mentions_name(*t, n),
        SpecialRustType::HashMap(a, b) => mentions_name(*a, n) || mentions_name(*b, n),
        other => n == sid(other),
    }
}
/// the built-in type `u` occurs in the type expression (the fact Scala's alias decision depends on)
pub open spec fn occurs(ty: RustType, u: SpecialRustType) -> bool
    decreases ty, 1int
{
    match ty {
        RustType::Simple { id } => false,
        RustType::Generic { id, parameters } => exists|i: int| 0 <= i < parameters@.len() && occurs(#[trigger] parameters@[i], u),
        RustType::Special(s) => occurs_special(s, u),
    }
}
pub open spec fn occurs_special(s: SpecialRustType, u: SpecialRustType) -> bool
    decreases s, 0int
{
    match s {
        SpecialRustType::Vec(t) => occurs(*t, u),
        SpecialRustType::Array(t, _) => occurs(*t, u),
        SpecialRustType::Slice(t) => occurs(*t, u),
        SpecialRustType::Option(t) => occurs(*t, u),
        SpecialRustType::HashMap(a, b) => occurs(*a, u) || occurs(*b, u),
        other => other == u,
    }
}
pub open spec fn primitive(u: SpecialRustType) -> bool {
    !(u is Vec || u is Array || u is Slice || u is Option || u is HashMap)
}
/// C12 (Scala): if a primitive built-in type occurs anywhere in the expression, contains_type(its Rust name) is true
pub proof fn lemma_occurs_mentions(ty: RustType, u: SpecialRustType)
    requires primitive(u), occurs(ty, u)
    ensures mentions_name(ty, sid(u))
    decreases ty, 1int
{
    match ty {
        RustType::Simple { id } => {}
        RustType::Generic { id, parameters } => {
            let i = choose|i: int| 0 <= i < parameters@.len() && occurs(#[trigger] parameters@[i], u);
            lemma_occurs_mentions(parameters@[i], u);
            assert(any_mentions(parameters@, sid(u)));
        }
        RustType::Special(s) => { lemma_occurs_special(s, u); }
    }
}
pub proof fn lemma_occurs_special(s: SpecialRustType, u: SpecialRustType)
    requires primitive(u), occurs_special(s, u)
    ensures special_mentions(s, sid(u))
    decreases s, 0int
{
    match s {
        SpecialRustType::Vec(t) => { lemma_occurs_mentions(*t, u); }
        SpecialRustType::Array(t, _) => { lemma_occurs_mentions(*t, u); }
        SpecialRustType::Slice(t) => { lemma_occurs_mentions(*t, u); }
        SpecialRustType::Option(t) => { lemma_occurs_mentions(*t, u); }
        SpecialRustType::HashMap(a, b) => { if occurs(*a, u) { lemma_occurs_mentions(*a, u); } else { lemma_occurs_mentions(*b, u); } }
        _ => {}
    }
}

/// T15: `id == ty` for id: &String, ty: &str (PartialEq<str> for String): equality of the texts
#[verifier::external_body]
fn text_eq(a: &String, b: &str) -> (r: bool) ensures r == (a@ == b@) { unimplemented!() }

/// T14b: `parameters.iter().any(|p| p.contains_type(ty))` - true iff some element satisfies the predicate (std Iterator::any); the loop below is
/// that definition, with the predicate being the call the closure makes
fn any_contains(parameters: &Vec<RustType>, ty: &str, Ghost(whole): Ghost<RustType>) -> (r: bool)
    requires whole is Generic, whole->parameters@ == parameters@,
    ensures r == any_mentions(parameters@, ty@),
    decreases whole, 0int
{
    for p in it: parameters.iter()
        invariant whole is Generic, whole->parameters@ == parameters@,
            forall|k: int| 0 <= k < it.index@ ==> !mentions_name(#[trigger] parameters@[k], ty@),
    {
        proof { assert(parameters@[it.index@] == *p); assert(decreases_to!(whole => whole->parameters)); assert(decreases_to!(whole->parameters => whole->parameters@)); assert(decreases_to!(parameters@ => parameters@[it.index@])); }
        if p.contains_type(ty) { return true; }
    }
    false
}
'''

CT = [
    ins(A.ret(), '(r: ', where='before'), ins(A.ret(), ')', where='after'),
    ins(A.sig(), '''
        ensures /*C12*/ r == mentions_name(*self, ty@),
        decreases *self, 1int
''', cid='contains_type.contract'),
    rep(A.text('parameters.iter().any(|p| p.contains_type(ty))'), 'any_contains(parameters, ty, Ghost(*self))', tag='T14b',
        note='Iterator::any over the arguments: the helper loop calls the same p.contains_type(ty)'),
]
SCT = [
    ins(A.ret(), '(r: ', where='before'), ins(A.ret(), ')', where='after'),
    ins(A.sig(), '''
        ensures /*C12*/ r == special_mentions(*self, ty@),
        decreases *self, 0int
''', cid='special_contains_type.contract'),
]
ID = [
    ins(A.ret(), '(r: ', where='before'), ins(A.ret(), ')', where='after'),
    ins(A.sig(), '''
        ensures r@ == sid(*self),
''', cid='id.contract'),
]

UNIT = Unit(
    name='contains', props=['C12', 'C07'], pre_verus=PRE_VERUS, prelude=PRELUDE,
    items=[
        Item('enum_RustType', RT, ['enum RustType']),
        Item('enum_SpecialRustType', RT, ['enum SpecialRustType']),
        Item('contains_type', RT, ['impl RustType {', 'fn contains_type'], CT, wrap=('impl RustType {\n', '\n}\n'),
             auto=(('tok', 'id == ty', 'text_eq(id, ty)', 'T15'),)),
        Item('special_contains_type', RT, ['impl SpecialRustType {', 'fn contains_type'], SCT, wrap=('impl SpecialRustType {\n', '\n}\n')),
        Item('special_id', RT, ['impl SpecialRustType {', 'fn id'], ID, wrap=('impl SpecialRustType {\n', '\n}\n')),
    ],
    functions=['RustType::contains_type', 'SpecialRustType::contains_type', 'SpecialRustType::id', 'any_contains', 'lemma_occurs_mentions', 'lemma_occurs_special'],
    trusted=['T14b: `parameters.iter().any(|p| F(p))` verified as the loop that returns true at the first element satisfying F (std Iterator::any), with F the same call',
             'std: Box::as_ref, str / String equality compare the texts (vstd)'],
    undecided=['Scala::unsigned_integer_used collects the type expressions of the file with iterator chains and asks contains_type for the six unsigned names '
               '(glue, not under contract); that the package object with the aliases is then written is text emission - bounded stand-in helper-search'],
)
UNIT.crate_attrs = '#![feature(allocator_api)]'
UNIT.allowed_calls = {'contains_type', 'id', 'iter'}
UNIT.forbid = []


def native(workdir):
    import helpersearch
    return helpersearch.native(workdir)


def replay_args(inp):
    import helpersearch
    return helpersearch.replay_args(inp)
