"""bounded stand-in for C01: the wire names serde uses are carried by the generated definitions (replay binary, public API of /repo/core)"""
import os

import kf_replay


def native(workdir):
    """bounded search on the REAL crates through parse -> reconcile -> generate_types of all six back ends: struct fields and struct-variant
    fields (C01) / unit and adjacently tagged enums incl. tag and content keys (C02) with the container rule in the first or in a second serde attribute, 6 conventional field names (a raw identifier
    among them) resp. 4 UpperCamelCase variants, every rename_all rule and none, explicit serde(rename) incl. a dashed key; every key
    serde_derive's own case.rs computes must occur in the output as a whole token (Scala: only keys usable as identifiers;
    Kotlin/Scala carry no tag key)."""
    exe = kf_replay.replay_bin()
    if not exe:
        return None, 'replay binary does not build: ' + kf_replay._bin.get('err', '')
    w = os.path.join(workdir, 'native_wire_c01.sh')
    with open(w, 'w') as f:
        f.write('#!/bin/sh\nsub=$1; shift\nif [ "$sub" = search ]; then exec %s wire-search C01; else exec %s wire-check "$@"; fi\n' % (exe, exe))
    os.chmod(w, 0o755)
    return w, ''


def replay_args(inp):
    return [str(inp['kind']), str(inp['rule']), str(inp['lang'])]
