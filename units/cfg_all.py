"""U-cfg for the feature set {go, python}"""
import cfg
UNIT = cfg.make_unit(['go', 'python'], 'cfg_all')


def native_source(raw):
    return cfg.native_source_for(UNIT)


replay_args = cfg.replay_args
