"""U-opt_<lang>: the function of one back end that writes a struct member (field / struct-variant field), verbatim, over a ghost text
sink.  Serves C04 (kernel): the text appended for a member contains `member(lang, name, type text, field)` of spec/optmark.rs - the
target's member notation in which the optional marker is present exactly when the Rust type is Option<T> or the field has
serde(default), the type text is the override or a translation of the Rust type (the marker never changes it), and (TypeScript)
Option<Option<T>> carries `| null`.  write! / writeln! sites are verified through contracts generated from their literals (T14).
format_type is used through the contract proved for it in unit fmt_<lang>."""
from rsx import A, ins, rep, drop
from vunit import Item, Unit
import fmtcommon as F

RT = F.RT

PRE_VERUS = r'''
use ::std::collections::{HashMap, HashSet};
use vstd::std_specs::hash::*;
// T7: the io types the writers name (only passed on)
pub mod io { pub type Result<T> = core::result::Result<T, crate::IoError>; }
pub mod std { pub mod io { pub type Result<T> = core::result::Result<T, crate::IoError>; } }
'''

PRELUDE = r'''
pub mod strlemmas {
    use vstd::prelude::*;
    pub broadcast proof fn lemma_empty_literal_left(x: Seq<char>)
        ensures #[trigger] (""@ + x) == x
    { reveal_strlit(""); assert(""@ + x =~= x); }
    pub broadcast proof fn lemma_empty_literal_right(x: Seq<char>)
        ensures #[trigger] (x + ""@) == x
    { reveal_strlit(""); assert(x + ""@ =~= x); }
}
broadcast use {vstd::std_specs::hash::group_hash_axioms, strlemmas::lemma_empty_literal_left, strlemmas::lemma_empty_literal_right};

/// std: AsRef<T> for Box<T> borrows the boxed value
pub assume_specification<T: ?Sized, A: ::std::alloc::Allocator> [<::std::boxed::Box<T, A> as ::std::convert::AsRef<T>>::as_ref] (b: &::std::boxed::Box<T, A>) -> (r: &T)
    ensures r == &**b;

// ---------- T7 stubs
#[verifier::external_body] pub struct IoError { _p: u8 }
/// stands for `dyn Write`: the text written so far
#[verifier::external_body] pub struct WriteSink { _p: u8 }
impl View for WriteSink { type V = Seq<char>; uninterp spec fn view(&self) -> Seq<char>; }
#[verifier::external_body] #[verifier::reject_recursive_types(K)] #[verifier::reject_recursive_types(V)] pub struct BTreeMap<K, V> { _k: ::core::marker::PhantomData<(K, V)> }
#[verifier::external_body] #[verifier::reject_recursive_types(K)] pub struct BTreeSet<K> { _k: ::core::marker::PhantomData<K> }
/// `.map_err(|e| io::Error::new(io::ErrorKind::Other, e))`: the error value handed on (its content is not part of the property)
#[verifier::external_body]
fn io_error_other(e: RustTypeFormatError) -> IoError { unimplemented!() }

impl RustField {
    /// stub for RustField::type_override (decorator lookup: iterator / closure chain)
    #[verifier::external_body]
    pub fn type_override(&self, language: SupportedLanguage) -> (r: Option<&str>)
        ensures match r { Some(s) => type_override_of(*self, language) == Some(s@), None => type_override_of(*self, language) is None }
    { unimplemented!() }
}
/// what write_comments appends for a comment list (doc text emission: C15's domain), uninterpreted
pub uninterp spec fn comments_text(indent: int, comments: Seq<String>) -> Seq<char>;
'''

FORMAT_TYPE_STUB = '''
    /// ASSUMED here, PROVED in unit %(fmt)s: the contract of format_type
    #[verifier::external_body]
    fn format_type(&mut self, ty: &RustType, generic_types: &[String]) -> (r: Result<String, RustTypeFormatError>)
        requires obeys_key_model::<String>(), dom(*ty),
        ensures answers(old(self).cfg(), generic_types@, *ty, r), final(self).cfg() == old(self).cfg(),
    { unimplemented!() }
'''

IS_OPT = [
    ins(A.ret(), '(r: ', where='before'), ins(A.ret(), ')', where='after'),
    ins(A.sig(), '''
        ensures r == is_opt(*self),
'''),
]
IS_DOUBLE = [
    ins(A.ret(), '(r: ', where='before'), ins(A.ret(), ')', where='after'),
    ins(A.sig(), '''
        ensures r == is_double_opt(*self),
'''),
]

# `X.format_type(..).map_err(|e| io::Error::new(io::ErrorKind::Other, e))?`  ->  `match X.format_type(..) { Ok(v) => v, Err(e) => return Err(..) }`
MAP_ERR_TAIL = '{ Ok(v__) => v__, Err(e__) => return Err(io_error_other(e__)) }'


def base_items(struct, src):
    return [
        Item('enum_RustType', RT, ['enum RustType']),
        Item('enum_SpecialRustType', RT, ['enum SpecialRustType']),
        Item('enum_RustTypeFormatError', RT, ['enum RustTypeFormatError']),
        Item('struct_Id', RT, ['struct Id']),
        Item('enum_FieldDecorator', RT, ['enum FieldDecorator']),
        Item('struct_RustField', RT, ['struct RustField']),
        Item('enum_SupportedLanguage', F.MOD, ['enum SupportedLanguage']),
        Item('struct_' + struct, src, ['struct ' + struct]),
        Item('is_optional', RT, ['impl RustType {', 'fn is_optional'], IS_OPT, wrap=('impl RustType {\n', '\n}\n')),
        Item('is_double_optional', RT, ['impl RustType {', 'fn is_double_optional'], IS_DOUBLE, wrap=('impl RustType {\n', '\n}\n')),
    ]


TRUSTED = [
    'T14: write!(w, "a{}b", x) / writeln! / format! sites are verified as calls whose contract (the sink grows by "a" + x + "b" [+ newline]) is '
    'GENERATED from the literal in the current source; std::fmt semantics of `{}` assumed (spec/txt.rs)',
    'T14b: b.then_some("lit").unwrap_or_default() verified as `if b { "lit" } else { "" }`; `.map_err(|e| io::Error::new(..))?` verified as '
    'a match that returns the converted error (std semantics)',
    'T7: `&mut dyn Write` is a ghost text sink; io::Error is an opaque stub',
    'format_type is used through the contract PROVED for it in the back end\'s fmt unit (stub with the same clause text)',
    'stubs: RustField::type_override (decorator lookup) is a pure function of (field, language); write_comments appends some text and '
    'nothing else; identifier escaping helpers are pure functions of the name',
]
UNDECIDED = [
    'that `has_default` is set exactly for the bare serde(default) attribute (parser.rs::serde_default: syn) - bounded stand-in opt-search',
    'members written on other paths (newtype-variant payloads, type aliases, Swift initialiser / coding keys) and the text around a member',
]
ALLOWED = F.ALLOWED_CALLS | {'is_some', 'is_none'}
