"""U-cfg: cli/src/main.rs::override_configuration, verbatim, over the type definitions extracted from cli/src/config.rs and
cli/src/args.rs.  Serves C20 (CLI-over-file precedence for the dual settings + a generated frame clause for every other leaf
field of Config), C07 (total, no panic).  Verified once per cargo feature set: {} and {go, python} (T10)."""
import re

import rsx
import vunit
from rsx import A, ins, rep, drop
from vunit import Item, Unit

PRE_VERUS = r'''
use std::collections::HashMap;
use std::path::PathBuf;
// T7: opaque stand-ins
pub mod anyhow { use vstd::prelude::*; verus! { #[verifier::external_body] pub struct Error { _p: u8 } }
    pub type Result<T> = core::result::Result<T, Error>; }
pub mod clap_complete { use vstd::prelude::*; verus! { #[verifier::external_body] pub struct Shell { _p: u8 } } }
pub mod args { pub use crate::AvailableLanguage; }
'''

PRELUDE = r'''
#[verifier::external_type_specification]
#[verifier::external_body]
pub struct ExPathBuf(std::path::PathBuf);
/// T9: the error value built by anyhow::ensure! (message text is not part of the property)
#[verifier::external_body]
fn outlined_anyhow(msg: &str) -> anyhow::Error { unimplemented!() }
/// C20: command-line value when given, else the file's value (which is the default when the key is absent)
pub open spec fn pick(o: Option<String>, d: String) -> String { match o { Some(v) => v, None => d } }
'''

# (command-line option, Config leaf it overrides)
DUAL = [('swift_prefix', 'swift.prefix'), ('kotlin_prefix', 'kotlin.prefix'), ('java_package', 'kotlin.package'),
        ('kotlin_module_name', 'kotlin.module_name'), ('scala_package', 'scala.package'),
        ('scala_module_name', 'scala.module_name')]
DUAL_GO = [('go_package', 'go.package')]


def struct_fields(text):
    """[(name, type_text)] of a `struct X { pub a: T, ... }` item text (attributes ignored)"""
    src = rsx.Src(text)
    st = src.sigtext
    o = st.index('{')
    c = rsx.match_close(st, o)
    out, k = [], o + 1
    while k < c:
        if st[k] == '#':
            k = rsx.match_close(st, k + 1 if st[k + 1] == '[' else k + 2) + 1
            continue
        if st[k] == 'pub':
            k += 1
            if st[k] == '(':
                k = rsx.match_close(st, k) + 1
        name = st[k]
        assert st[k + 1] == ':', (name, st[k + 1])
        j, depth, ty = k + 2, 0, []
        while j < c and not (st[j] == ',' and depth == 0):
            if st[j] in ('<', '(', '['):
                depth += 1
            elif st[j] in ('>', ')', ']'):
                depth -= 1
            ty.append(st[j])
            j += 1
        out.append((name, ''.join(ty)))
        k = j + 1
    return out


STRUCTS = {'SwiftParams': None, 'TypeScriptParams': None, 'KotlinParams': None, 'ScalaParams': None, 'GoParams': 'go', 'PythonParams': 'python'}


def make_unit(features, name):
    feats = set(features)
    items = []
    for sname, feat in STRUCTS.items():
        if feat is None or feat in feats:
            items.append(Item('struct_' + sname, 'cli/src/config.rs', ['struct ' + sname], features=feats))
    items.append(Item('struct_Config', 'cli/src/config.rs', ['struct Config'], features=feats))
    items.append(Item('enum_AvailableLanguage', 'cli/src/args.rs', ['enum AvailableLanguage'], features=feats))
    items.append(Item('struct_Args', 'cli/src/args.rs', ['struct Args'], features=feats))
    items.append(Item('enum_Command', 'cli/src/args.rs', ['enum Command'], features=feats))
    items.append(Item('struct_Output', 'cli/src/args.rs', ['struct Output'], features=feats))

    # ---- frame clauses generated from the CURRENT struct definitions: a new field is framed automatically
    def cur(it):
        try:
            return vunit.current_item_text(it)
        except Exception:
            return None
    by_name = {it.name: it for it in items}
    leaves = []
    ctext = cur(by_name['struct_Config'])
    if ctext:
        # respect cfg(feature) on Config's fields
        for m in re.finditer(r'(#\[cfg\(feature\s*=\s*"(\w+)"\)\]\s*)?(?:#\[[^\]]*\]\s*)*pub\s+(\w+)\s*:\s*(\w+)', ctext):
            feat, fname, ty = m.group(2), m.group(3), m.group(4)
            if feat and feat not in feats:
                continue
            sub = by_name.get('struct_' + ty)
            stext = cur(sub) if sub else None
            if stext:
                for (n, t) in struct_fields(stext):
                    leaves.append('%s.%s' % (fname, n))
            else:
                leaves.append(fname)
    dual = DUAL + (DUAL_GO if 'go' in feats else [])
    overridden = {p for (_, p) in dual} | {'target_os'}
    frame = [l for l in leaves if l not in overridden]
    clauses = ['        &&& /*C20-precedence*/ r.%s == pick(options.%s, config.%s)' % (p, o, p) for (o, p) in dual]
    clauses += ['        &&& /*C20-frame*/ r.%s == config.%s' % (l, l) for l in frame]
    clauses += ['        &&& /*C20-cli-only*/ r.target_os@ == match options.target_os { Some(v) => v@, None => Seq::<String>::empty() }']
    if 'go' in feats:
        err = ('res is Err <==> (options.language == Some(AvailableLanguage::Go) && '
               'pick(options.go_package, config.go.package)@.len() == 0)')
    else:
        err = 'res is Ok'
    contract = '\n  ensures\n    /*C20-error*/ %s,\n    res is Ok ==> {\n        let r = res->Ok_0;\n%s\n    },\n' % (err, '\n'.join(clauses))

    edits = [
        ins(A.ret(), '(res: ', where='before'), ins(A.ret(), ')', where='after'),
        ins(A.sig(), contract, cid='override_configuration.contract'),
        rep(A.text('module_name.to_string()', nth=1), 'outlined_to_string_1(module_name)', tag='T3', cid='o_ts1',
            note='ToString on String resolves to the blanket impl, which Verus cannot specify'),
        rep(A.text('scala_module_name.to_string()'), 'outlined_to_string_2(scala_module_name)', tag='T3', cid='o_ts2'),
        rep(A.text('options.target_os.as_deref().unwrap_or_default().to_vec()'), 'outlined_target_os(options)', tag='T3', cid='o_tos',
            note='Option::as_deref / unwrap_or_default / to_vec chain'),
    ]
    outlines = {
        'o_ts1': 'fn outlined_to_string_1(module_name: &String) -> (r: String)\n  ensures r == *module_name',
        'o_ts2': 'fn outlined_to_string_2(scala_module_name: &String) -> (r: String)\n  ensures r == *scala_module_name',
        'o_tos': 'fn outlined_target_os(options: &Args) -> (r: Vec<String>)\n'
                 '  ensures r@ == match options.target_os { Some(v) => v@, None => Seq::<String>::empty() }',
    }
    if 'go' in feats:
        edits += [
            rep(A.text('go_package.to_string()'), 'outlined_to_string_3(go_package)', tag='T3', cid='o_ts3'),
            rep(A.text('anyhow::ensure!('), 'if !(', tag='T9'),
            rep(A.next_tok('!config.go.package.is_empty()', ','), ') { return Err(outlined_anyhow(', tag='T9'),
            rep(A.next_tok('"Please provide a package name in the typeshare.toml or using --go-package <package name>"', ')'), ')); }', tag='T9'),
        ]
        outlines['o_ts3'] = 'fn outlined_to_string_3(go_package: &String) -> (r: String)\n  ensures r == *go_package'
    items.append(Item('override_configuration', 'cli/src/main.rs', ['fn override_configuration'], edits, features=feats))
    return Unit(
        name=name, props=['C20', 'C07'], pre_verus=PRE_VERUS, prelude=PRELUDE, items=items, outlines=outlines,
        functions=['override_configuration'],
        trusted=[
            'outlined (T3): String::to_string() returns an equal String; Option<Vec<String>>::as_deref().unwrap_or_default().to_vec() is the '
            'vector or empty',
            'T9: anyhow::ensure!(c, m) expands to `if !c { return Err(anyhow!(m)) }` (macro documentation); anyhow::Error is an opaque stub',
            'String::clone returns an equal String (vstd)',
        ],
        undecided=[
            'toml + serde round trip of Config (#[serde(default)], #[serde(skip)] on target_os) and store_config/create_new never overwriting',
            'config discovery (-c and ancestor-directory search): file system',
        ],
    )


UNIT = make_unit([], 'cfg')


# ------------------------------------------------------------------------------------ witness search / replay
SHIM = r"""
#![allow(dead_code, unused, non_snake_case)]
use std::collections::HashMap;
use std::path::PathBuf;
pub mod anyhow {
    #[derive(Debug)] pub struct Error(pub String);
    pub type Result<T> = core::result::Result<T, Error>;
    macro_rules! ensure { ($c:expr, $m:expr) => { if !($c) { return Err(crate::anyhow::Error($m.to_string())); } } }
    pub(crate) use ensure;
}
pub mod clap_complete { #[derive(Debug, Clone, Copy)] pub struct Shell; }
pub mod args { pub use crate::AvailableLanguage; }
"""


def _value(ty, tag, known):
    if ty == 'String':
        return '"%s".to_string()' % tag
    if ty == 'bool':
        return 'true'
    if ty.startswith('Vec<'):
        return 'vec!["%s".to_string()]' % tag
    if ty.startswith('HashMap<'):
        return 'HashMap::from([("k_%s".to_string(), "%s".to_string())])' % (tag, tag)
    if ty.startswith('Option<'):
        return 'None'
    if ty in known:
        return '%s { %s }' % (ty, ', '.join('%s: %s' % (n, _value(t, tag + '_' + n, known)) for (n, t) in known[ty]))
    raise ValueError('no sentinel for type ' + ty)


def native_source_for(unit):
    feats = unit.items[0].features
    texts = {it.name: vunit.plain_item_text(it) for it in unit.items}
    known = {}
    for name, t in texts.items():
        if name.startswith('struct_'):
            known[name[len('struct_'):]] = struct_fields(t)
    go = 'go' in feats
    leaves = []
    for (fname, ty) in known['Config']:
        if ty in known:
            leaves += ['%s.%s' % (fname, n) for (n, _) in known[ty]]
        else:
            leaves.append(fname)
    dual = DUAL + (DUAL_GO if go else [])
    opts = [o for (o, _) in dual]
    args_fields = []
    for (n, t) in known['Args']:
        if n in opts:
            args_fields.append('%s: o[%d].clone()' % (n, opts.index(n)))
        elif n == 'language':
            args_fields.append('language: lang')
        elif n == 'target_os':
            args_fields.append('target_os: tos.clone()')
        elif t == 'bool':
            args_fields.append('%s: false' % n)
        elif t.startswith('Vec<'):
            args_fields.append('%s: vec![]' % n)
        elif t.startswith('Option<'):
            args_fields.append('%s: None' % n)
        elif t == 'Output':
            args_fields.append('%s: Output { %s }' % (n, ', '.join('%s: %s' % (fn_, 'false' if ft == 'bool' else 'None') for (fn_, ft) in known['Output'])))
        else:
            raise ValueError('Args field %s: %s' % (n, t))
    langs = ['None', 'Some(AvailableLanguage::Swift)'] + (['Some(AvailableLanguage::Go)'] if go else [])
    main = ['fn mk_config(empty: bool) -> Config { let mut c = %s;' % _value('Config', 'cfg', known)]
    for (_, p) in dual:
        main.append('    if empty { c.%s = String::new(); }' % p)
    main.append('    c }')
    main.append('fn leaves(c: &Config) -> Vec<(&\'static str, String)> { vec![%s] }' % ', '.join('("%s", format!("{:?}", c.%s))' % (l, l) for l in leaves))
    main.append(r"""
fn run(o: &Vec<Option<String>>, lang: Option<AvailableLanguage>, lang_is_go: bool, tos: &Option<Vec<String>>, empty: bool) -> Option<String> {
    let before = mk_config(empty);
    let options = Args { %(args)s };
    let res = std::panic::catch_unwind(|| override_configuration(mk_config(empty), &options));
    let res = match res { Ok(r) => r, Err(_) => return Some("override_configuration panicked".into()) };
    let dual: Vec<(&str, usize)> = vec![%(dualidx)s];
    let b = leaves(&before);
    let mut expect: Vec<(&str, String)> = b.clone();
    for (path, k) in &dual { if let Some(v) = &o[*k] { for e in expect.iter_mut() { if e.0 == *path { e.1 = format!("{:?}", v); } } } }
    for e in expect.iter_mut() { if e.0 == "target_os" { e.1 = format!("{:?}", tos.clone().unwrap_or_default()); } }
    let go_pkg_empty = expect.iter().any(|e| e.0 == "go.package" && e.1 == "\"\"");
    let want_err = lang_is_go && go_pkg_empty;
    match res {
        Err(_) => if want_err { None } else { Some("returned Err although a usable configuration exists".into()) },
        Ok(r) => {
            if want_err { return Some("returned Ok for Go without a package".into()); }
            let got = leaves(&r);
            for (g, e) in got.iter().zip(expect.iter()) { if g.1 != e.1 { return Some(format!("setting {} is {} but should be {} (command line value when given, else the file's value)", g.0, g.1, e.1)); } }
            None
        }
    }
}
fn main() {
    std::panic::set_hook(Box::new(|_| {}));
    let a: Vec<String> = std::env::args().collect();
    let choices: Vec<Option<String>> = vec![None, Some(String::new()), Some("cli".to_string())];
    let tos_choices: Vec<Option<Vec<String>>> = vec![None, Some(vec![]), Some(vec!["ios".to_string(), "android".to_string()])];
    let nopt = %(nopt)d;
    let langs: Vec<(Option<AvailableLanguage>, bool, &str)> = vec![%(langs)s];
    let decode = |code: usize| -> Vec<Option<String>> { let mut c = code; (0..nopt).map(|_| { let v = choices[c %% 3].clone(); c /= 3; v }).collect() };
    let report = |code: usize, li: usize, ti: usize, empty: bool, m: String| {
        println!("WITNESS {{\"input\": {{\"options_code\": {}, \"lang\": {}, \"target_os\": {}, \"file_values_empty\": {}, \"options\": {:?}}}, \"fails\": {:?}}}", code, li, ti, empty, format!("{:?} lang={} target_os={:?}", decode(code), langs[li].2, tos_choices[ti]), m);
        std::process::exit(1); };
    if a.len() >= 6 && a[1] == "check" {
        let (code, li, ti, empty): (usize, usize, usize, bool) = (a[2].parse().unwrap(), a[3].parse().unwrap(), a[4].parse().unwrap(), a[5] == "true");
        if let Some(m) = run(&decode(code), langs[li].0, langs[li].1, &tos_choices[ti], empty) { report(code, li, ti, empty, m); }
        println!("input passes"); return;
    }
    let mut tried = 0u64;
    for code in 0..3usize.pow(nopt as u32) { for li in 0..langs.len() { for ti in 0..tos_choices.len() { for empty in [false, true] {
        tried += 1;
        if let Some(m) = run(&decode(code), langs[li].0, langs[li].1, &tos_choices[ti], empty) { report(code, li, ti, empty, m); }
    } } } }
    println!("no failing input among {} option/config combinations", tried);
}
""" % {'args': ', '.join(args_fields), 'dualidx': ', '.join('("%s", %d)' % (p, k) for k, (_, p) in enumerate(dual)),
       'nopt': len(dual), 'langs': ', '.join('(%s, %s, "%s")' % (l, 'true' if 'Go' in l else 'false', l) for l in langs)})
    order = [n for n in texts if n != 'override_configuration'] + ['override_configuration']
    body = '\n'.join(texts[n].replace('pub(crate) struct', 'pub struct') for n in order)
    body = body.replace('pub enum AvailableLanguage', '#[derive(Debug, Clone, Copy)] pub enum AvailableLanguage')
    return SHIM + body + '\n' + '\n'.join(main)


def native_source(raw):
    return native_source_for(UNIT)


def replay_args(inp):
    return [str(inp['options_code']), str(inp['lang']), str(inp['target_os']), 'true' if inp['file_values_empty'] else 'false']

