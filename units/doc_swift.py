"""U-doc_swift: Swift::write_comment / write_comments (see doccommon)."""
import doccommon as D

UNIT = D.make_unit('doc_swift', 'Swift', 'core/src/language/swift.rs', 'impl Swift {', split_span='for line in comment.trim_end()',
                   split_arg='trim_end_of(comment)', line_text='trimmed(line@)', closure_var='c')


def native(workdir):
    import docsearch
    return docsearch.native(workdir)


def replay_args(inp):
    import docsearch
    return docsearch.replay_args(inp)
