#!/usr/bin/env python3
"""clirun - BOUNDED stand-ins that drive the real `typeshare` command line tool built from /repo's working tree.

They cover the parts of C17 / C20 / C06 / C07 that sit in functions outside the verifier's reach (loops over `dyn Language`
in cli/src/writer.rs, file-system discovery in cli/src/config.rs, clap/TOML plumbing, hash-seed dependent emission order,
syn-dependent panics).  Every bound is stated in the scenario's docstring; a failing input is a real violation replayed on
the real binary; finding none proves nothing and is never counted as a discharged obligation.

usage: clirun.py <scenario> search | check <json>      scenarios: runs, config, determinism, robust
"""
import itertools
import json
import os
import re
import shutil
import subprocess
import sys
import tempfile
import time

REPO = os.environ.get('VERIF_REPO', '/repo')
WORK = os.environ.get('VERIF_WORK', '/var/tmp/typeshare-verif')
HERE = os.path.dirname(os.path.abspath(__file__))


def build_cli():
    tgt = os.path.join(WORK, 'cli-target')
    pr = subprocess.run(['cargo', 'build', '--release', '-p', 'typeshare-cli', '--features', 'go,python', '--offline', '--target-dir', tgt],
                        cwd=REPO, capture_output=True, text=True, timeout=1800, env=dict(os.environ, CARGO_NET_OFFLINE='true'))
    exe = os.path.join(tgt, 'release', 'typeshare')
    if pr.returncode != 0 or not os.path.exists(exe):
        print('ERROR cannot build the typeshare CLI: ' + pr.stderr[-1500:])
        sys.exit(3)
    return exe


def run(exe, args, cwd, timeout=20):
    for attempt in range(8):
        try:
            pr = subprocess.run([exe] + args, cwd=cwd, capture_output=True, text=True, timeout=timeout,
                                env=dict(os.environ, RUST_LOG='error', RUST_BACKTRACE='0'))
            return pr.returncode, pr.stdout + pr.stderr
        except subprocess.TimeoutExpired:
            return 'timeout', ''
        except OSError as ex:
            # ETXTBSY: the binary / script was written a moment ago and a child spawned by another thread still holds it open
            if ex.errno != 26 or attempt == 7:
                raise
            time.sleep(0.05 * (attempt + 1))


def tree(root, files):
    for rel, text in files.items():
        p = os.path.join(root, rel)
        os.makedirs(os.path.dirname(p), exist_ok=True)
        with open(p, 'w') as f:
            f.write(text)


def snapshot(d):
    out = {}
    if os.path.isfile(d):
        return {'.': (open(d, 'rb').read(), os.stat(d).st_mtime_ns)}
    for base, _, fs in os.walk(d):
        for f in fs:
            p = os.path.join(base, f)
            out[os.path.relpath(p, d)] = (open(p, 'rb').read(), os.stat(p).st_mtime_ns)
    return out


def witness(inp, msg):
    print('WITNESS ' + json.dumps({'input': inp, 'fails': msg}))
    sys.exit(1)


# ------------------------------------------------------------------------------------------------ C17: run sequences
VERSIONS = {
    # two crates; `()` makes Swift emit CodableVoid (Codable.swift in multi-file mode); both crates have a Date-typed field (TypeScript
    # keeps per-run state for those: the order in which the crates are generated must not vary between runs)
    'v1': {'geo/src/lib.rs': '#[typeshare]\npub struct Point { #[typeshare(typescript(type = "Date"))] pub at: String, pub x: u32, pub y: u32 }\n#[typeshare]\npub struct Extra { pub e: String }\n',
           'app/src/lib.rs': 'use geo::Point;\n#[typeshare]\npub struct Holder { #[typeshare(typescript(type = "Date"))] pub when: String, pub p: Point, pub u: () }\n'},
    # same byte length as v1: Point -> Coord
    'v2': {'geo/src/lib.rs': '#[typeshare]\npub struct Coord { #[typeshare(typescript(type = "Date"))] pub at: String, pub x: u32, pub y: u32 }\n#[typeshare]\npub struct Extra { pub e: String }\n',
           'app/src/lib.rs': 'use geo::Coord;\n#[typeshare]\npub struct Holder { #[typeshare(typescript(type = "Date"))] pub when: String, pub p: Coord, pub u: () }\n'},
    # type removed: shorter output
    'v3': {'geo/src/lib.rs': '#[typeshare]\npub struct Point { pub x: u32, pub y: u32 }\n',
           'app/src/lib.rs': 'use geo::Point;\n#[typeshare]\npub struct Holder { pub p: Point }\n'},
}
# an earlier tree had a crate named `codable`: in Swift folder mode its module file is Codable.swift, the very file that later
# has to hold CodableVoid
# v1 plus one more type per crate, emitted last: the v1 output is a proper prefix of the v5 output (a comparison that only looks at
# the first len(new) bytes of the old file would keep the stale tail on the v5 -> v1 transition)
VERSIONS['v5'] = {'geo/src/lib.rs': VERSIONS['v1']['geo/src/lib.rs'] + '#[typeshare]\npub struct Zeta { pub z: u32 }\n',
                  'app/src/lib.rs': VERSIONS['v1']['app/src/lib.rs'] + '#[typeshare]\npub struct Zeta2 { pub z: u32 }\n'}
VERSIONS['v4'] = {'codable/src/lib.rs': '#[typeshare]\npub struct Packet { pub n: u32 }\n',
                  'app/src/lib.rs': '#[typeshare]\npub struct Holder { pub n: u32 }\n'}
RUN_LANGS = [('typescript', 'ts'), ('kotlin', 'kt'), ('swift', 'swift')]


def gen(exe, lang, ext, mode, src, out):
    args = ['--lang', lang]
    if lang == 'kotlin':
        args += ['--java-package', 'com.x']
    args += (['--output-file', os.path.join(out, 'out.' + ext)] if mode == 'file' else ['--output-folder', out])
    return run(exe, args + [src], cwd=src)


def runs_case(exe, lang, ext, mode, seq):
    """-> None or message"""
    top = tempfile.mkdtemp(prefix='clirun-', dir=WORK)
    try:
        fresh = {}
        for v in set(seq):
            s, o = os.path.join(top, 'src_' + v), os.path.join(top, 'fresh_' + v)
            tree(s, VERSIONS[v]); os.makedirs(o)
            rc, out = gen(exe, lang, ext, mode, s, o)
            if rc != 0:
                return 'run over %s into an empty location failed: rc=%s %s' % (v, rc, out[-200:])
            fresh[v] = snapshot(o)
        o = os.path.join(top, 'out'); os.makedirs(o)
        prev, before = None, None
        for k, v in enumerate(seq):
            before = snapshot(o)
            time.sleep(0.012)
            rc, out = gen(exe, lang, ext, mode, os.path.join(top, 'src_' + v), o)
            if rc != 0:
                return 'step %d (%s): rc=%s %s' % (k, v, rc, out[-200:])
            after = snapshot(o)
            for rel, (content, _) in fresh[v].items():
                if rel not in after or after[rel][0] != content:
                    return ('step %d: after the run over %s, %s differs from what a run into an empty location produces '
                            '(earlier output leaks in / stale content kept)' % (k, v, rel))
            if prev == v:
                for rel, (content, mt) in before.items():
                    if rel in after and after[rel][1] != mt:
                        return 'step %d: sources unchanged (%s again) but %s was rewritten (modification time changed)' % (k, v, rel)
            prev = v
        return None
    finally:
        shutil.rmtree(top, ignore_errors=True)


def scenario_runs(exe, mode_arg, payload):
    """C17 bound: all sequences of 1..2 runs over 5 and of 3 runs over 3 source-tree versions (rename of equal length, type removed, crate
    named `codable` replaced, last-emitted type removed so that the new output is a prefix of the old) x {single file,
    output folder} x {typescript, kotlin, swift}; after every run each file the run wrote is compared with a run into an empty
    location; an immediately repeated run must leave every modification time unchanged."""
    if mode_arg == 'check':
        m = runs_case(exe, payload['lang'], payload['ext'], payload['mode'], payload['sequence'])
        if m:
            witness(payload, m)
        print('input passes'); return
    n = 0
    for (lang, ext) in RUN_LANGS:
        for mode in ('file', 'folder'):
            for ln in (1, 2, 3):
                for seq in itertools.product(sorted(VERSIONS) if (ln < 3 or os.environ.get('VERIF_TIER') == 'thorough') else ['v1', 'v2', 'v3'], repeat=ln):
                    n += 1
                    m = runs_case(exe, lang, ext, mode, list(seq))
                    if m:
                        witness({'lang': lang, 'ext': ext, 'mode': mode, 'sequence': list(seq)}, m)
    print('no failing input among %d run sequences (<=2 runs over 5 versions, 3 runs over 3 versions; 2 output modes, 3 languages)' % n)


# ------------------------------------------------------------------------------------------------ C20: configuration
SRC_CFG = {'c/src/lib.rs': '#[typeshare]\npub struct Foo { pub a: u32, pub d: DateTime }\n'}


def config_case(exe, case):
    """case: dict(cli: None|'' |'Cli', file: None|'File', anc: None|'Anc', use_c: bool, lang)"""
    top = tempfile.mkdtemp(prefix='clirun-', dir=WORK)
    try:
        src = os.path.join(top, 'ws', 'proj'); tree(src, SRC_CFG)
        lang = case['lang']
        key = {'swift': ('swift', 'prefix'), 'kotlin': ('kotlin', 'prefix')}[lang]
        def toml(prefix, mapped):
            return '[%s]\n%s = "%s"\n\n[%s.type_mappings]\n"DateTime" = "%s"\n' % (key[0], key[1], prefix, key[0], mapped)
        args = ['--lang', lang] + (['--java-package', 'com.x'] if lang == 'kotlin' else [])
        expect_prefix, expect_map = '', None
        if case.get('outer'):
            # a second typeshare.toml further up the ancestor chain: the NEAREST one must win
            with open(os.path.join(top, 'typeshare.toml'), 'w') as f:
                f.write(toml('Outer', 'OuterDate'))
            expect_prefix, expect_map = 'Outer', 'OuterDate'
        if case['anc']:
            with open(os.path.join(top, 'ws', 'typeshare.toml'), 'w') as f:
                f.write(toml('Anc', 'AncDate'))
            expect_prefix, expect_map = 'Anc', 'AncDate'
        if case['file']:
            cf = os.path.join(top, 'given.toml')
            with open(cf, 'w') as f:
                f.write(toml('File', 'FileDate'))
            if case['use_c']:
                args += ['--config-file', cf]
                expect_prefix, expect_map = 'File', 'FileDate'
        if case['cli'] is not None:
            args += ['--%s-prefix' % lang, case['cli']]
            expect_prefix = case['cli']
        out = os.path.join(top, 'out.txt')
        rc, o = run(exe, args + ['--output-file', out, src], cwd=src)
        if rc != 0:
            return 'rc=%s %s' % (rc, o[-300:])
        text = open(out).read()
        want = expect_prefix + 'Foo'
        decl = {'swift': 'struct %s' % want, 'kotlin': 'data class %s' % want}[lang]
        if decl not in text:
            return 'generated type is not named %r (command line value when given, else the file given with -c, else the discovered file, else default)' % want
        if expect_map and expect_map not in text:
            return 'type mapping from the effective configuration file (%s) was not applied' % expect_map
        return None
    finally:
        shutil.rmtree(top, ignore_errors=True)


def genconfig_case(exe, lang):
    top = tempfile.mkdtemp(prefix='clirun-', dir=WORK)
    try:
        src = os.path.join(top, 'proj'); tree(src, SRC_CFG)
        cf = os.path.join(top, 'gen.toml')
        pre = ['--lang', lang, '--%s-prefix' % lang, 'Gen'] + (['--java-package', 'com.g'] if lang == 'kotlin' else [])
        rc, o = run(exe, pre + ['--generate-config', '--config-file', cf, src], cwd=src)
        if rc != 0 or not os.path.exists(cf):
            return '-g failed: rc=%s %s' % (rc, o[-200:])
        first = open(cf).read()
        rc2, o2 = run(exe, ['--lang', lang, '--%s-prefix' % lang, 'Other', '--generate-config', '--config-file', cf, src], cwd=src)
        if open(cf).read() != first:
            return '-g overwrote an existing configuration file'
        out = os.path.join(top, 'o.txt')
        rc3, o3 = run(exe, ['--lang', lang, '--config-file', cf, '--output-file', out, src] + (['--java-package', 'com.g'] if lang == 'kotlin' else []), cwd=src)
        if rc3 != 0:
            return 'reload of generated config failed: %s' % o3[-200:]
        if 'GenFoo' not in open(out).read():
            return 'a configuration written by -g does not reload to the same effective settings (prefix Gen lost)'
        return None
    finally:
        shutil.rmtree(top, ignore_errors=True)


def scala_package_case(exe, where):
    """the Scala package comes from --scala-package, else [scala] package in the file, else it is missing (an error) - never from another language's setting"""
    top = tempfile.mkdtemp(prefix='clirun-', dir=WORK)
    try:
        src = os.path.join(top, 'proj'); tree(src, {'c/src/lib.rs': '#[typeshare]\npub struct Foo { pub a: u32 }\n'})
        cf = os.path.join(top, 'given.toml')
        args = ['--lang', 'scala']
        if where == 'kotlin_file_only':
            open(cf, 'w').write('[kotlin]\npackage = "kot.pkg"\n'); args += ['--config-file', cf]
        elif where == 'java_package_option':
            args += ['--java-package', 'kot.pkg']
        elif where == 'scala_file':
            open(cf, 'w').write('[kotlin]\npackage = "kot.pkg"\n\n[scala]\npackage = "sc.pkg"\n'); args += ['--config-file', cf]
        elif where == 'scala_option':
            open(cf, 'w').write('[scala]\npackage = "file.pkg"\n'); args += ['--config-file', cf, '--scala-package', 'cli.pkg']
        out = os.path.join(top, 'o.scala')
        rc, o = run(exe, args + ['--output-file', out, src], cwd=src)
        text = open(out).read() if os.path.exists(out) else ''
        if where in ('kotlin_file_only', 'java_package_option'):
            if rc == 0 or 'kot' in text:
                return 'Scala generation used the Kotlin package although no Scala package was given (rc=%s)' % rc
        elif where == 'scala_file':
            if rc != 0 or 'package sc' not in text:
                return 'the [scala] package of the configuration file was not used (rc=%s)' % rc
        elif where == 'scala_option':
            if rc != 0 or 'package cli' not in text:
                return '--scala-package did not override the file value (rc=%s)' % rc
        return None
    finally:
        shutil.rmtree(top, ignore_errors=True)


def genconfig_empty_case(exe):
    """-g must not overwrite an existing file, an empty one included (an empty typeshare.toml is a valid all-defaults configuration)"""
    top = tempfile.mkdtemp(prefix='clirun-', dir=WORK)
    try:
        src = os.path.join(top, 'proj'); tree(src, SRC_CFG)
        cf = os.path.join(top, 'empty.toml'); open(cf, 'w').close()
        run(exe, ['--lang', 'swift', '--swift-prefix', 'Other', '--generate-config', '--config-file', cf, src], cwd=src)
        if os.path.getsize(cf) != 0:
            return '-g overwrote an existing (empty) configuration file'
        return None
    finally:
        shutil.rmtree(top, ignore_errors=True)


def scenario_config(exe, mode_arg, payload):
    """C20 bound: {option absent, empty, given} x {-c file absent, present} x {ancestor typeshare.toml absent, present} x {a second
    typeshare.toml further up absent, present} x {swift, kotlin}
    observed through the generated type name and an applied type mapping; plus -g round trip, -g never overwriting (an empty existing
    file included), and the Scala package taken from --scala-package / [scala] only."""
    cases = []
    for lang in ('swift', 'kotlin'):
        for cli in (None, '', 'Cli'):
            for file_ in (None, 'File'):
                for anc in (None, 'Anc'):
                    for outer in (False, True):
                        cases.append({'lang': lang, 'cli': cli, 'file': file_, 'anc': anc, 'outer': outer, 'use_c': bool(file_)})
    if mode_arg == 'check':
        if payload.get('scala_package'):
            m = scala_package_case(exe, payload['scala_package'])
        elif payload.get('genconfig_empty'):
            m = genconfig_empty_case(exe)
        else:
            m = genconfig_case(exe, payload['lang']) if payload.get('genconfig') else config_case(exe, payload)
        if m:
            witness(payload, m)
        print('input passes'); return
    for c in cases:
        m = config_case(exe, c)
        if m:
            witness(c, m)
    for lang in ('swift', 'kotlin'):
        m = genconfig_case(exe, lang)
        if m:
            witness({'genconfig': True, 'lang': lang}, m)
    for where in ('kotlin_file_only', 'java_package_option', 'scala_file', 'scala_option'):
        m = scala_package_case(exe, where)
        if m:
            witness({'scala_package': where}, m)
    m = genconfig_empty_case(exe)
    if m:
        witness({'genconfig_empty': True}, m)
    print('no failing input among %d option/file/ancestor combinations + 2 generate-config round trips + 4 Scala package sources + empty-file -g' % len(cases))


# ------------------------------------------------------------------------------------------------ C06: fresh processes
SRC_DET = {
    'a/src/lib.rs': '#[typeshare]\npub struct PairOf<Left, Right, Third> { pub l: Left, pub r: Right, pub t: Third }\n',
    'a/src/m.rs': '#[typeshare]\npub struct Wrap<Elem, Key> { pub e: Vec<Elem>, pub k: Option<Key> }\n#[typeshare]\n#[serde(tag = "t", content = "c")]\npub enum Ev<Payload> { A(Payload), B { x: u32 } }\n',
    # wildcard next to an explicit import of the same crate (the expansion must not depend on hash iteration order)
    'b/src/lib.rs': 'use a::*;\nuse a::Wrap;\n#[typeshare]\npub struct User { pub w: Wrap<u32, String>, pub d: std::collections::HashMap<String, u32>, pub p: PairOf<u32, u32, u32> }\n#[typeshare]\npub type Id = String;\n',
    # two files of one crate import same-named types from two different crates
    'c/src/lib.rs': '#[typeshare]\npub struct Shared { pub c: u32 }\n',
    'd/src/lib.rs': '#[typeshare]\npub struct Shared { pub d: u32 }\n',
    'b/src/s1.rs': 'use c::Shared;\n#[typeshare]\npub struct ViaC { pub s: Shared, #[typeshare(typescript(type = "Date"))] pub at: String }\n',
    'b/src/s2.rs': 'use d::Shared;\n#[typeshare]\npub struct ViaD { pub s: Shared, #[typeshare(typescript(type = "Date"))] pub at: String }\n',
    # ONE file that names the same type under two crates (a `use` and a path in code that is not typeshared), and a name reached through a
    # facade crate that two other crates define: which crate the import comes from must not depend on hash order
    'e/src/lib.rs': 'use c::Shared;\npub fn not_shared(x: d::Shared) {}\n#[typeshare]\npub struct App { pub s: Shared }\n',
    'f/src/lib.rs': 'use facade::Shared;\n#[typeshare]\npub struct ViaFacade { pub s: Shared }\n',
}
SRC_DET_CONSTS = {'a/src/k1.rs': '#[typeshare]\npub const ALPHA: u32 = 1;\n', 'a/src/k2.rs': '#[typeshare]\npub const BETA: u32 = 2;\n'}
DET_LANGS = [('typescript', 'ts'), ('kotlin', 'kt'), ('swift', 'swift'), ('python', 'py'), ('go', 'go')]


def scenario_determinism(exe, mode_arg, payload):
    """C06 bound: 8 fresh processes (fresh hash seeds, default walker threads) per (language, output mode) over an 11-file, 6-crate tree with
    generics, consts, an algebraic enum, a wildcard import, same-named imports from two crates (in two files, in one file, through a facade crate); all runs of one configuration must produce byte-identical files."""
    top = tempfile.mkdtemp(prefix='clirun-', dir=WORK)
    try:
        # single-file mode merges every crate into one output: two types named `Shared` there are the recorded finding
        # kf-duplicate-names (arrival order), so the same-named pair is only part of the one-module-per-crate runs
        single = {k: v for k, v in SRC_DET.items() if k.split('/')[0] not in ('c', 'd', 'e', 'f') and k not in ('b/src/s1.rs', 'b/src/s2.rs')}
        src = {'folder': os.path.join(top, 'src'), 'file': os.path.join(top, 'src1')}
        srck = {'folder': os.path.join(top, 'srck'), 'file': os.path.join(top, 'srck1')}
        tree(src['folder'], SRC_DET); tree(src['file'], single)
        tree(srck['folder'], dict(SRC_DET, **SRC_DET_CONSTS)); tree(srck['file'], dict(single, **SRC_DET_CONSTS))
        n = 0
        combos = [(l, e, m) for (l, e) in DET_LANGS for m in ('file', 'folder')]
        if mode_arg == 'check':
            combos = [(payload['lang'], payload['ext'], payload['mode'])]
        for (lang, ext, mode) in combos:
            if lang in ('go', 'python') and mode == 'folder':
                continue
            base = None
            for k in range(8):
                o = os.path.join(top, 'o_%s_%s_%d' % (lang, mode, k)); os.makedirs(o)
                args = ['--lang', lang] + (['--java-package', 'com.x'] if lang == 'kotlin' else []) + (['--go-package', 'p'] if lang == 'go' else [])
                args += (['--output-file', os.path.join(o, 'out.' + ext)] if mode == 'file' else ['--output-folder', o])
                use = (srck if lang in ('typescript', 'python', 'go') else src)[mode]   # Kotlin / Swift report consts as unsupported
                rc, out = run(exe, args + [use], cwd=use)
                n += 1
                if rc != 0:
                    witness({'lang': lang, 'ext': ext, 'mode': mode}, 'run %d failed: rc=%s %s' % (k, rc, out[-200:]))
                snap = {k2: v[0] for k2, v in snapshot(o).items()}
                if base is None:
                    base = snap
                elif snap != base:
                    diff = [k2 for k2 in snap if snap.get(k2) != base.get(k2)]
                    witness({'lang': lang, 'ext': ext, 'mode': mode}, 'process %d produced different bytes than process 0 for %s (same sources, configuration and options)' % (k, diff))
        print('input passes' if mode_arg == 'check' else 'no failing input among %d fresh-process runs (5 languages, 2 output modes, 8 processes each)' % n)
    finally:
        shutil.rmtree(top, ignore_errors=True)


# ------------------------------------------------------------------------------------------------ C07: edge inputs
ROBUST = {
    'wellformed_decorators': '#[typeshare]\npub struct A { #[typeshare(typescript(readonly))] pub a: u32, #[typeshare(typescript(type = "any"))] pub b: u32 }\n',
    'malformed_decorator_string': '#[typeshare]\npub struct A { #[typeshare(typescript("readonly"))] pub a: u32 }\n',
    'malformed_decorator_commas': '#[typeshare]\npub struct A { #[typeshare(typescript(readonly,, x))] pub a: u32 }\n',
    'malformed_decorator_eq': '#[typeshare]\npub struct A { #[typeshare(kotlin(= "Int"))] pub a: u32 }\n',
    'non_ascii_snake': '#[typeshare]\n#[serde(rename_all = "snake_case")]\npub enum E { GrandeÉcole, ÉtatMajor }\n',
    'non_ascii_camel': '#[typeshare]\n#[serde(rename_all = "camelCase")]\npub struct S { pub étage_un: u32, pub __: u32 }\n',
    'underscore_only': '#[typeshare]\n#[serde(rename_all = "PascalCase")]\npub struct S { pub __: u32, pub _1: u32 }\n',
    'unparsable': 'this is not rust #[typeshare] struct {{{\n',
    'unsupported_type': '#[typeshare]\npub struct S { pub a: u64 }\n',
    'nested_unknown_list': '#[typeshare(foo = "bar")]\npub struct S { pub a: u32 }\n',
    'deep_cfg': '#[typeshare]\npub struct S { #[cfg(not(any(all(target_os = "a", not(target_os = "b")), feature = "f")))] pub a: u32 }\n',
    'self_reference': '#[typeshare]\npub struct S { pub next: Option<Box<S>>, pub all: Vec<S> }\n',
    'mutual_reference': '#[typeshare]\npub struct A { pub b: Vec<B>, pub c: Option<Box<B>> }\n#[typeshare]\npub struct B { pub a: Option<Box<A>>, pub d: Vec<A> }\n',
    'binary_tree': '#[typeshare]\npub struct TreeNode { pub left: Option<Box<TreeNode>>, pub right: Option<Box<TreeNode>>, pub v: u32 }\n',
    # inputs that made the pinned tree panic (and, from a walker thread, hang); repaired by fix: commits, kept as regression inputs
    'empty_tuple_struct': '#[typeshare]\npub struct A();\n',
    'empty_tuple_variant': '#[typeshare]\n#[serde(tag = "t", content = "c")]\npub enum E { V(), W(u32) }\n',
    'bare_vec': '#[typeshare]\npub struct S { pub v: Vec }\n',
    'bare_option': '#[typeshare]\npub struct S { pub v: Option }\n',
    'bare_hashmap': '#[typeshare]\npub struct S { pub v: HashMap<String> }\n',
    'bare_box': '#[typeshare]\npub struct S { pub v: Box }\n',
    'const_item': '#[typeshare]\npub const K: u32 = 1;\n',
    'unknown_nested_list': '#[typeshare]\npub struct S { #[typeshare(foo(bar))] pub a: u32 }\n',
    'alias_param_named_like_type': '#[typeshare]\npub type A<T> = Vec<T>;\n#[typeshare]\npub type T<A> = Vec<A>;\n',
    'glob_use_root': 'use *;\nuse other::*;\n#[typeshare]\npub struct S { pub a: u32 }\n',
    'non_ascii_type_names': '#[typeshare]\n#[serde(tag = "t", content = "c")]\npub enum Éa { V(u32), W { x: u32 }, É }\n#[typeshare]\npub struct Ñame { pub ß: u32 }\n#[typeshare]\npub enum Ünit { Ä, Ö }\n#[typeshare]\npub type Ålias = Vec<Ñame>;\n',
    # every container shape as the payload of a tuple variant (back ends format these through other paths than struct fields)
    'container_payloads': '#[typeshare]\n#[serde(tag = "t", content = "c")]\npub enum E<T> { A(HashMap<Vec<u8>, u32>), B(HashMap<String, Vec<Option<u32>>>), C([u8; 4]), D(&\'static [u32]), F(Option<Option<u32>>), G(()), H(HashMap<HashMap<String, u32>, u32>), I(Vec<T>), J(HashMap<T, u32>), K(Option<Vec<u8>>), L(Box<E<T>>), M(char), N(I54), O(f32) }\n',
    'container_fields': '#[typeshare]\npub struct S<T> { pub a: HashMap<Vec<u8>, u32>, pub c: [u8; 4], pub d: &\'static [u32], pub f: Option<Option<u32>>, pub g: (), pub h: HashMap<HashMap<String, u32>, u32>, pub i: Vec<T>, pub j: HashMap<T, u32>, pub k: Option<Vec<u8>>, pub m: char }\n#[typeshare]\npub type Al<T> = HashMap<Vec<T>, Option<()>>;\n',
    'bare_use': 'use krate;\nuse other::Thing;\n#[typeshare]\npub struct S { pub a: u32 }\n',
}
ROBUST_MUST_DEFINE = {'const_item': ['K']}
ROBUST_LANGS = ['typescript', 'kotlin', 'swift', 'python', 'go', 'scala', 'scala-nopackage', 'typescript-folder', 'kotlin-folder']


def robust_case(exe, name, lang):
    os.makedirs(WORK, exist_ok=True)
    top = tempfile.mkdtemp(prefix='clirun-', dir=WORK)
    try:
        src = os.path.join(top, 'src')
        if name == 'many_files':
            # more per-file results than the collector channel holds (100): the walk must still terminate
            tree(src, {'c/src/m%03d.rs' % i: '#[typeshare]\npub struct S%03d { pub a: u32 }\n' % i for i in range(150)})
        elif name == 'broken_among_many':
            # one unparsable file among many: the collector stops at the first error while other walker threads still deliver results
            files = {'k%d/src/m%02d.rs' % (i % 8, i): '#[typeshare]\npub struct T%03d { pub a: u32, pub b: Vec<String> }\n' % i for i in range(120)}
            files['k3/src/broken.rs'] = '#[typeshare]\npub struct Half { pub a: u32 }\npub fn oops( {\n'
            tree(src, files)
        else:
            tree(src, {'c/src/lib.rs': ROBUST[name]})
        base = lang.split('-')[0]
        args = ['--lang', base, '--target-os', 'a'] + (['--java-package', 'com.x'] if base == 'kotlin' else []) + (['--go-package', 'p'] if base == 'go' else [])
        args += (['--scala-package', 'com.x'] if lang == 'scala' else [])
        if lang.endswith('-folder'):
            os.makedirs(os.path.join(top, 'outdir'))
            args += ['--output-folder', os.path.join(top, 'outdir')]
        else:
            args += ['--output-file', os.path.join(top, 'out.txt')]
        rc, out = run(exe, args + [src], cwd=src, timeout=15)
        if rc == 'timeout':
            return 'the tool did not terminate within 15 s (hang / spin)'
        if 'panicked at' in out or rc not in (0, 1):
            return 'the tool panicked / aborted (rc=%s): %s' % (rc, out.strip()[-200:])
        if rc != 0 and not out.strip():
            return 'non-zero exit without any diagnostic'
        if rc == 0 and name in ROBUST_MUST_DEFINE:
            # C03: an annotated item that cannot be generated must be reported, not silently left out
            outp = os.path.join(top, 'outdir') if lang.endswith('-folder') else os.path.join(top, 'out.txt')
            text = ''.join(open(os.path.join(b, f)).read() for b, _, fs in os.walk(outp) for f in fs) if os.path.isdir(outp) else (open(outp).read() if os.path.exists(outp) else '')
            for item in ROBUST_MUST_DEFINE[name]:
                if item not in text:
                    return 'the run succeeded but the annotated item `%s` is missing from the output (silently omitted)' % item
        return None
    finally:
        shutil.rmtree(top, ignore_errors=True)


def scenario_robust(exe, mode_arg, payload):
    """C07 bound: 29 edge inputs (malformed nested typeshare lists, non-ASCII and underscore-only identifiers under rename_all, unparsable
    text, unsupported types, deep cfg nesting, self / mutual references, empty tuple structs / variants, containers without arguments,
    unknown nested typeshare(...) lists, a bare `use krate;` / `use *;`, a const, non-ASCII type names, every container shape as variant payload / field / alias target) x 9 language / output-mode configurations (incl. Scala with and
    without a package) + a tree of 150 annotated files + (8 times) a tree of 120 files in 8 crates with one unparsable file among them, each run with a 15 s time limit: the tool must exit 0, or non-zero with a
    diagnostic; it must never panic, abort or hang."""
    if mode_arg == 'check':
        m = stdout_pipe_case(exe) if payload['input_name'] == 'stdout_pipe' else robust_case(exe, payload['input_name'], payload['lang'])
        if m:
            witness(payload, m)
        print('input passes'); return
    n = 0
    for name in sorted(ROBUST) + ['many_files'] + ['broken_among_many'] * 4:
        for lang in ROBUST_LANGS:
            if name in ('many_files', 'broken_among_many') and lang not in ('typescript', 'kotlin-folder'):
                continue
            n += 1
            m = robust_case(exe, name, lang)
            if m:
                witness({'input_name': name, 'lang': lang, 'source': ROBUST.get(name, '150 files, one annotated struct each')}, m)
    m = stdout_pipe_case(exe)
    if m:
        witness({'input_name': 'stdout_pipe'}, 'the tool did not terminate: ' + m)
    print('no failing input among %d (edge input, language) runs + output to a pipe' % n)


# ------------------------------------------------------------------------------------------------ C08: unsupported constructs
# the property's list of documented-unsupported constructs; {X} = the construct's type text where it is a type
BAD_TYPES = ['u64', 'i64', 'usize', 'isize', '(u32, String)']
TYPE_NESTS = ['{X}', 'Vec<{X}>', 'Option<Vec<Option<{X}>>>', 'HashMap<String, {X}>', 'Box<{X}>', '[{X}; 3]', "&'static [{X}]", 'Option<HashMap<String, Vec<{X}>>>',
              'Vec<Option<HashMap<String, Box<Vec<{X}>>>>>', 'Wrapper<{X}>', 'Vec<Wrapper<Option<{X}>>>']
ENUM_HEAD = '#[typeshare]\n#[serde(tag = "t", content = "c")]\n'


def unsupported_cases():
    """-> [(name, bad source, repaired source or None)]: the repaired source moves the construct under serde(skip) / typeshare(skip)"""
    out = []
    for bt in BAD_TYPES:
        for k, nest in enumerate(TYPE_NESTS):
            if k > 0 and bt not in ('u64', '(u32, String)', 'isize') and os.environ.get('VERIF_TIER') != 'thorough':
                continue          # every 64-bit name alone; the nestings with three of the constructs (thorough tier: all of them)
            ty = nest.replace('{X}', bt)
            tag = '%s@%d' % (bt, k)
            for skip in ('#[serde(skip)]', '#[typeshare(skip)]'):
                sk = 'serde' if 'serde' in skip else 'typeshare'
                out.append(('field:%s:%s' % (tag, sk), '#[typeshare]\npub struct S { pub ok: u32, pub bad: %s }\n' % ty,
                            '#[typeshare]\npub struct S { pub ok: u32, %s pub bad: %s }\n' % (skip, ty)))
                out.append(('variant_field:%s:%s' % (tag, sk), ENUM_HEAD + 'pub enum E { A { ok: u32, bad: %s }, B(u32) }\n' % ty,
                            ENUM_HEAD + 'pub enum E { A { ok: u32, %s bad: %s }, B(u32) }\n' % (skip, ty)))
                out.append(('variant_payload:%s:%s' % (tag, sk), ENUM_HEAD + 'pub enum E { A(%s), B(u32) }\n' % ty,
                            ENUM_HEAD + 'pub enum E { %s A(%s), B(u32) }\n' % (skip, ty)))
            out.append(('alias:%s' % tag, '#[typeshare]\npub type A = %s;\n' % ty, None))
            out.append(('newtype:%s' % tag, '#[typeshare]\npub struct N(%s);\n' % ty, None))
            out.append(('serialized_as_field:%s' % tag, '#[typeshare]\npub struct S { #[typeshare(serialized_as = "%s")] pub bad: Foo }\n' % ty,
                        '#[typeshare]\npub struct S { pub ok: u32, #[typeshare(skip)] #[typeshare(serialized_as = "%s")] pub bad: Foo }\n' % ty))
            out.append(('serialized_as_item:%s' % tag, '#[typeshare(serialized_as = "%s")]\npub struct S { pub a: u32 }\n' % ty, None))
            out.append(('serialized_as_alias:%s' % tag, '#[typeshare(serialized_as = "%s")]\npub type A = Foo;\n' % ty, None))
    # tuple structs / variants with several fields
    out.append(('tuple_struct_2', '#[typeshare]\npub struct S(u32, u32);\n', None))
    out.append(('tuple_struct_3', '#[typeshare]\npub struct S(u32, String, bool);\n', None))
    for skip in ('#[serde(skip)]', '#[typeshare(skip)]'):
        out.append(('tuple_variant_2:' + skip, ENUM_HEAD + 'pub enum E { A(u32, u32), B(u32) }\n', ENUM_HEAD + 'pub enum E { %s A(u32, u32), B(u32) }\n' % skip))
    # serde(flatten)
    for skip in ('#[serde(skip)]', '#[typeshare(skip)]'):
        out.append(('flatten_field:' + skip, '#[typeshare]\npub struct S { pub ok: u32, #[serde(flatten)] pub rest: T }\n',
                    '#[typeshare]\npub struct S { pub ok: u32, %s #[serde(flatten)] pub rest: T }\n' % skip))
        out.append(('flatten_variant_field:' + skip, ENUM_HEAD + 'pub enum E { A { ok: u32, #[serde(flatten)] rest: T }, B(u32) }\n',
                    ENUM_HEAD + 'pub enum E { A { ok: u32, %s #[serde(flatten)] rest: T }, B(u32) }\n' % skip))
    out.append(('flatten_combined_attr', '#[typeshare]\npub struct S { pub ok: u32, #[serde(default, flatten)] pub rest: T }\n', None))
    # data-carrying enum without both tag and content
    out.append(('data_enum_no_tag_content', '#[typeshare]\npub enum E { A(u32), B }\n', None))
    out.append(('data_enum_tag_only', '#[typeshare]\n#[serde(tag = "t")]\npub enum E { A(u32), B }\n', None))
    out.append(('data_enum_content_only', '#[typeshare]\n#[serde(content = "c")]\npub enum E { A { x: u32 }, B }\n', None))
    out.append(('data_enum_struct_variant_no_tag', '#[typeshare]\npub enum E { A { x: u32 } }\n', None))
    # tag / content on a unit enum
    out.append(('unit_enum_tag_content', '#[typeshare]\n#[serde(tag = "t", content = "c")]\npub enum E { A, B }\n', None))
    out.append(('unit_enum_tag', '#[typeshare]\n#[serde(tag = "t")]\npub enum E { A, B }\n', None))
    out.append(('unit_enum_content', '#[typeshare]\n#[serde(content = "c")]\npub enum E { A, B }\n', None))
    # a const that is not an integer literal
    for k, e in enumerate(['"x"', '1.5', 'true', "'c'", 'OTHER', '1 + 2', 'foo(3)', '1 as u32', '{ 5 }', 'u32::MAX', 'OTHER * 2', 'if true { 1 } else { 2 }', '!0', 'S { a: 1 }.a', '[1, 2][0]']):
        out.append(('const_%d' % k, '#[typeshare]\npub const K: u32 = %s;\n' % e, None))
    return out


# accepted consts must carry their value (a unary minus is part of the number)
CONST_VALUES = [('12', '12'), ('-7', '-7'), ('(3)', '3'), ('0x10', '16'), ('1_000', '1000'), ('5u32', '5')]
UNSUP_LANGS = [('typescript', []), ('kotlin', ['--java-package', 'com.x']), ('swift', []), ('scala', ['--scala-package', 'com.x']), ('go', ['--go-package', 'p']), ('python', [])]
SENTINEL = '// existing output - must survive a failing run\n'


def unsupported_case(exe, name, bad, good, lang, largs, mode):
    """mode: 'file' (fresh output path), 'file-existing' (output file exists), 'folder' (a second, supported crate next to the bad one)"""
    top = tempfile.mkdtemp(prefix='clirun-', dir=WORK)
    try:
        src = os.path.join(top, 'src')
        files = {'bad/src/lib.rs': bad}
        if mode == 'folder':
            files['good/src/lib.rs'] = '#[typeshare]\npub struct Fine { pub a: u32 }\n'
        tree(src, files)
        outp = os.path.join(top, 'outdir' if mode == 'folder' else 'out.txt')
        if mode == 'folder':
            os.makedirs(outp)
            with open(os.path.join(outp, 'keep.txt'), 'w') as f:
                f.write(SENTINEL)
        elif mode == 'file-existing':
            with open(outp, 'w') as f:
                f.write(SENTINEL)
        before = snapshot(outp) if os.path.exists(outp) else {}
        args = ['--lang', lang] + largs + (['--output-folder', outp] if mode == 'folder' else ['--output-file', outp])
        rc, out = run(exe, args + [src], cwd=src, timeout=15)
        if rc == 'timeout':
            return None      # C07's business
        if rc == 0:
            text = ''
            if os.path.isdir(outp):
                text = ''.join(open(os.path.join(b, f)).read() for b, _, fs in os.walk(outp) for f in fs if f != 'keep.txt')
            elif os.path.exists(outp):
                text = open(outp).read()
            return 'the run succeeded (exit 0) on an unsupported construct and generated: %s' % ' '.join(text.split())[-160:]
        if 'panicked at' in out:
            return None      # C07's business
        after = snapshot(outp) if os.path.exists(outp) else {}
        if after != before:
            return 'the run failed (rc=%s) but wrote or modified output: %s' % (rc, sorted(set(after) ^ set(before)) or sorted(k for k in after if after[k] != before.get(k)))
        if not out.strip():
            return 'the run failed without an error message'
        if good is not None:
            tree(src, {'bad/src/lib.rs': good})
            rc2, out2 = run(exe, args + [src], cwd=src, timeout=15)
            if rc2 != 0 and rc2 != 'timeout' and 'panicked at' not in out2:
                return 'with the construct moved under skip the run still fails (rc=%s): %s' % (rc2, ' '.join(out2.split())[-200:])
        return None
    finally:
        shutil.rmtree(top, ignore_errors=True)


def const_value_case(exe, expr, value):
    top = tempfile.mkdtemp(prefix='clirun-', dir=WORK)
    try:
        src = os.path.join(top, 'src')
        tree(src, {'c/src/lib.rs': '#[typeshare]\npub const K: i32 = %s;\n' % expr})
        outp = os.path.join(top, 'out.ts')
        rc, out = run(exe, ['--lang', 'typescript', '--output-file', outp, src], cwd=src, timeout=15)
        if rc == 0:
            text = open(outp).read() if os.path.exists(outp) else ''
            m = re.search(r'K\b[^=]*=\s*([^;\n]+)', text)
            if not m or m.group(1).strip() != value:
                return 'the const `%s` is accepted but generated as `%s` (its value is %s)' % (expr, m.group(1).strip() if m else '<missing>', value)
        return None
    finally:
        shutil.rmtree(top, ignore_errors=True)


def scenario_unsupported(exe, mode_arg, payload):
    """C08 bound: every construct on the property's list (64-bit integers and tuples at 11 nesting shapes (to depth 5, incl. as argument of a user generic) in struct fields, struct-variant
    fields, variant payloads, alias targets, newtypes and through serialized_as on fields / items / aliases; tuple structs and tuple
    variants with several fields; serde(flatten) on struct and struct-variant fields; data-carrying enums lacking tag or content;
    tag / content on unit enums; 15 const initialisers that are not integer literals) x 6 languages, each in one of three output modes
    (fresh file, existing file, folder with a second supported crate; rotated per case, all three for TypeScript; thorough tier: every 64-bit name in
    every nesting shape and every case in all three modes for all languages): exit code non-zero,
    an error message, and the output path absent resp. byte- and mtime-identical; for field- and variant-level constructs the same
    source with the construct under serde(skip) / typeshare(skip) must succeed; accepted const initialisers must carry their value."""
    if mode_arg == 'check':
        if payload.get('const_expr') is not None:
            m = const_value_case(exe, payload['const_expr'], payload['value'])
        else:
            m = unsupported_case(exe, payload['case'], payload['bad'], payload.get('good'), payload['lang'], payload['largs'], payload['mode'])
        if m:
            witness(payload, m)
        print('input passes'); return
    import concurrent.futures as cf
    cases = unsupported_cases()
    jobs = []
    modes = ['file', 'file-existing', 'folder']
    for i, (name, bad, good) in enumerate(cases):
        for j, (lang, largs) in enumerate(UNSUP_LANGS):
            ms = modes if (os.environ.get('VERIF_TIER') == 'thorough' or (lang == 'typescript' and (i % 7 == 0 or not name[0:5] in ('field', 'varia', 'alias', 'newty', 'seria')))) else [modes[(i + j) % 3]]
            for mo in ms:
                jobs.append({'case': name, 'bad': bad, 'good': good, 'lang': lang, 'largs': largs, 'mode': mo})
    def one(job):
        return job, unsupported_case(exe, job['case'], job['bad'], job['good'], job['lang'], job['largs'], job['mode'])
    with cf.ThreadPoolExecutor(max_workers=12) as ex:
        results = list(ex.map(one, jobs))
    if mode_arg == 'list':       # development aid: every failing run, not just the first
        for job, m in results:
            if m:
                print('FAIL', job['case'], job['lang'], job['mode'], '::', m[:150])
    for job, m in results:
        if m:
            witness(job, m)
    for expr, value in CONST_VALUES:
        m = const_value_case(exe, expr, value)
        if m:
            witness({'const_expr': expr, 'value': value}, m)
    print('no failing input among %d (construct, position, language, output mode) runs + %d accepted const initialisers' % (len(jobs), len(CONST_VALUES)))


# ------------------------------------------------------------------------------------------------ C14: one module per crate + imports
MF_A = {
    # one distinct type of crate alpha per kind of reference position, so that losing one position loses one import
    'alpha/src/lib.rs': '#[typeshare]\npub struct Item { pub id: u32 }\n#[typeshare]\npub enum Color { Red, Green }\n#[typeshare]\npub type ItemList = Vec<Item>;\n'
                        '#[typeshare]\npub struct Shade { pub s: u8 }\n#[typeshare]\npub enum Tone { Low, High }\n#[typeshare]\npub struct Hue { pub h: u8 }\n'
                        '#[typeshare]\npub struct Tint { pub t: u8 }\n#[typeshare]\npub struct Gloss { pub g: u8 }\n',
    'alpha/src/more.rs': '#[typeshare]\npub struct Extra { pub item: Item, pub color: Color }\n',
    'beta-gamma/src/lib.rs': 'use alpha::Item;\nuse alpha::{Color, Extra as Ex};\nuse delta::*;\n#[typeshare]\npub struct Holder { pub item: Item, pub colors: Vec<Color>, '
                             'pub d: Option<Deep>, pub own: Own, pub q: alpha::ItemList }\n#[typeshare]\npub struct Own { pub a: u32 }\n',
    'deep/nested/delta/src/sub/mod.rs': 'use beta_gamma::Holder;\nuse std::collections::HashMap;\nuse other_crate::NotShared;\npub mod inner;\n'
                                        '#[typeshare]\npub struct Deep { pub h: HashMap<String, Holder>, pub n: NotShared, pub i: inner::Inner }\n'
                                        '#[typeshare]\npub struct Own2 { pub z: bool }\n'
                                        '#[typeshare]\n#[serde(tag = "t", content = "c")]\npub enum Choice { B { c: alpha::Shade }, C(Own2), D(alpha::Tone) }\n'
                                        '#[typeshare]\npub type Hues = Vec<alpha::Hue>;\n'
                                        '#[typeshare]\npub struct Gen<T> { pub t: T, pub x: Option<HashMap<String, alpha::Tint>> }\n'
                                        '#[typeshare]\npub struct NewT(alpha::Gloss);\n',
    'deep/nested/delta/src/sub/inner.rs': '#[typeshare]\npub struct Inner { pub v: u32 }\n',
    'solo_crate/src/lib.rs': '#[typeshare]\npub struct Lonely { pub a: u32 }\n',
    'no-types/src/lib.rs': 'pub struct NotAnnotated { pub a: u32 }\n',
}
MF_A_TYPES = {'alpha': ['Item', 'Color', 'ItemList', 'Extra', 'Shade', 'Tone', 'Hue', 'Tint', 'Gloss'], 'beta_gamma': ['Holder', 'Own'],
              'delta': ['Deep', 'Own2', 'Choice', 'Hues', 'Gen', 'NewT', 'Inner'], 'solo_crate': ['Lonely']}
# (module, type) -> module it must be imported from (the crate the `use` / path names)
MF_A_USES = {('beta_gamma', 'Item'): 'alpha', ('beta_gamma', 'Color'): 'alpha', ('beta_gamma', 'ItemList'): 'alpha', ('beta_gamma', 'Deep'): 'delta',
             ('delta', 'Holder'): 'beta_gamma', ('delta', 'Shade'): 'alpha', ('delta', 'Tone'): 'alpha', ('delta', 'Hue'): 'alpha', ('delta', 'Tint'): 'alpha',
             ('delta', 'Gloss'): 'alpha'}
MF_B = {
    'alpha/src/lib.rs': '#[typeshare]\npub struct Shared { pub a: u32 }\n#[typeshare]\npub struct OnlyAlpha { pub a: u32 }\n',
    'epsilon/src/lib.rs': '#[typeshare]\npub struct Shared { pub e: String }\n',
    'zeta/src/lib.rs': 'use epsilon::Shared;\nuse alpha::OnlyAlpha;\n#[typeshare]\npub struct UsesEps { pub s: Shared, pub o: OnlyAlpha }\n',
}
MF_B_TYPES = {'alpha': ['Shared', 'OnlyAlpha'], 'epsilon': ['Shared'], 'zeta': ['UsesEps']}
MF_B_USES = {('zeta', 'Shared'): 'epsilon', ('zeta', 'OnlyAlpha'): 'alpha'}
# KNOWN FINDING kf-c14-go-cross-crate-payload: see known_findings.json
MF_KF_GO = {
    'alpha/src/lib.rs': '#[typeshare]\npub struct Item { pub id: u32 }\n',
    'delta/src/lib.rs': '#[typeshare]\n#[serde(tag = "t", content = "c")]\npub enum Choice { A(alpha::Item), B }\n',
}
MF_LANGS = [('typescript', 'ts', []), ('kotlin', 'kt', ['--java-package', 'com.x']), ('swift', 'swift', []), ('scala', 'scala', ['--scala-package', 'com.x']),
            ('go', 'go', ['--go-package', 'p']), ('python', 'py', [])]
MF_DEF = {
    'typescript': r'export (?:interface|type|enum) %s\b', 'kotlin': r'(?:class|typealias|object|interface) %s\b', 'swift': r'(?:struct|enum|typealias|class) %s\b',
    'scala': r'(?:class|type|object|trait) %s\b', 'go': r'(?m)^type %s\b', 'python': r'(?m)^(?:class %s\b|%s = )',
}


def mf_file_name(lang, crate, ext):
    if lang == 'swift':
        return ''.join(w[:1].upper() + w[1:] for w in crate.split('_')) + '.' + ext
    return crate + '.' + ext


def mf_lines(lang, text):
    import collections
    out = []
    for l in text.splitlines():
        t = l.strip()
        if not t or re.match(r'(import |from \S+ import|package |//|/\*|\*|#|"""|Generated by)', t):
            continue
        if lang == 'scala' and (re.match(r'type U(Byte|Short|Int|Long) = ', t) or t in ('{', '}')):
            continue      # the package object with the unsigned aliases is written per module (helpers: C12), not a definition
        if lang == 'python' and re.match(r'\w+ = TypeVar\(', t):
            continue      # helper declarations, not definitions (Python keeps its helper state across the modules of one run: a later module repeats them)
        out.append(t)
    return collections.Counter(out)


def mf_imports(lang, text):
    """-> {(module, name)} named by the import statements of a generated TypeScript / Kotlin module"""
    out = set()
    if lang == 'typescript':
        for m in re.finditer(r'import\s*\{([^}]*)\}\s*from\s*"\./([^"]+)"', text):
            for n in m.group(1).split(','):
                if n.strip():
                    out.add((m.group(2), n.strip()))
    else:
        for m in re.finditer(r'(?m)^import com\.x\.(\w+)\.(\w+)\s*$', text):
            out.add((m.group(1), m.group(2)))
    return out


def multifile_case(exe, corpus, lang, ext, largs):
    files, types, uses = {'A': (MF_A, MF_A_TYPES, MF_A_USES), 'B': (MF_B, MF_B_TYPES, MF_B_USES), 'kf_go': (MF_KF_GO, {'alpha': ['Item'], 'delta': ['Choice']}, {})}[corpus]
    top = tempfile.mkdtemp(prefix='clirun-', dir=WORK)
    try:
        src = os.path.join(top, 'src')
        tree(src, files)
        outd = os.path.join(top, 'out')
        os.makedirs(outd)
        rc, out = run(exe, ['--lang', lang] + largs + ['--output-folder', outd, src], cwd=src, timeout=20)
        if rc != 0:
            return None if (rc == 'timeout' or 'panicked at' in out) else 'folder-output run failed (rc=%s): %s' % (rc, ' '.join(out.split())[-200:])
        got = {f: open(os.path.join(outd, f)).read() for f in os.listdir(outd)}
        want = {mf_file_name(lang, c, ext): c for c in types}
        extra = sorted(set(got) - set(want) - {'Codable.swift'})
        missing = sorted(set(want) - set(got))
        if missing:
            return 'no module file %s for crate(s) with typeshared types (files written: %s)' % (missing, sorted(got))
        if extra:
            return 'unexpected module file(s) %s (a module is named after the directory above `src`, dashes as underscores; crates without typeshared types get none)' % extra
        for fname, crate in want.items():
            for c2, names in types.items():
                for n in names:
                    defined = re.search(MF_DEF[lang].replace('%s', re.escape(n)), got[fname]) is not None
                    if c2 == crate and not defined:
                        return 'type %s of crate %s is not defined in %s' % (n, crate, fname)
                    if c2 != crate and defined and n not in types[crate]:
                        return 'type %s of crate %s is defined in %s (the module of crate %s)' % (n, c2, fname, crate)
        if corpus in ('A', 'kf_go'):
            single = os.path.join(top, 'single.out')
            rc2, out2 = run(exe, ['--lang', lang] + largs + ['--output-file', single, src], cwd=src, timeout=20)
            if rc2 == 0 and os.path.exists(single):
                import collections
                a = mf_lines(lang, open(single).read())
                b = collections.Counter()
                for t in got.values():
                    b += mf_lines(lang, t)
                if a != b:
                    return 'the definitions differ between single-file and folder output: only single-file %s, only folder %s' % (sorted((a - b).elements())[:3], sorted((b - a).elements())[:3])
        if lang in ('typescript', 'kotlin'):
            for fname, crate in want.items():
                imps = mf_imports(lang, got[fname])
                for (m, n) in sorted(imps):
                    if m == crate or m not in types or n not in types[m]:
                        return '%s imports `%s` from module `%s`, which does not define it' % (fname, n, m)
                for (c, n), m in uses.items():
                    if c == crate and (m, n) not in imps:
                        return '%s uses `%s` of crate %s but does not import it from that module (imports: %s)' % (fname, n, m, sorted(imps))
        return None
    finally:
        shutil.rmtree(top, ignore_errors=True)


def scenario_multifile(exe, mode_arg, payload):
    """C14 bound: two source trees (A: 6 crates - a crate name with a dash, a crate whose sources lie in sub-directories three levels below the
    root with a nested module file, a crate without typeshared types, 19 types, references through `use a::X`, `use a::{X, Y as Z}`, `use d::*`,
    qualified paths `a::X` - a different type of crate a in each position: struct field, struct-variant field, tuple-variant payload, alias
    target, nested generic argument, newtype - a path into a module of the own crate, a reference to a type that is not typeshared; B: the same type name defined by two crates and
    used from a third through `use`; plus the source tree of the recorded Go finding for the five other languages) x 6 languages with --output-folder: exactly one module per crate with typeshared types, named after the
    directory above `src` (dashes as underscores, Swift in PascalCase); every type defined in its crate's module and in no other; (A) the
    non-import lines of all modules together equal those of single-file output for the same sources; TypeScript / Kotlin: every import names
    a type its module defines (never the own module), every cross-crate use is imported from the module of the crate the source names."""
    if mode_arg == 'check':
        m = multifile_case(exe, payload['corpus'], payload['lang'], payload['ext'], payload['largs'])
        if m:
            witness(payload, m)
        print('input passes'); return
    n = 0
    for corpus in ('A', 'B', 'kf_go'):
        for (lang, ext, largs) in MF_LANGS:
            if (corpus, lang) == ('kf_go', 'go'):
                continue      # the recorded finding (replayed separately on every run)
            n += 1
            m = multifile_case(exe, corpus, lang, ext, largs)
            if m:
                witness({'corpus': corpus, 'lang': lang, 'ext': ext, 'largs': largs}, m)
    print('no failing input among %d (source tree, language) folder-output runs' % n)


# ------------------------------------------------------------------------------------------------ C10: lexical well-formedness
WF_LANGS = [('typescript', 'ts', []), ('kotlin', 'kt', ['--java-package', 'com.x']), ('swift', 'swift', []), ('scala', 'scala', ['--scala-package', 'com.x']),
            ('go', 'go', ['--go-package', 'p']), ('python', 'py', []), ('scala', 'scala', ['--scala-package', 'x'])]
# identifiers that are keywords in some target, in every position a name can take (field, variant, struct-variant field, type)
WF_EXTRA = {
    'kw_fields': '#[typeshare]\npub struct KwFields { pub r#type: u32, pub r#enum: u32, pub r#struct: u32, pub default: u32, pub class: u32, pub from: u32, pub global: u32, '
                 'pub lambda: u32, pub r#yield: u32, pub import: u32, pub is: u32, pub None: u32, pub protocol: u32, pub func: u32, pub r#where: u32, pub r#let: u32 }\n',
    'kw_variants': '#[typeshare]\npub enum KwUnit { Default, Class, Import, Protocol, Type, None, True, r#Self }\n'
                   '#[typeshare]\n#[serde(tag = "t", content = "c")]\npub enum KwData { Default(u32), Class { r#type: u32, from: String }, Import }\n',
    'kw_renamed': '#[typeshare]\n#[serde(rename_all = "camelCase")]\npub struct KwRen { #[serde(rename = "class")] pub a: u32, #[serde(rename = "default")] pub b: u32, '
                  '#[serde(rename = "in")] pub c: u32, pub r#type: Option<u32> }\n#[typeshare]\n#[serde(rename_all = "lowercase")]\npub enum KwLower { Class, Default, Import, In, Is }\n',
    'docs_nasty': '/// ends with a backslash \\\\\n/// a quote " and a triple """ and */ and /* and // and #\n#[typeshare]\npub struct Doc1 {\n    /// field */ doc /* nested\n    /// ``` code ```\n    pub a: u32,\n}\n'
                  '#[typeshare]\n#[serde(tag = "t", content = "c")]\npub enum Doc2 {\n    /// variant " doc\n    A(u32),\n    /** block\n     doc */\n    B { /// inner\n x: u32 },\n}\n',
    'strings_nasty': '#[typeshare]\npub enum Str2 { #[serde(rename = "x\\"y")] A, #[serde(rename = "back\\\\slash")] B, #[serde(rename = "kebab-name")] C }\n'
                     '#[typeshare]\n#[serde(tag = "t", content = "c")]\npub enum Str3 { #[serde(rename = "q-r")] A(u32), #[serde(rename = "with space")] B }\n'
                     '#[typeshare]\npub struct Str4 { #[serde(rename = "kebab-field")] pub a: u32, #[serde(rename = "dotted.name")] pub b: u32 }\n',
    'generics_nested': '#[typeshare]\npub struct Gen3<A, B> { pub m: HashMap<String, Vec<Option<HashMap<String, Vec<A>>>>>, pub b: Option<Option<B>>, pub arr: [Vec<A>; 3] }\n'
                       '#[typeshare]\n#[serde(tag = "t", content = "c")]\npub enum GenE<T> { A(Vec<T>), B { x: HashMap<String, T> }, C }\n#[typeshare]\npub type GenAl<T> = Vec<HashMap<String, Option<T>>>;\n',
    'decorated': '#[typeshare(kotlin = "JvmInline")]\npub struct UserId(String);\n#[typeshare(kotlin = "JvmInline", redacted)]\npub struct Secret(String);\n'
                 '#[typeshare(swift = "Equatable, Hashable", kotlin = "JvmInline")]\npub struct Wrapped(pub u32);\n#[typeshare(redacted)]\npub struct Hidden { pub a: String }\n'
                 '#[typeshare(swift = "Equatable")]\n#[serde(tag = "t", content = "c")]\npub enum DecE { A(UserId), B { s: Secret } }\n'
                 '#[typeshare]\npub struct User { pub id: UserId, pub name: String, pub email: Option<String> }\n',
    'dates': '#[typeshare]\npub struct Booking { pub room: String, pub at: OffsetDateTime, pub seen: Vec<OffsetDateTime> }\n'
             '#[typeshare]\npub struct Nested { pub occurrences: Vec<OffsetDateTime> }\n#[typeshare]\n#[serde(tag = "t", content = "c")]\npub enum When { At(OffsetDateTime), Never }\n',
    'dates_nested_only': '#[typeshare]\npub struct Nested { pub occurrences: Vec<OffsetDateTime>, pub m: HashMap<String, OffsetDateTime> }\n',
    'empty_things': '#[typeshare]\npub struct Empty {}\n#[typeshare]\npub struct Unit;\n#[typeshare]\n#[serde(tag = "t", content = "c")]\npub enum OneEmpty { A {}, B(u32) }\n',
}
# KNOWN FINDING kf-c10-quote-in-algebraic-variant-rename (known_findings.json): replayed on every run, not part of the search
WF_KF_QUOTE = '#[typeshare]\n#[serde(tag = "t", content = "c")]\npub enum Str3 { #[serde(rename = "q\\"r")] A(u32), B }\n'
SWIFT_RESERVED = ['class', 'struct', 'enum', 'protocol', 'extension', 'func', 'import', 'init', 'deinit', 'let', 'var', 'default', 'case', 'switch', 'where', 'in',
                  'is', 'as', 'for', 'while', 'return', 'self', 'Self', 'Type', 'Protocol', 'Any', 'nil', 'true', 'false', 'static', 'private', 'public', 'internal', 'operator',
                  'subscript', 'typealias', 'associatedtype', 'inout', 'throws', 'throw', 'try', 'catch', 'guard', 'defer', 'do', 'else', 'if', 'break', 'continue', 'fallthrough', 'repeat', 'super']

LEX = {
    # (line comment, block open, block close, nested blocks, string quotes with escapes, raw/multi-line delimiters, char literal quote)
    'typescript': dict(line='//', bo='/*', bc='*/', nest=False, strs=['"', "'", '`'], raw=[], char=None),
    'kotlin': dict(line='//', bo='/*', bc='*/', nest=True, strs=['"'], raw=['"""'], char="'"),
    'swift': dict(line='//', bo='/*', bc='*/', nest=True, strs=['"'], raw=['"""'], char=None),
    'scala': dict(line='//', bo='/*', bc='*/', nest=True, strs=['"'], raw=['"""'], char="'"),
    'go': dict(line='//', bo='/*', bc='*/', nest=False, strs=['"'], raw=['`'], char="'"),
}


def lex_check(lang, text):
    """comments, string / character literals and brackets of a generated file: -> None or what is not closed"""
    L = LEX[lang]
    i, n, stack, line = 0, len(text), [], 1
    while i < n:
        c = text[i]
        if c == '\n':
            line += 1; i += 1; continue
        if text.startswith(L['line'], i):
            j = text.find('\n', i)
            i = n if j < 0 else j
            continue
        if text.startswith(L['bo'], i):
            depth, j = 1, i + 2
            while j < n and depth:
                if text.startswith(L['bc'], j):
                    depth -= 1; j += 2
                elif L['nest'] and text.startswith(L['bo'], j):
                    depth += 1; j += 2
                else:
                    if text[j] == '\n':
                        line += 1
                    j += 1
            if depth:
                return 'a block comment opened in line %d is never closed' % line
            i = j
            continue
        raw = next((r for r in L['raw'] if text.startswith(r, i)), None)
        if raw:
            j = text.find(raw, i + len(raw))
            if j < 0:
                return 'a %s literal opened in line %d is never closed' % (raw, line)
            line += text.count('\n', i, j); i = j + len(raw)
            continue
        if c in L['strs']:
            j = i + 1
            while j < n and text[j] != c:
                if text[j] == '\\':
                    j += 1
                if j < n and text[j] == '\n' and c != '`':
                    return 'a string literal opened in line %d runs over the end of the line' % line
                j += 1
            if j >= n:
                return 'a string literal opened in line %d is never closed' % line
            i = j + 1
            continue
        if L['char'] and c == L['char']:
            m = re.match(r"'(\\.|[^\\'\n])'", text[i:i + 4])
            if m:
                i += len(m.group(0)); continue
            if lang == 'scala' and re.match(r"'[A-Za-z_]", text[i:i + 2]):
                i += 1; continue   # symbol literal
            return 'a character literal in line %d is not closed' % line
        if c in '([{':
            stack.append((c, line))
        elif c in ')]}':
            if not stack or '([{'.index(stack[-1][0]) != ')]}'.index(c):
                return 'a `%s` in line %d closes nothing it could close%s' % (c, line, (' (open: `%s` from line %d)' % stack[-1]) if stack else '')
            stack.pop()
        i += 1
    if stack:
        return 'a `%s` opened in line %d is never closed' % stack[-1]
    return None


def swift_keyword_check(text):
    """a reserved word used as a declared name must be written in backquotes"""
    code = '\n'.join(l for l in text.splitlines() if not l.strip().startswith(('//', '*', '/*')))
    for m in re.finditer(r'\b(let|var|case|struct|enum|class|typealias)[ \t]+([A-Za-z_][A-Za-z0-9_]*)\b', code):
        if m.group(2) in SWIFT_RESERVED and not (m.group(1) == 'case' and m.group(2) == 'let'):
            return 'the reserved word `%s` is declared as a name without backquotes: `%s`' % (m.group(2), m.group(0))
    return None


def node_exe():
    for c in (shutil.which('node'), '/root/.nvm/versions/node/v20.20.2/bin/node'):
        if c and os.path.exists(c):
            return c
    return None


def ts_helper_check(text, top):
    """the executable code typeshare emits for TypeScript - the ReviverFunc / ReplacerFunc helpers - is plain JavaScript inside a typed arrow-function
    head: with the head's annotations removed, node's parser (`node --check`) must accept it (skipped when no node is installed)"""
    node = node_exe()
    if not node:
        return None
    js = []
    for m in re.finditer(r'export const (\w+) = \(key: string, value: unknown\): unknown => \{', text):
        i, depth = m.end(), 1
        while i < len(text) and depth:
            depth += {'{': 1, '}': -1}.get(text[i], 0)
            i += 1
        js.append('const %s = (key, value) => {%s;' % (m.group(1), text[m.end():i]))
    if not js:
        return None
    p = os.path.join(top, 'helpers.js')
    with open(p, 'w') as f:
        f.write('\n'.join(js) + '\n')
    pr = subprocess.run([node, '--check', p], capture_output=True, text=True, timeout=30)
    if pr.returncode != 0:
        err = [l for l in pr.stderr.splitlines() if 'SyntaxError' in l]
        return 'node does not parse the generated helper functions: %s' % ((err[0] if err else pr.stderr.strip()[-120:]))
    return None


def wellformed_inputs():
    out = dict(WF_EXTRA)
    base = os.path.join(REPO, 'core', 'data', 'tests')
    if os.path.isdir(base):
        for d in sorted(os.listdir(base)):
            p = os.path.join(base, d, 'input.rs')
            if os.path.exists(p):
                out['snapshot:' + d] = open(p, encoding='utf-8').read()
    for k in ('self_reference', 'mutual_reference', 'binary_tree', 'container_payloads', 'container_fields', 'non_ascii_type_names', 'const_item', 'wellformed_decorators'):
        out['robust:' + k] = ROBUST[k]
    for k, v in MF_A.items():
        out['mf:' + k] = v
    return out


def wellformed_case(exe, name, source, lang, ext, largs):
    top = tempfile.mkdtemp(prefix='clirun-', dir=WORK)
    try:
        src = os.path.join(top, 'src')
        tree(src, {'c/src/lib.rs': source})
        outp = os.path.join(top, 'out.' + ext)
        rc, out = run(exe, ['--lang', lang] + largs + ['--output-file', outp, src], cwd=src, timeout=20)
        if rc != 0 or not os.path.exists(outp):
            return None       # not a supported input for this language (or C07's business)
        text = open(outp, encoding='utf-8').read()
        if lang == 'python':
            import ast
            try:
                ast.parse(text)
            except SyntaxError as ex:
                return 'CPython does not parse the generated module: %s (line %s: %s)' % (ex.msg, ex.lineno, (ex.text or '').strip()[:80])
            return None
        m = lex_check(lang, text)
        if m:
            return 'the generated %s file is not lexically closed: %s' % (lang, m)
        if lang == 'swift':
            return swift_keyword_check(text)
        if lang == 'typescript':
            return ts_helper_check(text, top)
        return None
    finally:
        shutil.rmtree(top, ignore_errors=True)


def scenario_wellformed(exe, mode_arg, payload):
    """C10 bound: every input of the repository's snapshot corpus (core/data/tests/*/input.rs) + 8 further sources (identifiers that are
    keywords of a target in field / variant / type position, also through serde(rename); doc comments and renamed strings containing quotes,
    backslashes and comment delimiters; deeply nested generics; empty structs and variants) + the sources of other scenarios, for each of the
    6 languages the run accepts (Scala with a dotted and with a one-segment package name): Python - the generated module must be parsed by CPython's own parser (ast.parse, syntax only); TypeScript,
    Kotlin, Swift, Scala, Go - every comment, string and character literal closed and every (, [, { matched (lexers written for this check;
    NOT a parser: declaration grammar is not checked for these five); Swift - no reserved word declared as a name without backquotes."""
    if mode_arg == 'check':
        m = wellformed_case(exe, payload['input_name'], payload['source'], payload['lang'], payload['ext'], payload['largs'])
        if m:
            witness(payload, m)
        print('input passes'); return
    import concurrent.futures as cf
    jobs = [(name, srcx, lang, ext, largs) for name, srcx in sorted(wellformed_inputs().items()) for (lang, ext, largs) in WF_LANGS]
    with cf.ThreadPoolExecutor(max_workers=12) as ex:
        results = list(ex.map(lambda j: (j, wellformed_case(exe, *j)), jobs))
    if mode_arg == 'list':
        for j, m in results:
            if m:
                print('FAIL', j[0], j[2], '::', m[:200])
    for (name, srcx, lang, ext, largs), m in results:
        if m:
            witness({'input_name': name, 'lang': lang, 'ext': ext, 'largs': largs, 'source': srcx}, m)
    print('no failing input among %d (source, language) runs' % len(jobs))


# ------------------------------------------------------------------------------------------------ C09: names at definitions vs uses (emitted text)
RN_SRC = ('#[typeshare]\n#[serde(rename = "StructNew")]\npub struct StructOld { pub a: u32 }\n'
          '#[typeshare]\n#[serde(rename = "UnitNew")]\npub enum UnitOld { A, B }\n'
          '#[typeshare]\n#[serde(rename = "AlgNew")]\n#[serde(tag = "t", content = "c")]\npub enum AlgOld { A(StructOld), B { x: UnitOld, y: Vec<StructOld> }, C }\n'
          '#[typeshare]\n#[serde(rename = "AliasNew")]\npub type AliasOld = Vec<StructOld>;\n'
          '#[typeshare]\n#[serde(rename = "GenNew")]\npub struct GenOld<T> { pub t: T, pub v: Vec<T> }\n'
          '#[typeshare]\npub struct Plain { pub id: u32 }\n'
          '#[typeshare]\n#[serde(tag = "t", content = "c")]\npub enum PlainAlg { P(Plain), Q { p: Plain, all: Vec<Plain> } }\n'
          '#[typeshare]\npub struct Uses { pub s: StructOld, pub u: Option<UnitOld>, pub e: AlgOld, pub al: AliasOld, pub g: GenOld<StructOld>, pub m: HashMap<String, Vec<AlgOld>>, '
          'pub k: HashMap<UnitOld, StructOld>, pub arr: [StructOld; 2], pub p: Plain, pub pa: PlainAlg }\n'
          '#[typeshare]\npub type UsesAlias = HashMap<String, Option<GenOld<UnitOld>>>;\n'
          # a type that happens to be called like a generic parameter, and is renamed: the parameter must stay the parameter
          '#[typeshare]\n#[serde(rename = "Item")]\npub struct T { pub a: u32 }\n#[typeshare]\npub struct GenShadow<T> { pub only_param: T, pub params: Vec<T> }\n'
          '#[typeshare]\npub struct UsesT { pub t: T }\n')
RN_TYPES = [('StructOld', 'StructNew'), ('UnitOld', 'UnitNew'), ('AlgOld', 'AlgNew'), ('AliasOld', 'AliasNew'), ('GenOld', 'GenNew'), ('Plain', 'Plain'), ('PlainAlg', 'PlainAlg'),
            ('Uses', 'Uses'), ('UsesAlias', 'UsesAlias')]
RN_CONFIGS = [('typescript', 'ts', [], ''), ('kotlin', 'kt', ['--java-package', 'com.x'], ''), ('kotlin', 'kt', ['--java-package', 'com.x', '--kotlin-prefix', 'Pf'], 'Pf'),
              ('swift', 'swift', [], ''), ('swift', 'swift', ['--swift-prefix', 'Pf'], 'Pf'), ('scala', 'scala', ['--scala-package', 'com.x'], ''), ('python', 'py', [], ''),
              ('go', 'go', ['--go-package', 'p'], '')]
RN_DEF = {
    'typescript': r'export (?:interface|type|enum) (\w+)', 'kotlin': r'(?:class|typealias|object|interface) (\w+)', 'swift': r'(?:struct|enum|typealias|class) (\w+)',
    'scala': r'(?:class|type|object|trait) (\w+)', 'go': r'(?m)^type (\w+)', 'python': r'(?m)^(?:class (\w+)|(\w+) = )',
}


def strip_noncode(lang, text):
    """the generated text without comments and string literals (so that names in doc text / wire names do not count as uses)"""
    if lang == 'python':
        text = re.sub(r'"""(?:.|\n)*?"""', '', text)
        text = re.sub(r'#[^\n]*', '', text)
        return re.sub(r'"(?:\\.|[^"\\\n])*"', '""', text)
    text = re.sub(r'/\*(?:.|\n)*?\*/', '', text)
    text = re.sub(r'//[^\n]*', '', text)
    text = re.sub(r'"(?:\\.|[^"\\\n])*"', '""', text)
    return re.sub(r'`[^`\n]*`', '``', text) if lang == 'go' else text


def refnames_case(exe, lang, ext, largs, prefix):
    top = tempfile.mkdtemp(prefix='clirun-', dir=WORK)
    try:
        src = os.path.join(top, 'src')
        tree(src, {'c/src/lib.rs': RN_SRC})
        outp = os.path.join(top, 'out.' + ext)
        rc, out = run(exe, ['--lang', lang] + largs + ['--output-file', outp, src], cwd=src, timeout=20)
        if rc != 0 or not os.path.exists(outp):
            return None if (rc == 'timeout' or 'panicked at' in out) else 'the run failed on a supported input (rc=%s): %s' % (rc, ' '.join(out.split())[-160:])
        code = strip_noncode(lang, open(outp, encoding='utf-8').read())
        defined = set()
        for m in re.finditer(RN_DEF[lang], code):
            defined.update(g for g in m.groups() if g)
        stems = sorted({x for pair in RN_TYPES for x in pair}, key=len, reverse=True)
        for tok in sorted(set(re.findall(r'[A-Za-z_][A-Za-z0-9_]*', code))):
            # a type-like token built on one of the corpus' type names (with the configured prefix, with a helper suffix): it must be a defined name,
            # or a name the back end derives from a defined name (Go: FooTs / FooTVariantA / NewFoo..; Python / Kotlin / Swift: members inside the type)
            t = tok[len(prefix):] if prefix and tok.startswith(prefix) else tok
            stem = next((x for x in stems if t.startswith(x)), None)
            if not stem or tok in defined:
                continue
            rest = t[len(stem):]
            if rest and not re.fullmatch(r'[A-Z]\w*Inner', rest):
                continue        # some other identifier that merely starts like a type name (constants, constructors, enum members)
            return '`%s` is used in the generated %s code but no definition of that name is emitted (defined: %s)' % (tok, lang, sorted(d for d in defined if any(x in d for x in stems))[:14])
        for l in code.splitlines():
            if re.search(r'(?i)only_?param|params\b', l) and re.search(r'\bItem\b', l) and 'Uses' not in l:
                return 'the generic parameter `T` of GenShadow<T> is written as `Item` (the serde name of an unrelated type called T): `%s`' % l.strip()[:120]
        return None
    finally:
        shutil.rmtree(top, ignore_errors=True)


def scenario_refnames(exe, mode_arg, payload):
    """C09 bound (emitted text): ONE source with serde(rename) on a struct, a unit enum, an algebraic enum with tuple and struct variants, a type alias and
    a generic struct, each used as field type, Option / Vec / array / map value and key, generic argument, variant payload, struct-variant field and alias
    target, next to types without rename x 8 configurations (6 languages; Kotlin and Swift also with a prefix): in the generated code (comments and string
    literals removed) every token that is one of these type names - Rust or renamed, with the prefix, with the `..Inner` helper suffix - must be a name
    the same file defines; and a generic parameter that shares its name with a renamed type is still written as the parameter."""
    if mode_arg == 'check':
        m = refnames_case(exe, payload['lang'], payload['ext'], payload['largs'], payload['prefix'])
        if m:
            witness(payload, m)
        print('input passes'); return
    n = 0
    for (lang, ext, largs, prefix) in RN_CONFIGS:
        if lang == 'go':
            continue      # the recorded finding kf-c09-go-defines-under-rust-name (replayed separately on every run)
        n += 1
        m = refnames_case(exe, lang, ext, largs, prefix)
        if m:
            witness({'lang': lang, 'ext': ext, 'largs': largs, 'prefix': prefix}, m)
    print('no failing input among %d configurations' % n)


# ------------------------------------------------------------------------------------------------ C13: the target list as the command line gives it
TOS_SRC = ('#[typeshare]\n#[cfg(target_os = "android")]\npub struct OnlyAndroid { pub a: u32 }\n#[typeshare]\n#[cfg(not(target_os = "ios"))]\npub struct NotIos { pub a: u32 }\n'
           '#[typeshare]\n#[cfg(any(target_os = "ios", target_os = "macos"))]\npub struct Apple { pub a: u32 }\n#[typeshare]\npub struct Always { pub a: u32, #[cfg(target_os = "linux")] pub only_linux: u32 }\n'
           '#[typeshare]\n#[cfg(feature = "x")]\npub struct OtherCfg { pub a: u32 }\n')
# (arguments, names that must be generated, names that must not)
TOS_CASES = [
    ([], ['OnlyAndroid', 'NotIos', 'Apple', 'Always', 'only_linux', 'OtherCfg'], []),
    (['--target-os=android,ios'], ['OnlyAndroid', 'Apple', 'Always', 'OtherCfg'], ['NotIos', 'only_linux']),
    (['--target-os', 'android', '--target-os', 'ios'], ['OnlyAndroid', 'Apple', 'Always', 'OtherCfg'], ['NotIos', 'only_linux']),
    (['-t', 'linux,macos'], ['NotIos', 'Apple', 'Always', 'only_linux', 'OtherCfg'], ['OnlyAndroid']),
    (['--target-os=windows'], ['NotIos', 'Always', 'OtherCfg'], ['OnlyAndroid', 'Apple', 'only_linux']),
]


def targetos_case(exe, k):
    targs, must, must_not = TOS_CASES[k]
    top = tempfile.mkdtemp(prefix='clirun-', dir=WORK)
    try:
        src = os.path.join(top, 'src')
        tree(src, {'c/src/lib.rs': TOS_SRC})
        outp = os.path.join(top, 'out.ts')
        rc, out = run(exe, ['--lang', 'typescript', '--output-file', outp, src] + targs, cwd=src, timeout=20)
        if rc != 0 or not os.path.exists(outp):
            return None if (rc == 'timeout' or 'panicked at' in out) else 'the run failed (rc=%s): %s' % (rc, ' '.join(out.split())[-160:])
        text = open(outp).read()
        for n in must:
            if not re.search(r'\b%s\b' % n, text):
                return 'with `%s` the item `%s` is not generated although the documented rule keeps it' % (' '.join(targs) or '(no --target-os)', n)
        for n in must_not:
            if re.search(r'\b%s\b' % n, text):
                return 'with `%s` the item `%s` is generated although the documented rule excludes it' % (' '.join(targs), n)
        return None
    finally:
        shutil.rmtree(top, ignore_errors=True)


def scenario_targetos(exe, mode_arg, payload):
    """C13 bound (command line): ONE source (types guarded by target_os, not(target_os), any(..), a guarded field, another cfg predicate) x 5 ways of
    giving the target list - none, the documented comma separated form, the repeated option, the short option, a list naming none of the guards:
    exactly the items the documented rule keeps are generated."""
    if mode_arg == 'check':
        m = targetos_case(exe, payload['case'])
        if m:
            witness(payload, m)
        print('input passes'); return
    for k in range(len(TOS_CASES)):
        m = targetos_case(exe, k)
        if m:
            witness({'case': k, 'args': TOS_CASES[k][0]}, m)
    print('no failing input among %d command lines' % len(TOS_CASES))


# ------------------------------------------------------------------------------------------------ C12 (Python, by CPython's parser) / C20 (Go acronyms) / C04 (payloads, overrides)
PY_HELPERS = {'datetime', 'List', 'Dict', 'Optional', 'Union', 'Literal', 'Annotated', 'TypeVar', 'Generic', 'BaseModel', 'Field', 'ConfigDict', 'BeforeValidator',
              'PlainSerializer', 'AnyUrl', 'Enum', 'json'}
EXTRA_CFG = ('[python.type_mappings]\n"NaiveDateTime" = "datetime"\n"Blob" = "bytes"\n[typescript.type_mappings]\n"NaiveDateTime" = "string"\n"Blob" = "string"\n'
             '[kotlin.type_mappings]\n"NaiveDateTime" = "String"\n"Blob" = "String"\n[swift.type_mappings]\n"NaiveDateTime" = "String"\n"Blob" = "String"\n'
             '[scala.type_mappings]\n"NaiveDateTime" = "String"\n"Blob" = "String"\n[go.type_mappings]\n"NaiveDateTime" = "string"\n"Blob" = "string"\n[go]\nuppercase_acronyms = ["ID", "URL"]\n')
EXTRA_SRC = ('#[typeshare]\npub struct Ev { pub at: NaiveDateTime, pub seen: Option<NaiveDateTime>, pub id: UserId, pub b: Blob, #[serde(default)] pub later: NaiveDateTime }\n'
             '#[typeshare]\npub struct UserId { pub v: u32, pub home_url: String }\n#[typeshare]\npub type Owner = UserId;\n#[typeshare]\npub type Members = Vec<UserId>;\n'
             '#[typeshare]\npub type ByUrl = HashMap<String, Option<UserId>>;\n'
             '#[typeshare]\n#[serde(tag = "t", content = "c")]\npub enum Pay { Name(Option<String>), Nick(Option<Option<String>>), Plain(String), Who(UserId), S { a: Option<u32>, b: Option<Option<u32>>, c: u32 } }\n'
             '/// Absolute path, e.g. C:\\Users\\alice\\profile.json or \\\\server\\share; tabs are \\t, a trailing one: \\\\\n#[typeshare]\n#[serde(tag = "type", content = "content", rename_all = "camelCase", rename_all_fields = "camelCase")]\n'
             'pub enum Event {\n    /// docs with a backslash \\N{DASH} and \\x41\n    UserCreated { user_id: String, display_name: String },\n    #[serde(rename_all = "SCREAMING_SNAKE_CASE")]\n    Loud { inner_field: u32 },\n    Ping,\n}\n'
             '#[typeshare]\npub struct Ovr {\n'
             '    #[typeshare(typescript(type = "Date"), kotlin(type = "Instant"), swift(type = "Date"), scala(type = "Instant"), go(type = "time.Time"), python(type = "datetime"))]\n    pub expires_at: Option<String>,\n'
             '    #[typeshare(typescript(type = "Date"), kotlin(type = "Instant"), swift(type = "Date"), scala(type = "Instant"), go(type = "time.Time"), python(type = "datetime"))]\n    pub created_at: String,\n'
             '    #[serde(default)]\n    #[typeshare(typescript(type = "Date"), kotlin(type = "Instant"), swift(type = "Date"), scala(type = "Instant"), go(type = "time.Time"), python(type = "datetime"))]\n    pub touched_at: String,\n}\n')


def py_helper_names(text):
    """helper names (C12's list) that the module uses as plain names without importing or defining them; needs the module to parse"""
    import ast
    tree_ = ast.parse(text)
    have = set()
    for node in ast.walk(tree_):
        if isinstance(node, (ast.Import, ast.ImportFrom)):
            have.update((a.asname or a.name).split('.')[0] for a in node.names)
        elif isinstance(node, (ast.ClassDef, ast.FunctionDef)):
            have.add(node.name)
        elif isinstance(node, ast.Assign):
            have.update(t.id for t in node.targets if isinstance(t, ast.Name))
    used = {n.id for n in ast.walk(tree_) if isinstance(n, ast.Name) and isinstance(n.ctx, ast.Load)}
    # annotations are strings under `from __future__ import annotations`? no: they are expressions in the AST, so they are covered by the walk above
    return sorted((used & PY_HELPERS) - have)


def extras_case(exe, lang, ext, largs):
    """-> None or a message (one source + configuration file, language-specific expectations named in the scenario's bound)"""
    top = tempfile.mkdtemp(prefix='clirun-', dir=WORK)
    try:
        src = os.path.join(top, 'src')
        tree(src, {'c/src/lib.rs': EXTRA_SRC})
        cfgp = os.path.join(top, 'typeshare.toml')
        with open(cfgp, 'w') as f:
            f.write(EXTRA_CFG)
        outp = os.path.join(top, 'out.' + ext)
        rc, out = run(exe, ['-c', cfgp, '--lang', lang] + largs + ['--output-file', outp, src], cwd=src, timeout=20)
        if rc != 0 or not os.path.exists(outp):
            return None if (rc == 'timeout' or 'panicked at' in out) else 'the run failed on a supported input (rc=%s): %s' % (rc, ' '.join(out.split())[-200:])
        text = open(outp, encoding='utf-8').read()
        code = strip_noncode(lang, text)
        if lang == 'python':
            try:
                missing = py_helper_names(text)
            except SyntaxError as ex:
                return '(C15) CPython does not parse the generated module (doc text with backslashes in a docstring?): %s' % ex.msg
            if missing:
                return '(C12) the generated Python module uses %s without importing or defining it' % ', '.join('`%s`' % m for m in missing)
        if lang == 'go':
            m = re.search(r'\b\w*(?:Id|Url)\b', re.sub(r'(?m)^\s*//.*$', '', code))
            if m and not re.search(r'json:"', m.group(0)):
                return '(C20) uppercase_acronyms = ["ID", "URL"] is configured but the generated Go code still spells `%s`' % m.group(0)
        if lang == 'typescript':
            if not re.search(r't: "Nick", c\?: string \| null', text) or re.search(r't: "Name", c\?: string \| null', text):
                return '(C04) the payloads Option<String> and Option<Option<String>> of two newtype variants are not kept apart: %s' % ' '.join(re.findall(r'\{ t: "N\w+", [^}]*\}', text))
        # C01: serde's enum-level rename_all_fields is the default for the fields of struct variants, a variant's own rename_all wins
        for key in ('userId', 'displayName', 'INNER_FIELD'):
            if key not in text:
                return '(C01) the wire name `%s` of a struct-variant field (rename_all_fields on the enum / rename_all on the variant) is not carried by the generated %s code' % (key, lang)
        # C04 with a per-language type override: optional exactly for Option<T> / serde(default), whatever the override says
        want = {'expires_at': True, 'created_at': False, 'touched_at': True}
        for field, opt in want.items():
            line = next((l for l in (text if lang == 'go' else code).splitlines() if re.search(r'\b%s\b|\b%s\b' % (field, ''.join(w.capitalize() for w in field.split('_'))), l)
                         and not re.search(r'self\.|init\(|case |CodingKeys', l)), None)
            if line is None:
                continue
            marked = {'typescript': '?:' in line, 'kotlin': '? = null' in line or '?=' in line, 'swift': line.rstrip().endswith('?'), 'scala': 'Option[' in line,
                      'go': '*' in line and 'omitempty' in line, 'python': 'Optional[' in line and 'default=None' in line}[lang]
            if lang == 'scala' and field == 'touched_at':
                continue      # the recorded finding kf-c04-scala-default
            if marked != opt:
                return '(C04) field %s (%s) with a per-language type override is written `%s`: %s' % (field, 'Option<String>' if field == 'expires_at' else ('String + serde(default)' if opt else 'String'),
                                                                                                      line.strip()[:90], 'the optional marker is missing' if opt else 'it is marked optional')
        return None
    finally:
        shutil.rmtree(top, ignore_errors=True)


ASSOC_SRC = 'pub struct Limits;\nimpl Limits {\n    #[typeshare]\n    pub const MAX_NAME_LEN: u32 = 64;\n    pub const OTHER: u32 = 1;\n}\n#[typeshare]\npub const TOP: u32 = 3;\n'
KF_SRC = {
    # kf-c05-self-type: `Self` inside an annotated type is emitted as a user type called Self
    'self': ('#[typeshare]\npub struct Node { pub next: Option<Box<Self>>, pub children: Vec<Self>, pub v: u32 }\n', 'typescript', 'ts', [], r'\bSelf\b',
             '`Self` is written as a type called `Self`, which no definition introduces (it stands for the annotated type itself)'),
    # kf-c05-scala-unsigned-width: the unsigned aliases cannot hold the values of the Rust types
    'scala_unsigned': ('#[typeshare]\npub struct W { pub a: u8, pub b: u16, pub c: u32, pub d: U53 }\n', 'scala', 'scala', ['--scala-package', 'com.x'], r'type ULong = Int\b|type UInt = Int\b|type UShort = Short\b|type UByte = Byte\b',
                       'Scala maps u8 / u16 / u32 / U53 to aliases of Byte / Short / Int / Int, which cannot hold every value of the Rust type'),
}


KF_SRC.update({
    # kf-c05-char-not-a-json-string: serde writes a char as a JSON string; Go says rune (a number), Swift Unicode.Scalar (not Codable)
    'go_char': ('#[typeshare]\npub struct C { pub c: char }\n', 'go', 'go', ['--go-package', 'p'], r'\brune\b', 'Go translates `char` (a JSON string in serde) to `rune`, an integer type that encoding/json reads and writes as a number'),
    # kf-c01-rename-list-form: serde(rename(serialize = .., deserialize = ..)) / rename_all(serialize = ..) are not read
    'rename_list_form': ('#[typeshare]\npub struct P { #[serde(rename(serialize = "pageCount", deserialize = "pageCount"))] pub page_count: u32 }\n', 'typescript', 'ts', [], r'\bpage_count\b',
                         'serde binds `pageCount` (list form of rename, both directions agree), the generated code binds `page_count`'),
    # kf-c01-key-not-an-identifier: an explicit binding is written only for keys containing `-`
    'key_not_identifier': ('#[typeshare]\npub struct K { #[serde(rename = "24h_volume")] pub v: u32, #[serde(rename = "price.usd")] pub p: u32 }\n', 'typescript', 'ts', [], r'(?m)^\s*(24h_volume|price\.usd)\??:',
                           'the keys `24h_volume` / `price.usd` are written as bare property names (no quoted property): the declaration is not valid and the key is bound nowhere'),
    # kf-c02-python-types-member-name: the members of the <Enum>Types class are named after the wire name
    'py_types_member': ('#[typeshare]\n#[serde(tag = "t", content = "c")]\npub enum E { #[serde(rename = "user.joined")] Joined(u32), Ping }\n', 'python', 'py', [], r'USER\.JOINED\s*=',
                        'the member of ETypes for the variant renamed `user.joined` is written `USER.JOINED = ..`: the class cannot be created, no variant has a case'),
})


def stdout_pipe_case(exe):
    """kf-c07-output-to-a-pipe: --output-file /dev/stdout with stdout a pipe never terminates (check_write_file reads the output path first)"""
    top = tempfile.mkdtemp(prefix='clirun-', dir=WORK)
    try:
        src = os.path.join(top, 'src')
        tree(src, {'c/src/lib.rs': '#[typeshare]\npub struct S { pub a: u32 }\n'})
        rc, out = run(exe, ['--lang', 'typescript', '--output-file', '/dev/stdout', src], cwd=src, timeout=6)
        return 'with --output-file /dev/stdout and stdout a pipe the tool does not terminate (it reads the pipe it is about to write)' if rc == 'timeout' else None
    finally:
        shutil.rmtree(top, ignore_errors=True)


def kf_folder_case(exe, kind):
    top = tempfile.mkdtemp(prefix='clirun-', dir=WORK)
    try:
        src = os.path.join(top, 'ws')
        outd = os.path.join(top, 'out'); os.makedirs(outd)
        if kind == 'glob_renamed':
            # kf-c09-glob-import-of-renamed-type
            tree(src, {'alpha/src/lib.rs': '#[typeshare]\n#[serde(rename = "UserAccount")]\npub struct Account { pub id: u32 }\n',
                       'beta/src/lib.rs': 'use alpha::*;\n#[typeshare]\npub struct Holder { pub account: Account }\n'})
            rc, out = run(exe, ['--lang', 'typescript', '--output-folder', outd, src], cwd=src, timeout=20)
            p = os.path.join(outd, 'beta.ts')
            if rc == 0 and os.path.exists(p) and re.search(r'account: Account\b', open(p).read()):
                return 'beta.ts uses `Account` for a type that alpha.ts defines as `UserAccount` (reached through `use alpha::*`); single-file output says `UserAccount`'
        elif kind == 'dot_crate_name':
            # kf-c14-crate-name-from-dot
            crate = os.path.join(src, 'my-models')
            tree(src, {'my-models/src/lib.rs': '#[typeshare]\npub struct M { pub a: u32 }\n'})
            rc, out = run(exe, ['--lang', 'typescript', '--output-folder', outd, '.'], cwd=crate, timeout=20)
            if rc == 0 and os.path.exists(os.path.join(outd, '..ts')) and not os.path.exists(os.path.join(outd, 'my_models.ts')):
                return 'run from inside the crate directory (`typeshare .. .`) the module is written to `..ts` instead of `my_models.ts`'
        return None
    finally:
        shutil.rmtree(top, ignore_errors=True)


def kf_round18_case(exe, kind):
    top = tempfile.mkdtemp(prefix='clirun-', dir=WORK)
    try:
        ws = os.path.join(top, 'ws')
        outd = os.path.join(top, 'out'); os.makedirs(outd)
        if kind == 'folder_outside_src':
            # kf-c03-folder-mode-file-outside-src
            tree(ws, {'mycrate/src/lib.rs': '#[typeshare]\npub struct Account { pub id: u32 }\n', 'mycrate/examples/demo.rs': '#[typeshare]\npub struct DemoConfig { pub v: u32 }\n'})
            rc, out = run(exe, ['--lang', 'typescript', '--output-folder', outd, ws], cwd=ws, timeout=20)
            text = ''.join(open(os.path.join(outd, f)).read() for f in os.listdir(outd))
            if rc == 0 and 'Account' in text and 'DemoConfig' not in text:
                return 'folder output: the annotated struct DemoConfig in mycrate/examples/demo.rs (no `src` above it) is neither generated nor reported; --output-file generates it'
        elif kind == 'two_roots':
            # kf-c03-overlapping-roots-duplicate
            tree(ws, {'app/src/lib.rs': '#[typeshare]\npub struct AppState { pub ready: bool }\n', 'app/plugins/shared/src/lib.rs': '#[typeshare]\npub struct SharedSettings { pub volume: u8 }\n'})
            outp = os.path.join(top, 'o.kt')
            rc, out = run(exe, ['--lang', 'kotlin', '--java-package', 'com.x', '--output-file', outp, os.path.join(ws, 'app'), os.path.join(ws, 'app', 'plugins', 'shared')], cwd=ws, timeout=20)
            if rc == 0 and os.path.exists(outp) and open(outp).read().count('data class SharedSettings') > 1:
                return 'a file reachable through two of the given directories is generated twice (`data class SharedSettings` occurs twice)'
        elif kind == 'py_mapped_datetime_nested':
            # kf-c12-python-mapped-datetime-not-a-field
            tree(ws, {'c/src/lib.rs': '#[typeshare]\npub type Stamp = NaiveDateTime;\n#[typeshare]\npub struct Log { pub seen: Vec<NaiveDateTime>, pub last: Option<NaiveDateTime> }\n'})
            cfgp = os.path.join(top, 't.toml')
            with open(cfgp, 'w') as f:
                f.write('[python.type_mappings]\n"NaiveDateTime" = "datetime"\n')
            outp = os.path.join(top, 'o.py')
            rc, out = run(exe, ['-c', cfgp, '--lang', 'python', '--output-file', outp, ws], cwd=ws, timeout=20)
            if rc == 0 and os.path.exists(outp):
                try:
                    missing = py_helper_names(open(outp).read())
                except SyntaxError:
                    missing = []
                if 'datetime' in missing:
                    return 'a type mapped to `datetime` that is an alias target / inside Vec / Option (not the whole type of a struct field) is written as `datetime` without `from datetime import datetime`'
        elif kind == 'mod_decl_cfg':
            # kf-c13-cfg-on-mod-declaration
            tree(ws, {'c/src/lib.rs': '#[cfg(target_os = "android")]\nmod android;\n#[typeshare]\npub struct Common { pub a: u32 }\n', 'c/src/android.rs': '#[typeshare]\npub struct AndroidIntent { pub action: String }\n'})
            outp = os.path.join(top, 'o.ts')
            rc, out = run(exe, ['--lang', 'typescript', '--output-file', outp, ws, '--target-os=ios'], cwd=ws, timeout=20)
            if rc == 0 and os.path.exists(outp) and 'AndroidIntent' in open(outp).read():
                return 'with --target-os=ios the types of android.rs are generated although its `mod android;` declaration carries cfg(target_os = "android") (the file is parsed on its own)'
        return None
    finally:
        shutil.rmtree(top, ignore_errors=True)


KF_MORE = {
    # kind: (files, args, output file / None for folder, regex on the (raw) output that shows the finding, message)
    'kotlin_inline_generic_prefix': ({'c/src/lib.rs': '#[typeshare(kotlin = "JvmInline")]\npub struct Tagged<T>(Vec<T>);\n'}, ['--lang', 'kotlin', '--java-package', 'com.x', '--kotlin-prefix', 'App'], 'o.kt',
                                     r'List<AppT>', 'Kotlin writes the generic parameter T of an inline value class with the configured prefix (`List<AppT>`) and drops `<T>` from the class header'),
    'single_file_rename_collision': ({'alpha/src/lib.rs': '#[typeshare]\n#[serde(rename = "AlphaStatus")]\npub enum Status { On, Off }\n',
                                      'beta/src/lib.rs': '#[typeshare]\npub enum Status { Open, Closed }\n#[typeshare]\npub struct Ticket { pub status: Status }\n'}, ['--lang', 'typescript'], 'o.ts',
                                     r'status: AlphaStatus', 'single-file output: `Ticket.status` of crate beta refers to beta\'s own `Status` but is written `AlphaStatus`, the serde name of a same-named type of crate alpha (folder output is right)'),
    'use_rename': ({'alpha/src/lib.rs': '#[typeshare]\npub struct Config { pub a: u32 }\n', 'beta/src/lib.rs': 'use alpha::Config as AlphaConfig;\n#[typeshare]\npub struct Uses { pub base: AlphaConfig }\n'},
                   ['--lang', 'typescript'], None, r'base: AlphaConfig', 'a type imported under another name (`use alpha::Config as AlphaConfig`) is written `AlphaConfig`: no such definition exists and nothing is imported'),
    'py_field_underscore_digit': ({'c/src/lib.rs': '#[typeshare]\npub struct P { pub _0: u32, pub name: String }\n'}, ['--lang', 'python'], 'o.py', r'(?m)^\s+0: int', 'Python writes the field `_0` as `0: int = Field(alias="_0")`: not an identifier'),
    'py_unit_enum_backslash': ({'c/src/lib.rs': '#[typeshare]\npub enum E { #[serde(rename = "back\\\\")] A, B }\n'}, ['--lang', 'python'], 'o.py', r'= "back\\"\s*$', 'Python writes the wire name `back\\` of a unit-enum variant as `"back\\"`: the backslash escapes the closing quote'),
}


KF_MORE.update({
    # --- round 19 (recorded only)
    'go_acronyms_rewrite_mapping': ({'c/src/lib.rs': '#[typeshare]\npub struct Rec { pub owner: UserId, pub peers: Vec<UserId> }\n', 'typeshare.toml': '[go]\nuppercase_acronyms = ["ID"]\n[go.type_mappings]\nUserId = "pb.UserId"\n'},
                                    ['-c', 'typeshare.toml', '--lang', 'go', '--go-package', 'p'], 'o.go', r'pb\.UserID', 'the configured type mapping `UserId = "pb.UserId"` is written `pb.UserID`: uppercase_acronyms rewrites the mapped name'),
    'py_optional_drops_translation': ({'c/src/lib.rs': '#[typeshare]\npub struct Doc { pub created: OffsetDateTime, pub deleted: Option<OffsetDateTime> }\n'}, ['--lang', 'python'], 'o.py',
                                      r'deleted: Optional\[datetime\] = Field', 'Python writes `created: Annotated[datetime, BeforeValidator(..), PlainSerializer(..)]` but `deleted: Optional[datetime]` without the (de)serialisers: optionality changed the translated type'),
    'go_no_pointer_slice_positions': ({'c/src/lib.rs': '#[typeshare]\npub struct S { pub tags: Option<Vec<String>>, #[serde(default)] pub labels: Vec<String> }\n', 'typeshare.toml': '[go]\nno_pointer_slice = true\n'},
                                      ['-c', 'typeshare.toml', '--lang', 'go', '--go-package', 'p'], 'o.go', r'Labels \*\[\]string', 'with no_pointer_slice = true `Option<Vec<String>>` is `[]string` but a `Vec<String>` with serde(default) is still `*[]string`'),
    'py_generic_algebraic_enum': ({'c/src/lib.rs': '#[typeshare]\n#[serde(tag = "t", content = "c")]\npub enum ApiResult<T, E> { Ok(T), Err(E), Detailed { value: T, errors: Vec<E> } }\n#[typeshare]\npub struct Uses { pub result: ApiResult<String, u32> }\n'},
                                  ['--lang', 'python'], 'o.py', r'class ApiResultOk\(BaseModel\):', 'Python writes the variant classes of a generic algebraic enum without Generic[..] (`class ApiResultOk(BaseModel): content: T`) while the use site says `ApiResult[str, int]`'),
    'go_acronym_non_ascii_panic': ({'c/src/lib.rs': '#[typeshare]\npub struct GrBäX { pub x: u8 }\n', 'typeshare.toml': '[go]\nuppercase_acronyms = ["bä"]\n'},
                                   ['-c', 'typeshare.toml', '--lang', 'go', '--go-package', 'p'], 'o.go', None, 'Go generation panics (byte / character index mix in convert_acronyms_to_uppercase) when an uppercase_acronyms entry contains a non-ASCII letter'),
    'prefilter_spaced_attribute': ({'c/src/a.rs': '#[typeshare]\npub struct A { pub a: u8 }\n', 'c/src/b.rs': '# [typeshare]\npub struct B { pub b: u8 }\n'}, ['--lang', 'typescript'], 'o.ts',
                                   r'^(?![\s\S]*interface B)[\s\S]*interface A', 'an item annotated `# [typeshare]` (as quote! prints attributes) is generated when its file also contains the byte sequence `#[typeshare`, but not when it sits in a file of its own: the output depends on how items are split across files'),
})


def kf_hash_order_case(exe):
    """kf-c06-renamed-reference-hash-order: which of two same-named, differently renamed types a reference resolves to depends on the hash seed"""
    top = tempfile.mkdtemp(prefix='clirun-', dir=WORK)
    try:
        ws = os.path.join(top, 'ws')
        tree(ws, {'net/src/lib.rs': '#[typeshare]\n#[serde(rename = "NetworkError")]\npub struct Error { pub code: u32 }\n', 'storage/src/lib.rs': '#[typeshare]\n#[serde(rename = "StorageError")]\npub struct Error { pub path: String }\n',
                  'app/src/download.rs': 'use net::Error;\n#[typeshare]\npub struct DownloadFailed { pub cause: Error }\n', 'app/src/save.rs': 'use storage::Error;\n#[typeshare]\npub struct SaveFailed { pub cause: Error }\n'})
        seen = set()
        for k in range(12):
            outd = os.path.join(top, 'o%d' % k); os.makedirs(outd)
            rc, out = run(exe, ['--lang', 'typescript', '--output-folder', outd, ws], cwd=ws, timeout=20)
            p = os.path.join(outd, 'app.ts')
            if rc == 0 and os.path.exists(p):
                seen.add(open(p).read())
        if len(seen) > 1:
            return '12 identical runs produced %d different app.ts files: `cause: NetworkError` / `cause: StorageError` flip with the hash seed' % len(seen)
        return None
    finally:
        shutil.rmtree(top, ignore_errors=True)


def kf_more_case(exe, kind):
    if kind == 'renamed_reference_hash_order':
        return kf_hash_order_case(exe)
    files, args, outname, pat, msg = KF_MORE[kind]
    top = tempfile.mkdtemp(prefix='clirun-', dir=WORK)
    try:
        ws = os.path.join(top, 'ws')
        tree(ws, files)
        outd = os.path.join(top, 'out'); os.makedirs(outd)
        oargs = ['--output-file', os.path.join(outd, outname)] if outname else ['--output-folder', outd]
        rc, out = run(exe, args + oargs + [ws], cwd=ws, timeout=20)
        if pat is None:
            return msg if ('panicked at' in out or rc == 101) else None
        if rc != 0:
            return None
        text = '\n'.join(open(os.path.join(outd, f)).read() for f in sorted(os.listdir(outd)))
        return msg if re.search(pat, text, flags=re.M) else None
    finally:
        shutil.rmtree(top, ignore_errors=True)


def kf_case(exe, kind):
    if kind in KF_MORE or kind == 'renamed_reference_hash_order':
        return kf_more_case(exe, kind)
    if kind == 'stdout_pipe':
        return stdout_pipe_case(exe)
    if kind in ('folder_outside_src', 'two_roots', 'py_mapped_datetime_nested', 'mod_decl_cfg'):
        return kf_round18_case(exe, kind)
    if kind in ('glob_renamed', 'dot_crate_name'):
        return kf_folder_case(exe, kind)
    if kind == 'py_keyword_content_key':
        # kf-c10-python-keyword-tag-or-content-key
        top = tempfile.mkdtemp(prefix='clirun-', dir=WORK)
        try:
            src = os.path.join(top, 'src')
            tree(src, {'c/src/lib.rs': '#[typeshare]\n#[serde(tag = "kind", content = "from")]\npub enum Payment { Account(String), Cash { amount: u32 }, Nothing }\n'})
            outp = os.path.join(top, 'out.py')
            rc, out = run(exe, ['--lang', 'python', '--output-file', outp, src], cwd=src, timeout=20)
            if rc == 0 and os.path.exists(outp):
                import ast
                try:
                    ast.parse(open(outp).read())
                except SyntaxError as ex:
                    return 'with serde(content = "from") the generated Python module does not parse: %s (line %s)' % (ex.msg, ex.lineno)
            return None
        finally:
            shutil.rmtree(top, ignore_errors=True)
    srcx, lang, ext, largs, pat, msg = KF_SRC[kind]
    top = tempfile.mkdtemp(prefix='clirun-', dir=WORK)
    try:
        src = os.path.join(top, 'src')
        tree(src, {'c/src/lib.rs': srcx})
        outp = os.path.join(top, 'out.' + ext)
        rc, out = run(exe, ['--lang', lang] + largs + ['--output-file', outp, src], cwd=src, timeout=20)
        if rc != 0 or not os.path.exists(outp):
            return None
        return msg if re.search(pat, open(outp).read() if kind in ('key_not_identifier', 'py_types_member') else strip_noncode(lang, open(outp).read())) else None
    finally:
        shutil.rmtree(top, ignore_errors=True)


def assoc_const_case(exe):
    top = tempfile.mkdtemp(prefix='clirun-', dir=WORK)
    try:
        src = os.path.join(top, 'src')
        tree(src, {'c/src/lib.rs': ASSOC_SRC})
        outp = os.path.join(top, 'out.ts')
        rc, out = run(exe, ['--lang', 'typescript', '--output-file', outp, src], cwd=src, timeout=20)
        if rc == 0 and os.path.exists(outp) and 'MAX_NAME_LEN' not in open(outp).read():
            return '(C03) the run succeeded but the #[typeshare] associated const MAX_NAME_LEN is neither generated nor reported (silently omitted)'
        return None
    finally:
        shutil.rmtree(top, ignore_errors=True)


def scenario_extras(exe, mode_arg, payload):
    """bound shared by C04 / C12 / C20 (the check of each property reads its own label): ONE source + ONE typeshare.toml (type mappings for two user types
    - to `datetime` / `bytes` in Python -, Go uppercase_acronyms) x 6 languages. C12: the generated Python module, parsed by CPython, uses no helper
    name (typing / pydantic / enum / datetime / json) that it neither imports nor defines. C20: with uppercase_acronyms = ["ID", "URL"] no Go identifier
    keeps `Id` / `Url` (definitions, fields, alias targets, map values). C04: TypeScript keeps the payloads Option<T> and Option<Option<T>> of newtype
    variants apart; in every language a field with a per-language type override is marked optional exactly when it is Option<T> or has serde(default).
    C03: a #[typeshare] associated const inside an impl block is generated or reported, not silently left out; a file reachable through two of the
    given directories is generated once. C01: the fields of struct variants
    follow rename_all_fields of the enum resp. rename_all of the variant. C14: run from inside the crate directory the module is still named after it. C15: doc text with backslashes leaves the Python module parsable."""
    pid = os.environ.get('VERIF_PID')
    def mine(m):
        return m is None or pid is None or pid not in ('C01', 'C03', 'C04', 'C12', 'C14', 'C15', 'C20') or ('(%s)' % pid) in m or not re.match(r'\(C\d\d\)', m)
    if mode_arg == 'check':
        if payload.get('kf'):
            m = kf_case(exe, payload['kf'])
            if m:
                witness(payload, m)
            print('input passes'); return
        m = assoc_const_case(exe) if payload.get('assoc_const') else extras_case(exe, payload['lang'], payload['ext'], payload['largs'])
        if m and mine(m):
            witness(payload, m)
        print('input passes'); return
    for (lang, ext, largs) in WF_LANGS[:6]:
        m = extras_case(exe, lang, ext, largs)
        if m and mine(m):
            witness({'lang': lang, 'ext': ext, 'largs': largs}, m)
    m = assoc_const_case(exe)
    if m and mine(m):
        witness({'assoc_const': True}, m)
    m = kf_folder_case(exe, 'dot_crate_name')
    if m and mine('(C14) ' + m):
        witness({'kf': 'dot_crate_name'}, '(C14) ' + m)
    m = kf_round18_case(exe, 'two_roots')
    if m and mine('(C03) ' + m):
        witness({'kf': 'two_roots'}, '(C03) ' + m)
    print('no failing input among 6 languages + 1 associated const')


SCENARIOS = {'runs': scenario_runs, 'config': scenario_config, 'determinism': scenario_determinism, 'robust': scenario_robust, 'unsupported': scenario_unsupported, 'multifile': scenario_multifile, 'wellformed': scenario_wellformed, 'refnames': scenario_refnames, 'targetos': scenario_targetos, 'extras': scenario_extras}


def main():
    sc, mode_arg = sys.argv[1], sys.argv[2]
    payload = json.loads(sys.argv[3]) if len(sys.argv) > 3 else None
    os.makedirs(WORK, exist_ok=True)
    exe = build_cli()
    SCENARIOS[sc](exe, mode_arg, payload)


if __name__ == '__main__':
    main()
