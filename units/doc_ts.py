"""U-doc_ts: TypeScript::write_comments, verbatim, over a ghost text sink.  Serves C15 (kernel, block comments): given that every doc
string has been passed through the `*/` -> `*\\/` replacement (assumed: the replacement leaves no `*/`), the text appended for a
non-empty comment list is  indentation + `/*` + body + `*/` + LF  where the body - the literals' own pieces, the indentation, the
escaped doc strings, the separator - contains no `*/`: the comment ends exactly where the writer ends it."""
from rsx import A, ins, rep, drop
from vunit import Item, Unit
import fmtcommon as F
import optcommon as O

SRC = 'core/src/language/typescript.rs'

PRELUDE = r'''
// ---------- T7 stubs
#[verifier::external_body] pub struct IoError { _p: u8 }
#[verifier::external_body] pub struct WriteSink { _p: u8 }
impl View for WriteSink { type V = Seq<char>; uninterp spec fn view(&self) -> Seq<char>; }
pub struct TypeScript { _p: u8 }

/// outlined (T3): `comments.iter().map(|c| c.replace("*/", "*\\/")).collect()` - ASSUMED: str::replace of every `*/` by `*\/` leaves no
/// `*/` (the replacement text does not contain one and cannot complete one with its neighbours: it ends in `\/` and starts with `*\`)
#[verifier::external_body]
fn escape_all(comments: &[String]) -> (r: Vec<String>)
    ensures r@.len() == comments@.len(), forall|i: int| 0 <= i < r@.len() ==> !has_close(#[trigger] r@[i]@)
{ unimplemented!() }
/// `"\t".repeat(n)`
pub uninterp spec fn tabs(n: usize) -> Seq<char>;
#[verifier::external_body]
fn tabs_of(n: usize) -> (r: String) ensures r@ == tabs(n), all_tabs(tabs(n)) { unimplemented!() }
/// `comments.first().unwrap()` on a non-empty vector
#[verifier::external_body]
fn first_of(v: &Vec<String>) -> (r: &String) requires v@.len() > 0 ensures *r == v@[0] { unimplemented!() }
/// `[String]::join(&sep)`
#[verifier::external_body]
fn join_with(v: &Vec<String>, sep: &String) -> (r: String) ensures r@ == join(strs(v@), sep@) { unimplemented!() }
'''

COMMENTS = [
    rep(A.text('&mut dyn Write'), '&mut WriteSink', tag='T7'),
    ins(A.ret(), '(r: ', where='before'), ins(A.ret(), ')', where='after'),
    ins(A.sig(), '''
        ensures /*C15 C10: the block comment ends exactly where the writer ends it*/
            r is Ok ==> (comments@.len() == 0 ==> final(w)@ == old(w)@)
                && (comments@.len() > 0 ==> exists|t: Seq<char>| #[trigger] block_commented(t) && final(w)@ == old(w)@ + t),
''', cid='write_comments.contract'),
    ins(A.body_start(), '''
        let ghost w0 = w@;'''),
    rep(A.text('comments.iter().map(|c| c.replace("*/", "*\\\\/")).collect()'), 'escape_all(comments)', tag='T3',
        note='ASSUMED: replacing every `*/` leaves no `*/`'),
    rep(A.text('comments.first().unwrap()'), 'first_of(&comments)', tag='T3'),
    rep(A.text('comments.join(&'), 'join_with(&comments, &', tag='T3'),
    ins(A.text('writeln!(w, "{}", comment)?;'), '''proof {
                // the opening / closing marks and the text around the doc strings are whatever the literals say (ghost constants + character
                // lemmas): the proof needs them to start with `/*`, end with `*/`, contain no `*/` in between and not to complete one at the
                // seams with a doc string (which may start with `/` and end with `*`)
                fmt_write_comments_0_p0_chars(); fmt_write_comments_0_p1_chars(); fmt_write_comments_0_p2_chars();
                fmt_write_comments_1_p0_chars(); fmt_write_comments_1_p1_chars();
                fmt_write_comments_2_p0_chars(); fmt_write_comments_2_p1_chars(); fmt_write_comments_2_p2_chars(); fmt_write_comments_2_p3_chars(); fmt_write_comments_2_p4_chars();
                reveal_strlit("\\n");
                let tb = tabs(indent);
                lemma_tabs_no_close(tb);
                if comments@.len() == 1 {
                    let (p0, p1, p2) = (fmt_write_comments_0_p0(), fmt_write_comments_0_p1(), fmt_write_comments_0_p2());
                    let c = comments@[0]@;
                    assert(p1.len() >= 2 && p1[0] == '/' && p1[1] == '*' && p2.len() >= 2 && p2[p2.len() - 2] == '*' && p2[p2.len() - 1] == '/');
                    let r1 = p1.subrange(2, p1.len() as int);
                    let r2 = p2.subrange(0, p2.len() - 2);
                    assert(!has_close(r1) && !has_close(r2) && r1.len() > 0 && r1.last() != '*' && (r2.len() == 0 || r2[0] != '/'));
                    lemma_no_close_concat(r1, c);
                    lemma_no_close_concat(r1 + c, r2);
                    let body = r1 + c + r2;
                    assert(all_tabs(p0 + tb));
                    assert(wit2(p0 + tb, body));
                    assert(p1 =~= open_mark() + r1 && p2 =~= r2 + close_mark());
                    assert(comment@ + "\\n"@ =~= (p0 + tb) + open_mark() + body + close_mark() + lf());
                    assert(block_commented(comment@ + "\\n"@));
                } else {
                    let (s0, s1) = (fmt_write_comments_1_p0(), fmt_write_comments_1_p1());
                    let sep = s0 + tb + s1;
                    assert(!has_close(s0) && !has_close(s1) && s0.len() > 0 && s0[0] != '/' && s0.last() != '*' && s1.len() > 0 && s1[0] != '/' && s1.last() != '*');
                    lemma_no_close_concat(s0, tb);
                    lemma_no_close_concat(s0 + tb, s1);
                    assert(sep.len() > 0 && sep[0] == s0[0] && sep.last() == s1.last());
                    assert forall|i: int| 0 <= i < strs(comments@).len() implies !has_close(#[trigger] strs(comments@)[i]) by { assert(strs(comments@)[i] == comments@[i]@); }
                    lemma_join_no_close(strs(comments@), sep);
                    let joined = join(strs(comments@), sep);
                    let (p0, p1, p2, p3, p4) = (fmt_write_comments_2_p0(), fmt_write_comments_2_p1(), fmt_write_comments_2_p2(), fmt_write_comments_2_p3(), fmt_write_comments_2_p4());
                    assert(p1.len() >= 2 && p1[0] == '/' && p1[1] == '*' && p4.len() >= 2 && p4[p4.len() - 2] == '*' && p4[p4.len() - 1] == '/');
                    let r1 = p1.subrange(2, p1.len() as int);
                    let r4 = p4.subrange(0, p4.len() - 2);
                    assert(!has_close(r1) && !has_close(p2) && !has_close(p3) && !has_close(r4));
                    assert(r1.len() > 0 && r1.last() != '*' && p2.len() > 0 && p2[0] != '/' && p2.last() != '*' && p3.len() > 0 && p3[0] != '/' && p3.last() != '*' && (r4.len() == 0 || r4[0] != '/'));
                    let b1 = r1 + tb;      lemma_no_close_concat(r1, tb);      assert(b1.last() != '*');
                    let b2 = b1 + p2;      lemma_no_close_concat(b1, p2);      assert(b2.last() == p2.last());
                    let b3 = b2 + joined;  lemma_no_close_concat(b2, joined);
                    let b4 = b3 + p3;      lemma_no_close_concat(b3, p3);      assert(b4.last() == p3.last());
                    let b5 = b4 + tb;      lemma_no_close_concat(b4, tb);      assert(b5.last() != '*');
                    let body = b5 + r4;    lemma_no_close_concat(b5, r4);
                    assert(all_tabs(p0 + tb));
                    assert(wit2(p0 + tb, body));
                    assert(p1 =~= open_mark() + r1 && p4 =~= r4 + close_mark());
                    assert(comment@ + "\\n"@ =~= (p0 + tb) + open_mark() + body + close_mark() + lf());
                    assert(block_commented(comment@ + "\\n"@));
                }
            }
            ''', where='before'),
    ins(A.text('writeln!(w, "{}", comment)?;'), '''
            proof { assert(w@ =~= w0 + (comment@ + "\\n"@)); }''', where='after'),
]

UNIT = Unit(
    name='doc_ts', props=['C15', 'C07'], pre_verus=O.PRE_VERUS, spec_files=['txt.rs', 'seqjoin.rs', 'commented.rs'], prelude=PRELUDE,
    items=[
        Item('write_comments', SRC, ['impl TypeScript {', 'fn write_comments'], COMMENTS, wrap=('impl TypeScript {\n', '\n}\n'),
             auto=('fmt', ('tok', '"\\t".repeat(indent)', 'tabs_of(indent)', 'T3'))),
    ],
    functions=['TypeScript::write_comments'],
    trusted=['ASSUMED (outlined): after `c.replace("*/", "*\\\\/")` a doc string contains no `*/`',
             'T14: format! / writeln! sites through contracts generated from their literals (incl. the multi-line literal with named arguments)',
             'stubs: "\\t".repeat(n) is indentation; first().unwrap() on a non-empty vector; [String]::join'],
    undecided=['that the replacement really removes every `*/` (std str::replace: assumed) - bounded stand-in doc-search'],
)
UNIT.forbid = F.FORBID
UNIT.allowed_calls = {'is_empty', 'len'}


def native(workdir):
    import docsearch
    return docsearch.native(workdir)


def replay_args(inp):
    import docsearch
    return docsearch.replay_args(inp)
