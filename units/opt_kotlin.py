"""U-opt_kotlin: Kotlin::write_element (see optcommon)."""
from rsx import A, ins, rep, drop
from vunit import Item, Unit
import fmtcommon as F
import optcommon as O

SRC = 'core/src/language/kotlin.rs'

PRELUDE = O.PRELUDE + r'''
impl Kotlin {
    pub open spec fn cfg(&self) -> TCfg { TCfg { lang: Lang::Kotlin, map: self.type_mappings@, prefix: self.prefix@, no_pointer_slice: false } }
''' + O.FORMAT_TYPE_STUB % {'fmt': 'fmt_kotlin'} + r'''
    #[verifier::external_body]
    fn write_comments(&mut self, w: &mut WriteSink, indent: usize, comments: &[String]) -> (r: std::io::Result<()>)
        ensures r is Ok ==> final(w)@ == old(w)@ + comments_text(indent as int, comments@), final(self).cfg() == old(self).cfg(),
    { unimplemented!() }
}
/// parser.rs::remove_dash_from_identifier (`-` -> `_`): a pure function of the name
pub uninterp spec fn ident_of(name: Seq<char>) -> Seq<char>;
#[verifier::external_body]
fn remove_dash_from_identifier(name: &str) -> (r: String) ensures r@ == ident_of(name@) { unimplemented!() }
'''

ELEMENT = [
    rep(A.text('&mut dyn Write'), '&mut WriteSink', tag='T7'),
    ins(A.ret(), '(r: ', where='before'), ins(A.ret(), ')', where='after'),
    ins(A.sig(), '''
        requires obeys_key_model::<String>(), dom(f.ty),
        ensures /*C04*/ r is Ok ==> exists|pre: Seq<char>, t: Seq<char>, post: Seq<char>| #[trigger] wit3(pre, t, post)
                && field_type_ok(old(self).cfg(), generic_types@, *f, SupportedLanguage::Kotlin, t)
                && final(w)@ == old(w)@ + pre + member(Lang::Kotlin, ident_of(f.id.renamed@), t, *f) + post,
            final(self).cfg() == old(self).cfg(),
''', cid='write_element.contract'),
    ins(A.body_start(), '''
        let ghost w0 = w@;'''),
    ins(A.text('let ty = match'), '''let ghost w1 = w@;
        ''', where='before'),
    # T18: the tail expression is named so that a proof block can follow it (`{ let r = E; <proof> r }` is E)
    ins(A.text('match visibility {'), 'let res__ = ', where='before'),
    ins(A.body_end(), ''';
        proof {
            if res__ is Ok {
                // the text before the name is whatever the literals say (incidental: indentation, `val` / `private val`, the SerialName line)
                let head = match visibility { Visibility::Public => wfmt_write_element_2_p0(), Visibility::Private => wfmt_write_element_3_p0() };
                let tail = match visibility { Visibility::Public => wfmt_write_element_2_p3(), Visibility::Private => wfmt_write_element_3_p3() };
                let mid = w1.subrange(w0.len() as int, w1.len() as int);
                assert(w1 =~= w0 + mid);
                let pre = mid + head;
                // the override case: the text after `match f.type_override(..)` is the override, with the `?` of an Option<T> field (literal of the format! site)
                fmt_write_element_1_p0_chars(); fmt_write_element_1_p1_chars(); reveal_strlit("?");
                assert(wit3(pre, ty@, tail));
                assert(w@ =~= w0 + pre + member(Lang::Kotlin, ident_of(f.id.renamed@), ty@, *f) + tail);
            }
        }
        res__
    ''', where='before'),
]

UNIT = Unit(
    name='opt_kotlin', props=['C04', 'C07'], pre_verus=O.PRE_VERUS, spec_files=['std_slices.rs', 'seqjoin.rs', 'typexpr.rs', 'txt.rs', 'optmark.rs'], prelude=PRELUDE,
    items=O.base_items('Kotlin', SRC) + [
        Item('enum_Visibility', SRC, ['enum Visibility']),
        Item('write_element', SRC, ['impl Kotlin {', 'fn write_element'], ELEMENT, wrap=('impl Kotlin {\n#[verifier::rlimit(40)] // solver budget only: about 17 M resource units, the default cap is 30 M\n', '\n}\n'),
             auto=('fmt', 'strlit', 'then_some', 'map_err_q')),
    ],
    functions=['Kotlin::write_element', 'RustType::is_optional', 'RustType::is_double_optional'],
    trusted=O.TRUSTED + ['T18: the tail expression `match visibility {..}` is bound to a name so that a proof block can follow it'],
    undecided=O.UNDECIDED,
)
UNIT.crate_attrs = '#![feature(allocator_api)]'
UNIT.forbid = F.FORBID
UNIT.allowed_calls = O.ALLOWED


def native(workdir):
    import optsearch
    return optsearch.native(workdir)


def replay_args(inp):
    import optsearch
    return optsearch.replay_args(inp)
