"""U-fmt_ts: TypeScript's type-expression translator (see fmtcommon)."""
from rsx import A, ins, rep, drop
import fmtcommon as F

TS = 'core/src/language/typescript.rs'

PRELUDE = r'''
// ---------- T7 stubs (field types this unit only stores)
#[verifier::external_body] #[verifier::reject_recursive_types(K)] #[verifier::reject_recursive_types(V)] pub struct BTreeMap<K, V> { _k: ::core::marker::PhantomData<(K, V)> }
#[verifier::external_body] #[verifier::reject_recursive_types(K)] pub struct BTreeSet<K> { _k: ::core::marker::PhantomData<K> }
impl BTreeMap<String, BTreeSet<String>> {
    /// the type texts recorded for the ReviverFunc / ReplacerFunc footer (end_file writes the footer when this is not empty)
    pub uninterp spec fn keys(&self) -> Set<Seq<char>>;
}
/// outlined (T3): `if self.custom_translations(mapped).is_some() { self.types_for_custom_json_translation.insert(..) }` - bookkeeping for
/// the reviver footer; touches only that field and only adds (BTreeMap::insert)
#[verifier::external_body]
fn note_custom_translation(seen: &mut BTreeMap<String, BTreeSet<String>>, mapped: &String)
    ensures old(seen).keys().subset_of(final(seen).keys()),
{ unimplemented!() }
/// outlined (T3): `self.types_for_custom_json_translation.entry("Date".to_owned()).or_default();` - registers Date for the reviver footer
/// (BTreeMap entry API: the key is present afterwards, the others are kept); touches only that field
#[verifier::external_body]
fn note_date_translation(seen: &mut BTreeMap<String, BTreeSet<String>>)
    ensures final(seen).keys() == old(seen).keys().insert("Date"@),
{ unimplemented!() }
/// outlined (T3): std::iter::repeat(&s).take(n).join_with(sep) - n copies of s separated by sep (itertools)
#[verifier::external_body]
fn repeat_join(s: &String, n: usize, sep: &str) -> (r: String)
    ensures r@ == join(copies(s@, n), sep@)
{ unimplemented!() }
'''

SPECIAL = F.SPECIAL_HEAD + [
    rep(A.text('special_ty.to_string()'), 'special_to_string(special_ty)', tag='T16'),
    rep(A.span('if self.custom_translations(mapped).is_some() {', '.insert(mapped.to_string(), BTreeSet::new()); }'),
        'note_custom_translation(&mut self.types_for_custom_json_translation, mapped);', tag='T3',
        note='reviver bookkeeping: writes only types_for_custom_json_translation'),
    rep(A.span('std::iter::repeat(&formatted_type)', '.join_with('), 'repeat_join(&formatted_type, *len, ', tag='T3'),
    rep(A.span('self.types_for_custom_json_translation .entry("Date".to_owned())', '.or_default();'),
        'note_date_translation(&mut self.types_for_custom_json_translation);', tag='T3', note='reviver bookkeeping: writes only types_for_custom_json_translation'),
]

UNIT = F.make_unit('fmt_ts', 'TypeScript', TS, 'TypeScript',
                   'TCfg { lang: Lang::TypeScript, map: self.type_mappings@, prefix: Seq::empty(), no_pointer_slice: false }',
                   PRELUDE, SPECIAL,
                   trusted_extra=['outlined: reviver bookkeeping (touches only types_for_custom_json_translation; entry("Date").or_default() leaves the key Date present and keeps the others; the '
                                  'conditional insert only adds); repeat(..).take(n).join_with(sep) is n copies joined by sep'],
                   x12={
                       'frame': '/*C12: what is recorded for the reviver footer is never lost*/ old(self).types_for_custom_json_translation.keys().subset_of(final(self).types_for_custom_json_translation.keys()),',
                       'ty': '/*C12: a type expression that prints `Date` has recorded Date for the ReviverFunc / ReplacerFunc footer*/ (r is Ok && reaches(old(self).cfg(), *ty, Kind::DateTime)) ==> final(self).types_for_custom_json_translation.keys().contains("Date"@),',
                       'gen': '/*C12*/ (r is Ok && reaches_any(old(self).cfg(), *base, parameters@, Kind::DateTime)) ==> final(self).types_for_custom_json_translation.keys().contains("Date"@),',
                       'special': '/*C12*/ (r is Ok && reaches_special(old(self).cfg(), *special_ty, Kind::DateTime)) ==> final(self).types_for_custom_json_translation.keys().contains("Date"@),',
                       'inv': '\n                    /*C12*/ old(self).types_for_custom_json_translation.keys().subset_of(self.types_for_custom_json_translation.keys()), forall|k: int| 0 <= k < it.index@ ==> (reaches(c0, #[trigger] parameters@[k], Kind::DateTime) ==> self.types_for_custom_json_translation.keys().contains("Date"@)),',
                   })
UNIT.spec_files = list(UNIT.spec_files) + ['helpers.rs']


def _search():
    # the unit serves two properties: a failing input is looked for with the stand-in of the property being checked
    import os
    if os.environ.get('VERIF_PID') == 'C12':
        import helpersearch
        return helpersearch
    import typesearch
    return typesearch


def native(workdir):
    return _search().native(workdir)


def replay_args(inp):
    if 'trigger' in inp:
        import helpersearch
        return helpersearch.replay_args(inp)
    import typesearch
    return typesearch.replay_args(inp)
