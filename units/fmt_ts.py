"""U-fmt_ts: TypeScript's type-expression translator (see fmtcommon)."""
from rsx import A, ins, rep, drop
import fmtcommon as F

TS = 'core/src/language/typescript.rs'

PRELUDE = r'''
// ---------- T7 stubs (field types this unit only stores)
#[verifier::external_body] #[verifier::reject_recursive_types(K)] #[verifier::reject_recursive_types(V)] pub struct BTreeMap<K, V> { _k: ::core::marker::PhantomData<(K, V)> }
#[verifier::external_body] #[verifier::reject_recursive_types(K)] pub struct BTreeSet<K> { _k: ::core::marker::PhantomData<K> }
/// outlined (T3): `if self.custom_translations(mapped).is_some() { self.types_for_custom_json_translation.insert(..) }` - bookkeeping for
/// the reviver footer (C12's domain); touches only that field
#[verifier::external_body]
fn note_custom_translation(seen: &mut BTreeMap<String, BTreeSet<String>>, mapped: &String) { unimplemented!() }
/// outlined (T3): `self.types_for_custom_json_translation.entry("Date".to_owned()).or_default();` - registers Date for the reviver footer
/// (C12's domain); touches only that field
#[verifier::external_body]
fn note_date_translation(seen: &mut BTreeMap<String, BTreeSet<String>>) { unimplemented!() }
/// outlined (T3): std::iter::repeat(&s).take(n).join_with(sep) - n copies of s separated by sep (itertools)
#[verifier::external_body]
fn repeat_join(s: &String, n: usize, sep: &str) -> (r: String)
    ensures r@ == join(copies(s@, n), sep@)
{ unimplemented!() }
'''

SPECIAL = F.SPECIAL_HEAD + [
    rep(A.text('special_ty.to_string()'), 'special_to_string(special_ty)', tag='T16'),
    rep(A.span('if self.custom_translations(mapped).is_some() {', '.insert(mapped.to_string(), BTreeSet::new()); }'),
        'note_custom_translation(&mut self.types_for_custom_json_translation, mapped);', tag='T3',
        note='reviver bookkeeping: writes only types_for_custom_json_translation'),
    rep(A.span('std::iter::repeat(&formatted_type)', '.join_with('), 'repeat_join(&formatted_type, *len, ', tag='T3'),
    rep(A.span('self.types_for_custom_json_translation .entry("Date".to_owned())', '.or_default();'),
        'note_date_translation(&mut self.types_for_custom_json_translation);', tag='T3', note='reviver bookkeeping: writes only types_for_custom_json_translation'),
]

UNIT = F.make_unit('fmt_ts', 'TypeScript', TS, 'TypeScript',
                   'TCfg { lang: Lang::TypeScript, map: self.type_mappings@, prefix: Seq::empty(), no_pointer_slice: false }',
                   PRELUDE, SPECIAL,
                   trusted_extra=['outlined: reviver bookkeeping (touches only types_for_custom_json_translation); repeat(..).take(n).join_with(sep) is n copies joined by sep'])


def native(workdir):
    import typesearch
    return typesearch.native(workdir)


def replay_args(inp):
    import typesearch
    return typesearch.replay_args(inp)
