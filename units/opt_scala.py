"""U-opt_scala: Scala::write_element (see optcommon)."""
from rsx import A, ins, rep, drop
from vunit import Item, Unit
import fmtcommon as F
import optcommon as O

SRC = 'core/src/language/scala.rs'

PRELUDE = O.PRELUDE + r'''
impl Scala {
    pub open spec fn cfg(&self) -> TCfg { TCfg { lang: Lang::Scala, map: self.type_mappings@, prefix: Seq::empty(), no_pointer_slice: false } }
''' + O.FORMAT_TYPE_STUB % {'fmt': 'fmt_scala'} + r'''
    #[verifier::external_body]
    fn write_comments(&mut self, w: &mut WriteSink, indent: usize, comments: &[String]) -> (r: std::io::Result<()>)
        ensures r is Ok ==> final(w)@ == old(w)@ + comments_text(indent as int, comments@), final(self).cfg() == old(self).cfg(),
    { unimplemented!() }
}
/// parser.rs::remove_dash_from_identifier (`-` -> `_`): a pure function of the name
pub uninterp spec fn ident_of(name: Seq<char>) -> Seq<char>;
#[verifier::external_body]
fn remove_dash_from_identifier(name: &str) -> (r: String) ensures r@ == ident_of(name@) { unimplemented!() }
'''

ELEMENT = [
    rep(A.text('&mut dyn Write'), '&mut WriteSink', tag='T7'),
    ins(A.ret(), '(r: ', where='before'), ins(A.ret(), ')', where='after'),
    ins(A.sig(), '''
        requires obeys_key_model::<String>(), dom(f.ty),
        ensures /*C04 (silent inside the recorded finding kf-c04-scala-default)*/
            (r is Ok && !kf_scala_default(*f)) ==> exists|pre: Seq<char>, t: Seq<char>, post: Seq<char>| #[trigger] wit3(pre, t, post)
                && field_type_ok(old(self).cfg(), generic_types@, *f, SupportedLanguage::Scala, t)
                && final(w)@ == old(w)@ + pre + member(Lang::Scala, ident_of(f.id.renamed@), t, *f) + post,
            final(self).cfg() == old(self).cfg(),
''', cid='write_element.contract'),
    ins(A.body_start(), '''
        let ghost w0 = w@;'''),
    ins(A.text('let ty = match'), '''let ghost w1 = w@;
        ''', where='before'),
    # T18: the tail expression is named so that a proof block can follow it
    ins(A.text('write!( w,'), 'let res__ = ', where='before'),
    ins(A.body_end(), ''';
        proof {
            if res__ is Ok && !kf_scala_default(*f) {
                let mid = w1.subrange(w0.len() as int, w1.len() as int);
                assert(w1 =~= w0 + mid);
                let pre = mid + wfmt_write_element_1_p0();
                let tail = wfmt_write_element_1_p3();
                // the override case: `Option[` override `]` for an Option<T> field (literal of the format! site)
                fmt_write_element_0_p0_chars(); fmt_write_element_0_p1_chars(); reveal_strlit("Option["); reveal_strlit("]");
                assert(wit3(pre, ty@, tail));
                assert(w@ =~= w0 + pre + member(Lang::Scala, ident_of(f.id.renamed@), ty@, *f) + tail);
            }
        }
        res__
    ''', where='before'),
]

UNIT = Unit(
    name='opt_scala', props=['C04', 'C07'], pre_verus=O.PRE_VERUS, spec_files=['std_slices.rs', 'seqjoin.rs', 'typexpr.rs', 'txt.rs', 'optmark.rs'], prelude=PRELUDE,
    items=O.base_items('Scala', SRC) + [
        Item('write_element', SRC, ['impl Scala {', 'fn write_element'], ELEMENT, wrap=('impl Scala {\n', '\n}\n'),
             auto=('fmt', 'strlit', 'then_some', 'map_err_q')),
    ],
    functions=['Scala::write_element', 'RustType::is_optional', 'RustType::is_double_optional'],
    trusted=O.TRUSTED + ['T18: the tail expression `write!(..)` is bound to a name so that a proof block can follow it',
                         'known finding kf-c04-scala-default carved out of the contract (predicate kf_scala_default)'],
    undecided=O.UNDECIDED,
)
UNIT.crate_attrs = '#![feature(allocator_api)]'
UNIT.forbid = F.FORBID
UNIT.allowed_calls = O.ALLOWED


def native(workdir):
    import optsearch
    return optsearch.native(workdir)


def replay_args(inp):
    import optsearch
    return optsearch.replay_args(inp)
