"""U-annot: annotation/src/lib.rs - the `typeshare` attribute macro and strip_configuration_attribute (with its two nested functions),
verbatim, over plain-struct stand-ins for the parts of syn's DeriveInput tree the code touches.  Serves C19 (kernel): the macro hands the
item back with exactly the `typeshare` attributes removed from every variant, every field of every variant, every struct field and every
union field - nothing else of the tree changes, no such attribute is left at any of these positions - and hands anything that is not a
struct / enum / union back untouched.  C07."""
from rsx import A, ins, rep, drop
from vunit import Item, Unit

SRC = 'annotation/src/lib.rs'

PRELUDE = r'''
// ---------- T7: the part of syn's tree strip_configuration_attribute walks, as plain structs (Punctuated<T, P> as Vec<T>; syn::Fields - Named /
// Unnamed / Unit - as the sequence its iter_mut() yields; everything the code does not touch is an opaque `rest`)
#[verifier::external_body] pub struct TokenStream { _p: u8 }
#[verifier::external_body] pub struct Attribute { _p: u8 }
#[verifier::external_body] pub struct FieldRest { _p: u8 }
#[verifier::external_body] pub struct VariantRest { _p: u8 }
#[verifier::external_body] pub struct DataRest { _p: u8 }
#[verifier::external_body] pub struct InputRest { _p: u8 }
pub struct Field { pub attrs: Vec<Attribute>, pub rest: FieldRest }
pub struct FieldsNamed { pub named: Vec<Field>, pub rest: DataRest }
pub struct FieldsUnnamed { pub unnamed: Vec<Field>, pub rest: DataRest }
pub enum Fields { Named(FieldsNamed), Unnamed(FieldsUnnamed), Unit }
/// the fields in the order syn's Fields::iter_mut() yields them
pub open spec fn seq_of(f: Fields) -> Seq<Field> { match f { Fields::Named(x) => x.named@, Fields::Unnamed(x) => x.unnamed@, Fields::Unit => Seq::empty() } }
/// everything of a Fields value but the fields themselves: which of the three shapes it is, and the shape's rest (braces / parentheses)
pub open spec fn frame_of(f: Fields) -> (int, Option<DataRest>) { match f { Fields::Named(x) => (0, Some(x.rest)), Fields::Unnamed(x) => (1, Some(x.rest)), Fields::Unit => (2, None) } }
/// T4 - syn: `Fields::iter_mut()` iterates over the named / unnamed fields (none for Unit); as a mutable view of that list (ASSUMED: the list is
/// the only part of the value reachable through it)
#[verifier::external_body]
fn fields_vec_mut(f: &mut Fields) -> (r: &mut Vec<Field>)
    ensures r@ == seq_of(*old(f)), seq_of(*final(f)) == final(r)@, frame_of(*final(f)) == frame_of(*old(f))
{ unimplemented!() }
pub struct Variant { pub attrs: Vec<Attribute>, pub fields: Fields, pub rest: VariantRest }
pub struct DataEnum { pub variants: Vec<Variant>, pub rest: DataRest }
pub struct DataStruct { pub fields: Fields, pub rest: DataRest }
pub struct DataUnion { pub fields: FieldsNamed, pub rest: DataRest }
pub enum Data { Struct(DataStruct), Enum(DataEnum), Union(DataUnion) }
pub struct DeriveInput { pub attrs: Vec<Attribute>, pub data: Data, pub rest: InputRest }

// quote / proc_macro2 printing of an attribute's path: `x.path().to_token_stream().to_string()` (uninterpreted, a function of the attribute)
#[verifier::external_body] pub struct SynPath { _p: u8 }
#[verifier::external_body] pub struct Tokens { _p: u8 }
pub uninterp spec fn path_text(a: Attribute) -> Seq<char>;
pub uninterp spec fn tokens_text(t: Tokens) -> Seq<char>;
pub uninterp spec fn path_tokens(p: SynPath) -> Tokens;
pub uninterp spec fn attr_path(a: Attribute) -> SynPath;
impl Attribute { #[verifier::external_body] pub fn path(&self) -> (r: &SynPath) ensures *r == attr_path(*self), tokens_text(path_tokens(*r)) == path_text(*self) { unimplemented!() } }
impl SynPath { #[verifier::external_body] pub fn to_token_stream(&self) -> (r: Tokens) ensures r == path_tokens(*self) { unimplemented!() } }
impl Tokens { #[verifier::external_body] pub fn to_string(&self) -> (r: String) ensures r@ == tokens_text(*self) { unimplemented!() } }
/// C19: THE typeshare attributes - those whose path prints as `typeshare`
pub open spec fn is_config(a: Attribute) -> bool { path_text(a) == "typeshare"@ }
pub open spec fn kept(s: Seq<Attribute>) -> Seq<Attribute> { s.filter(|a: Attribute| !is_config(a)) }

// ---------- C19 vocabulary: `new` is `old` with exactly the typeshare attributes removed
pub open spec fn field_stripped(o: Field, n: Field) -> bool { n.attrs@ == kept(o.attrs@) && n.rest == o.rest }
pub open spec fn fields_stripped(o: Seq<Field>, n: Seq<Field>) -> bool {
    n.len() == o.len() && forall|k: int| 0 <= k < o.len() ==> field_stripped(#[trigger] o[k], n[k])
}
/// a Fields value: same shape, same rest, every field stripped
pub open spec fn shape_stripped(o: Fields, n: Fields) -> bool { frame_of(n) == frame_of(o) && fields_stripped(seq_of(o), seq_of(n)) }
pub open spec fn variant_stripped(o: Variant, n: Variant) -> bool {
    n.attrs@ == kept(o.attrs@) && shape_stripped(o.fields, n.fields) && n.rest == o.rest
}
pub open spec fn data_stripped(o: Data, n: Data) -> bool {
    match (o, n) {
        (Data::Enum(a), Data::Enum(b)) => b.rest == a.rest && b.variants@.len() == a.variants@.len()
            && forall|k: int| 0 <= k < a.variants@.len() ==> variant_stripped(#[trigger] a.variants@[k], b.variants@[k]),
        (Data::Struct(a), Data::Struct(b)) => b.rest == a.rest && shape_stripped(a.fields, b.fields),
        (Data::Union(a), Data::Union(b)) => b.rest == a.rest && b.fields.rest == a.fields.rest && fields_stripped(a.fields.named@, b.fields.named@),
        _ => false,
    }
}
pub open spec fn input_stripped(o: DeriveInput, n: DeriveInput) -> bool {
    n.attrs@ == o.attrs@ && n.rest == o.rest && data_stripped(o.data, n.data)
}

/// T14b - `v.retain(P)`: ASSUMED (std: Vec::retain keeps exactly the elements the predicate accepts, in order); the predicate stays the
/// source's text, as a closure with a stated contract, `keep` being that contract as a specification function
#[verifier::external_body]
fn retain_by<F: Fn(&Attribute) -> bool>(v: &mut Vec<Attribute>, Ghost(keep): Ghost<spec_fn(Attribute) -> bool>, f: F)
    requires forall|x: &Attribute| #[trigger] f.requires((x,)), forall|x: &Attribute, b: bool| #[trigger] f.ensures((x,), b) ==> b == keep(*x)
    ensures final(v)@ == old(v)@.filter(keep)
{ unimplemented!() }

// ---------- the macro's own frame: parsing and printing are syn / quote (uninterpreted functions of their argument)
pub uninterp spec fn parsed(ts: TokenStream) -> Option<DeriveInput>;
pub uninterp spec fn printed(i: DeriveInput) -> TokenStream;
pub struct ParseError { pub _p: u8 }
/// syn::parse::<DeriveInput>
#[verifier::external_body]
fn parse_derive_input(ts: TokenStream) -> (r: Result<DeriveInput, ParseError>)
    ensures match r { Ok(i) => parsed(ts) == Some(i), Err(_) => parsed(ts) is None }
{ unimplemented!() }
impl Clone for TokenStream { #[verifier::external_body] fn clone(&self) -> (r: Self) ensures r == *self { unimplemented!() } }
/// TokenStream::from(item.to_token_stream())
#[verifier::external_body]
fn print_item(i: &DeriveInput) -> (r: TokenStream) ensures r == printed(*i) { unimplemented!() }
'''

ITER_INV = '''
            invariant
                {it}.snapshot@.remaining().len() == {v0}.len(),
                forall|k: int| 0 <= k < {v0}.len() ==> *final(#[trigger] {it}.snapshot@.remaining()[k]) == final({vec})@[k],
                forall|k: int| 0 <= k < {v0}.len() ==> *(#[trigger] {it}.snapshot@.remaining()[k]) == {v0}[k],
                {it}.history@ =~= {it}.snapshot@.remaining().take({it}.index@ as int),
                {it}.index@ <= {v0}.len(),
                {it}.iter.remaining() =~= {it}.snapshot@.remaining().skip({it}.index@ as int),
                forall|k: int| 0 <= k < {it}.index@ ==> {rel}({v0}[k], #[trigger] final({vec})@[k]),
'''

STRIP = [
    # ---- nested fn remove_configuration_from_attributes
    ins(A.sig(fn='remove_configuration_from_attributes'), '''
        ensures /*C19: exactly the typeshare attributes go, the others stay in order*/ final(attributes)@ == kept(old(attributes)@),
    ''', cid='remove_configuration_from_attributes.contract'),
    rep(A.text('const CONFIG_ATTRIBUTE_NAME: &str'), "const CONFIG_ATTRIBUTE_NAME: &'static str", tag='T4', note='the elided lifetime of a const item is static (Rust reference)'),
    rep(A.text('attributes.retain(|x|'), 'proof { reveal_strlit("typeshare"); }\n        retain_by(attributes, Ghost(|a: Attribute| !is_config(a)), |x: &Attribute| -> (b: bool) '
        'ensures /*C19: an attribute stays exactly when its path does not print as `typeshare`*/ b == !is_config(*x) {', tag='T14b',
        note='Vec::retain as a function taking the predicate; the predicate stays the source\'s text'),
    rep(A.next_tok('!= CONFIG_ATTRIBUTE_NAME', ')'), '})', tag='T14b'),
    # ---- nested fn remove_configuration_from_fields
    ins(A.sig(fn='remove_configuration_from_fields'), '''
        ensures /*C19: every field - named or unnamed - and nothing but its typeshare attributes*/ shape_stripped(*old(fields), *final(fields)),
    ''', cid='remove_configuration_from_fields.contract'),
    ins(A.body_start(fn='remove_configuration_from_fields'), '''
        let ghost f0 = seq_of(*fields);
        let fv__ = fields_vec_mut(fields);'''),
    rep(A.text('fields.iter_mut()', nth=1), 'itf: fv__.iter_mut()', tag='T4', note='syn::Fields::iter_mut() as iteration over the list of its fields'),
    ins(A.loop(0, fn='remove_configuration_from_fields'), ITER_INV.format(it='itf', v0='f0', vec='fv__', rel='field_stripped') + '''                f0 == seq_of(*old(fields)),
''', cid='remove_configuration_from_fields.invariant'),
    ins(A.loop_body(0, fn='remove_configuration_from_fields'), '''
            let ghost j0 = itf.index@;
            proof { assert(itf.snapshot@.remaining()[j0] == field); assert(*field == f0[j0]); }'''),
    # ---- the match
    ins(A.sig(fn='strip_configuration_attribute'), '''
    ensures /*C19: only the typeshare attributes themselves are removed - at every variant, every field of a variant, every struct field, every union field*/
        input_stripped(*old(item), *final(item)),
''', cid='strip_configuration_attribute.contract'),
    rep(A.text('match item.data {'), 'let ghost d0 = item.data;\n    match &mut item.data {', tag='T4', note='`match x { P(ref mut b) => .. }` is `match &mut x { P(b) => .. }` (binding modes, Rust reference)'),
    rep(A.text('Data::Enum(ref mut data_enum)'), 'Data::Enum(data_enum)', tag='T4'),
    rep(A.text('Data::Struct(ref mut data_struct)'), 'Data::Struct(data_struct)', tag='T4'),
    rep(A.text('Data::Union(ref mut data_union)'), 'Data::Union(data_union)', tag='T4'),
    ins(A.text('for variant in data_enum.variants.iter_mut()'), 'let ghost v0 = data_enum.variants@;\n            let variants__ = &mut data_enum.variants;\n            ', where='before'),
    rep(A.text('data_enum.variants.iter_mut()'), 'itv: variants__.iter_mut()', tag='T4', note='the reborrow is named so that its final value can be mentioned'),
    ins(A.loop(1, fn='strip_configuration_attribute'), ITER_INV.format(it='itv', v0='v0', vec='variants__', rel='variant_stripped'), cid='strip.variants_invariant'),
    ins(A.loop_body(1, fn='strip_configuration_attribute'), '''
                let ghost k0 = itv.index@;
                let ghost va = *variant;
                proof { assert(itv.snapshot@.remaining()[k0] == variant); assert(va == v0[k0]); }'''),
    ins(A.text('for field in data_union.fields.named.iter_mut()'), 'let ghost u0 = data_union.fields.named@;\n            let named__ = &mut data_union.fields.named;\n            ', where='before'),
    rep(A.text('data_union.fields.named.iter_mut()'), 'itu: named__.iter_mut()', tag='T4'),
    ins(A.loop(2, fn='strip_configuration_attribute'), ITER_INV.format(it='itu', v0='u0', vec='named__', rel='field_stripped'), cid='strip.union_invariant'),
    ins(A.loop_body(2, fn='strip_configuration_attribute'), '''
                let ghost j0 = itu.index@;
                proof { assert(itu.snapshot@.remaining()[j0] == field); assert(*field == u0[j0]); }'''),
]

MACRO = [
    ins(A.ret(), '(r: ', where='before'), ins(A.ret(), ')', where='after'),
    ins(A.sig(), '''
    ensures /*C19: a struct / enum / union comes back printed from the tree with only the typeshare attributes removed; anything else (type alias, const, fn) comes back untouched*/
        match parsed(item) {
            Some(i) => exists|n: DeriveInput| #[trigger] input_stripped(i, n) && r == printed(n),
            None => r == item,
        },
''', cid='typeshare.contract'),
    rep(A.text('parse::<DeriveInput>(item.clone())'), 'parse_derive_input(item.clone())', tag='T7'),
    rep(A.text('TokenStream::from(item.to_token_stream())'), 'print_item(&item)', tag='T7'),
]

UNIT = Unit(
    name='annot', props=['C19', 'C07'], prelude=PRELUDE, pre_verus='use vstd::std_specs::iter::IteratorSpec;\n',
    items=[
        Item('strip_configuration_attribute', SRC, ['fn strip_configuration_attribute'], STRIP,
             # T15: `String != &str` (std: compares as str) has no specification in vstd, `as_str() != ..` has
             auto=(('tok', '.to_string() != CONFIG_ATTRIBUTE_NAME', '.to_string().as_str() != CONFIG_ATTRIBUTE_NAME', 'T15'),
                   ('tok', '.to_string() == CONFIG_ATTRIBUTE_NAME', '.to_string().as_str() == CONFIG_ATTRIBUTE_NAME', 'T15'))),
        Item('typeshare', SRC, ['fn typeshare'], MACRO),
    ],
    functions=['strip_configuration_attribute', 'strip_configuration_attribute::remove_configuration_from_attributes', 'strip_configuration_attribute::remove_configuration_from_fields', 'typeshare'],
    trusted=[
        'T7: syn::DeriveInput / Data / DataEnum / DataStruct / DataUnion / Variant / Field as plain structs holding what the code touches (attrs, fields, variants) '
        'plus an opaque rest; Punctuated<T, P> as Vec<T>; syn::Fields as an enum Named / Unnamed / Unit whose iter_mut() is a mutable view of the field list (assumed); proc_macro::TokenStream opaque',
        'ASSUMED: Vec::retain keeps exactly the elements its predicate accepts, in order; the predicate itself (the path printed through quote equals `typeshare`) is verified, the printing is an uninterpreted function of the attribute',
        'vstd\'s prophetic specification of slice::IterMut is trusted',
        'ASSUMED: syn::parse::<DeriveInput> and quote printing are functions of their argument (parsed / printed: uninterpreted); printing a tree whose '
        'other parts are unchanged prints them unchanged is NOT part of the contract',
    ],
    undecided=[
        'what rustc and serde_derive make of the printed item (compiles exactly when the un-annotated program does, same serialised form) - bounded stand-in twin_programs',
        'that re-printing an unchanged part of the tree through quote yields equivalent tokens (spans / hygiene)',
    ],
)
UNIT.allowed_calls = {'iter_mut', 'clone', 'as_str'}
UNIT.forbid = ['.to_string() !=', '.to_string() ==', 'format!', '.contains(']


def native(workdir):
    import twins
    return twins.native(workdir)


def replay_args(inp):
    import twins
    return twins.replay_args(inp)
