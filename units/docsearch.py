"""bounded stand-in for C15: doc text from the property's alphabet at every documentable position, lexed in the generated code of all six
languages (replay binary, public API of /repo/core)"""
import os

import kf_replay


def native(workdir):
    """bounded search on the REAL crates through parse() and generate_types of all six back ends: 18 doc strings over the property's alphabet
    (plain text, line feed, carriage return, `*/`, `/*`, `//`, triple double / single quotes, backslashes incl. a trailing one, `#`,
    backtick, `*/ LF .. LF /*`, a docstring-shaped text, quote runs of four and five, a backslash right before a quote run, ragged
    indentation after a line break), each carrying a marker after the dangerous sequence, written as `///` lines,
    `/** */` block or #[doc = ".."] (50 combinations), each also in godoc style (the text starts with the item's name, names end in `Id`, Go
    configured with an acronym list), attached to 12 documentable positions (struct, field, unit enum and its variants,
    algebraic enum, tuple / struct / unit variant, struct-variant field, alias).  The generated text of every language is lexed with that
    language's comment and string rules (nested block comments for Kotlin / Swift / Scala, CR ends a Swift line comment, Python triple-quoted
    strings with escapes): the doc text must be reproduced and no marker may lie outside a comment / docstring."""
    exe = kf_replay.replay_bin()
    if not exe:
        return None, 'replay binary does not build: ' + kf_replay._bin.get('err', '')
    w = os.path.join(workdir, 'native_docsearch.sh')
    with open(w, 'w') as f:
        f.write('#!/bin/sh\nsub=$1; shift\nexec %s doc-$sub "$@"\n' % exe)
    os.chmod(w, 0o755)
    return w, ''


def replay_args(inp):
    return [str(inp['doc']), str(inp['form'])]
