"""U-impwrite: TypeScript::write_imports and Kotlin::write_imports, verbatim, over a ghost text sink.  Serves C14 (kernel, the last hop of the
import table): the text written is one statement per (module, names) entry of the table - in the table's order, naming exactly that module and
exactly its names (TypeScript: one statement listing the names; Kotlin: one statement per name) - followed by an empty line.  C07."""
from rsx import A, ins, rep, drop
from vunit import Item, Unit
import fmtcommon as F
import optcommon as O

PRELUDE = r'''
// ---------- T7 stubs
#[verifier::external_body] pub struct IoError { _p: u8 }
#[verifier::external_body] pub struct WriteSink { _p: u8 }
impl View for WriteSink { type V = Seq<char>; uninterp spec fn view(&self) -> Seq<char>; }
#[verifier::external_body] pub struct CrateName { _p: u8 }
impl View for CrateName { type V = Seq<char>; uninterp spec fn view(&self) -> Seq<char>; }
/// impl Display for CrateName writes the name
impl Txt for CrateName { open spec fn tv(&self) -> Seq<char> { self@ } open spec fn dv(&self) -> Seq<char> { debug_str(self@) } }
/// BTreeSet<&str>: the names imported from one module, in the set's (sorted) order
#[verifier::external_body] pub struct NameSet<'a> { _p: &'a u8 }
impl<'a> NameSet<'a> { pub uninterp spec fn names(&self) -> Seq<Seq<char>>; }
pub type ScopedCrateTypes<'a> = ::std::collections::BTreeMap<&'a CrateName, NameSet<'a>>;
pub struct TypeScript { pub _p: u8 }
pub struct Kotlin { pub package: String, pub prefix: String }

// BTreeMap by-value iteration (T4, as in unit write): ordered entries as a sequence
#[verifier::external_type_specification]
#[verifier::external_body]
#[verifier::accept_recursive_types(K)]
#[verifier::accept_recursive_types(V)]
#[verifier::reject_recursive_types(A)]
pub struct ExBTreeIntoIter<K, V, A: ::std::alloc::Allocator + Clone>(::std::collections::btree_map::IntoIter<K, V, A>);
pub uninterp spec fn bt_entries<K, V, A: ::std::alloc::Allocator + Clone>(m: ::std::collections::BTreeMap<K, V, A>) -> Seq<(K, V)>;
pub uninterp spec fn bt_rest<K, V, A: ::std::alloc::Allocator + Clone>(it: ::std::collections::btree_map::IntoIter<K, V, A>) -> Seq<(K, V)>;
#[verifier::external_body]
fn bt_into_iter<K, V>(m: ::std::collections::BTreeMap<K, V>) -> (it: ::std::collections::btree_map::IntoIter<K, V>)
    ensures bt_rest(it) == bt_entries(m)
{ m.into_iter() }
#[verifier::external_body]
fn bt_next<K, V>(it: &mut ::std::collections::btree_map::IntoIter<K, V>) -> (r: Option<(K, V)>)
    ensures match r {
        None => bt_rest(*old(it)).len() == 0,
        Some(e) => bt_rest(*old(it)).len() > 0 && e == bt_rest(*old(it))[0] && bt_rest(*final(it)) == bt_rest(*old(it)).drop_first(),
    }
{ it.next() }
/// T3: `ty.iter().join(", ")` (itertools): the names in order, separated
#[verifier::external_body]
fn join_names(ty: &NameSet, sep: &str) -> (r: String) ensures r@ == join(ty.names(), sep@) { unimplemented!() }
/// T4: `for t in ty` over a BTreeSet<&str> by value: its elements in order
#[verifier::external_body]
fn names_vec<'a>(ty: NameSet<'a>) -> (r: Vec<&'a str>)
    ensures r@.len() == ty.names().len(), forall|j: int| 0 <= j < r@.len() ==> (#[trigger] r@[j])@ == ty.names()[j]
{ unimplemented!() }

// ---------- C14 vocabulary: the statements that one entry of the import table must produce
pub open spec fn module_of<'a>(e: (&'a CrateName, NameSet<'a>)) -> Seq<char> { e.0@ }
pub open spec fn names_of<'a>(e: (&'a CrateName, NameSet<'a>)) -> Seq<Seq<char>> { e.1.names() }
/// Kotlin: one statement per name
/// (C09 meets C14 here: the name imported is the name the other module defines it under - with the configured prefix)
pub open spec fn kt_lines(pre: Seq<char>, pkg: Seq<char>, dot1: Seq<char>, module: Seq<char>, dot2: Seq<char>, pfx: Seq<char>, names: Seq<Seq<char>>, n: int) -> Seq<Seq<char>>
    decreases n
{
    if n <= 0 { Seq::empty() } else { kt_lines(pre, pkg, dot1, module, dot2, pfx, names, n - 1).push(pre + pkg + dot1 + module + dot2 + pfx + names[n - 1] + lf()) }
}
'''

PRE_VERUS = O.PRE_VERUS

TS = [
    rep(A.text('&mut dyn Write'), '&mut WriteSink', tag='T7'),
    ins(A.ret(), '(r: ', where='before'), ins(A.ret(), ')', where='after'),
    ins(A.sig(), '''
        ensures /*C14: one import statement per entry of the table, in its order, naming exactly the entry's module and exactly its names*/
            r is Ok ==> exists|stmts: Seq<Seq<char>>| #[trigger] stmts.len() == bt_entries(imports).len()
                && (forall|k: int| 0 <= k < stmts.len() ==> #[trigger] stmts[k] ==
                        wfmt_ts_write_imports_0_p0() + join(names_of(bt_entries(imports)[k]), ", "@)
                        + wfmt_ts_write_imports_2_p0() + module_of(bt_entries(imports)[k]) + wfmt_ts_write_imports_2_p1() + lf())
                && final(w)@ == old(w)@ + flatten(stmts) + lf(),
''', cid='ts_write_imports.contract'),
    rep(A.text('for (path, ty) in imports'), '''let ghost entries = bt_entries(imports);
        let ghost w0 = w@;
        let ghost mut stmts: Seq<Seq<char>> = Seq::empty();
        let mut it__ = bt_into_iter(imports);
        let ghost mut done: int = 0;
        proof { assert(entries.skip(0) =~= entries); assert(flatten(stmts) =~= Seq::<char>::empty()); assert(w@ =~= w0 + flatten(stmts)); }
        loop''', tag='T4', note='BTreeMap by-value iteration has no vstd ghost iterator'),
    ins(A.loop(0), '''
            invariant_except_break
                0 <= done <= entries.len(), bt_rest(it__) == entries.skip(done), stmts.len() == done,
                forall|k: int| 0 <= k < done ==> #[trigger] stmts[k] ==
                        wfmt_ts_write_imports_0_p0() + join(names_of(entries[k]), ", "@) + wfmt_ts_write_imports_2_p0() + module_of(entries[k]) + wfmt_ts_write_imports_2_p1() + lf(),
                w@ == w0 + flatten(stmts),
            ensures
                done == entries.len(), stmts.len() == done,
                forall|k: int| 0 <= k < done ==> #[trigger] stmts[k] ==
                        wfmt_ts_write_imports_0_p0() + join(names_of(entries[k]), ", "@) + wfmt_ts_write_imports_2_p0() + module_of(entries[k]) + wfmt_ts_write_imports_2_p1() + lf(),
                w@ == w0 + flatten(stmts),
            decreases entries.len() - done
    ''', cid='ts_write_imports.invariant'),
    ins(A.loop_body(0), '''
            match bt_next(&mut it__) { Some((path, ty)) => {
            proof { assert(entries.skip(done)[0] == entries[done]); assert(entries.skip(done).drop_first() =~= entries.skip(done + 1)); }
            let ghost wa = w@;''', tag='T4'),
    ins(A.loop_end(0), '''
            proof {
                reveal_strlit("\\n");
                wfmt_ts_write_imports_1_p0_chars(); wfmt_ts_write_imports_1_p1_chars();
                let s = wfmt_ts_write_imports_0_p0() + join(names_of(entries[done]), ", "@) + wfmt_ts_write_imports_2_p0() + module_of(entries[done]) + wfmt_ts_write_imports_2_p1() + lf();
                assert(w@ =~= wa + s);
                lemma_flatten_push(stmts, s);
                stmts = stmts.push(s);
                assert(w@ =~= w0 + flatten(stmts));
                done = done + 1;
            }
            } None => { break; } }
    ''', tag='T4'),
    ins(A.loop_after(0), '''
        proof { reveal_strlit("\\n"); }''', tag='T1'),
]

KT = [
    rep(A.text('&mut dyn Write'), '&mut WriteSink', tag='T7'),
    ins(A.ret(), '(r: ', where='before'), ins(A.ret(), ')', where='after'),
    ins(A.sig(), '''
        ensures /*C14: one import statement per name of every entry of the table, in order, naming the package, exactly the entry's module and that name with the configured prefix*/
            r is Ok ==> exists|blocks: Seq<Seq<char>>| #[trigger] blocks.len() == bt_entries(imports).len()
                && (forall|k: int| 0 <= k < blocks.len() ==> #[trigger] blocks[k] ==
                        flatten(kt_lines(wfmt_kt_write_imports_0_p0(), old(self).package@, wfmt_kt_write_imports_0_p1(), module_of(bt_entries(imports)[k]), wfmt_kt_write_imports_0_p2(), old(self).prefix@,
                                         names_of(bt_entries(imports)[k]), names_of(bt_entries(imports)[k]).len() as int)))
                && final(w)@ == old(w)@ + flatten(blocks) + lf(),
            final(self).package == old(self).package, final(self).prefix == old(self).prefix,
''', cid='kt_write_imports.contract'),
    rep(A.text('for (path, ty) in imports'), '''let ghost entries = bt_entries(imports);
        let ghost w0 = w@;
        let ghost mut blocks: Seq<Seq<char>> = Seq::empty();
        let ghost pk0 = self.package@;
        let ghost px0 = self.prefix@;
        let mut it__ = bt_into_iter(imports);
        let ghost mut done: int = 0;
        proof { assert(entries.skip(0) =~= entries); assert(flatten(blocks) =~= Seq::<char>::empty()); assert(w@ =~= w0 + flatten(blocks)); }
        loop''', tag='T4', note='BTreeMap by-value iteration has no vstd ghost iterator'),
    ins(A.loop(0), '''
            invariant_except_break
                0 <= done <= entries.len(), bt_rest(it__) == entries.skip(done), blocks.len() == done, self.package@ == pk0, pk0 == old(self).package@, self.package == old(self).package, self.prefix@ == px0, px0 == old(self).prefix@, self.prefix == old(self).prefix,
                forall|k: int| 0 <= k < done ==> #[trigger] blocks[k] ==
                        flatten(kt_lines(wfmt_kt_write_imports_0_p0(), pk0, wfmt_kt_write_imports_0_p1(), module_of(entries[k]), wfmt_kt_write_imports_0_p2(), px0, names_of(entries[k]), names_of(entries[k]).len() as int)),
                w@ == w0 + flatten(blocks),
            ensures
                done == entries.len(), blocks.len() == done, pk0 == old(self).package@, self.package == old(self).package, px0 == old(self).prefix@, self.prefix == old(self).prefix,
                forall|k: int| 0 <= k < done ==> #[trigger] blocks[k] ==
                        flatten(kt_lines(wfmt_kt_write_imports_0_p0(), pk0, wfmt_kt_write_imports_0_p1(), module_of(entries[k]), wfmt_kt_write_imports_0_p2(), px0, names_of(entries[k]), names_of(entries[k]).len() as int)),
                w@ == w0 + flatten(blocks),
            decreases entries.len() - done
    ''', cid='kt_write_imports.invariant'),
    ins(A.loop_body(0), '''
            match bt_next(&mut it__) { Some((path, ty)) => {
            proof { assert(entries.skip(done)[0] == entries[done]); assert(entries.skip(done).drop_first() =~= entries.skip(done + 1)); }
            let ghost wa = w@;
            let ghost nm = ty.names();
            let ghost (a, pk, b, md, c, px) = (wfmt_kt_write_imports_0_p0(), self.package@, wfmt_kt_write_imports_0_p1(), path@, wfmt_kt_write_imports_0_p2(), self.prefix@);''', tag='T4'),
    rep(A.text('for t in ty'), '''let names__ = names_vec(ty);
            proof { assert(flatten(kt_lines(a, pk, b, md, c, px, nm, 0)) =~= Seq::<char>::empty()); }
            for t in itn: names__.iter()
                invariant
                    names__@.len() == nm.len(), forall|j: int| 0 <= j < names__@.len() ==> (#[trigger] names__@[j])@ == nm[j],
                    a == wfmt_kt_write_imports_0_p0() && pk == self.package@ && b == wfmt_kt_write_imports_0_p1() && c == wfmt_kt_write_imports_0_p2() && md == path@ && px == self.prefix@,
                    w@ == wa + flatten(kt_lines(a, pk, b, md, c, px, nm, itn.index@ as int)),
            ''', tag='T4', note='BTreeSet by-value iteration as iteration over the vector of its elements'),
    ins(A.loop_body(1), '''
                let ghost wb = w@;
                proof { assert(*t == names__@[itn.index@]); }''', tag='T4'),
    ins(A.loop_end(1), '''
                proof {
                    reveal_strlit("\\n");
                    wfmt_kt_write_imports_0_p3_chars(); wfmt_kt_write_imports_0_p4_chars();
                    let line = a + pk + b + md + c + px + nm[itn.index@ as int] + lf();
                    assert(w@ =~= wb + line);
                    lemma_flatten_push(kt_lines(a, pk, b, md, c, px, nm, itn.index@ as int), line);
                    assert(kt_lines(a, pk, b, md, c, px, nm, itn.index@ as int + 1) =~= kt_lines(a, pk, b, md, c, px, nm, itn.index@ as int).push(line));
                }
    ''', tag='T4'),
    ins(A.loop_end(0), '''
            proof {
                let blk = flatten(kt_lines(a, pk, b, md, c, px, nm, nm.len() as int));
                assert(w@ =~= wa + blk);
                lemma_flatten_push(blocks, blk);
                blocks = blocks.push(blk);
                assert(w@ =~= w0 + flatten(blocks));
                done = done + 1;
            }
            } None => { break; } }
    ''', tag='T4'),
    ins(A.loop_after(0), '''
        proof { reveal_strlit("\\n"); }''', tag='T1'),
]

UNIT = Unit(
    name='impwrite', props=['C14', 'C07'], pre_verus=PRE_VERUS, spec_files=['txt.rs', 'seqjoin.rs', 'commented.rs'], prelude=PRELUDE,
    items=[
        Item('ts_write_imports', 'core/src/language/typescript.rs', ['impl Language for TypeScript {', 'fn write_imports'], TS,
             wrap=('impl TypeScript {\n', '\n}\n'), auto=('fmt', ('tok', 'ty.iter().join(", ")', 'join_names(&ty, ", ")', 'T3'))),
        Item('kt_write_imports', 'core/src/language/kotlin.rs', ['impl Language for Kotlin {', 'fn write_imports'], KT,
             wrap=('impl Kotlin {\n', '\n}\n'), auto=('fmt',)),
    ],
    functions=['TypeScript::write_imports', 'Kotlin::write_imports'],
    trusted=[
        'T4: BTreeMap / BTreeSet by-value iteration as iteration over their ordered entries (std semantics assumed, as in unit write)',
        'T3: itertools join over the set: the names in order with the separator',
        'T14: write! / writeln! through contracts generated from their literals; Display for CrateName writes the name',
    ],
    undecided=['that the statement is valid import syntax of the target (C10\'s domain) - the contract speaks of what it names'],
)
UNIT.crate_attrs = '#![feature(allocator_api)]'
UNIT.forbid = F.FORBID
UNIT.allowed_calls = {'iter'}


def native(workdir):
    import cli_multifile
    return cli_multifile.native(workdir)


def replay_args(inp):
    import cli_multifile
    return cli_multifile.replay_args(inp)
