// ---- further assumed std contracts, so that ordinary edits of the code under contract stay within the verifier's reach
pub uninterp spec fn unicode_is_lower(c: char) -> bool;
pub uninterp spec fn unicode_is_alphabetic(c: char) -> bool;
pub uninterp spec fn unicode_is_numeric(c: char) -> bool;
pub assume_specification [<char>::is_ascii_uppercase] (c: &char) -> (r: bool) ensures r == is_ascii_upper(*c);
pub assume_specification [<char>::is_ascii_lowercase] (c: &char) -> (r: bool) ensures r == is_ascii_lower(*c);
pub assume_specification [<char>::is_ascii_digit] (c: &char) -> (r: bool) ensures r == ('0' <= *c && *c <= '9');
pub assume_specification [<char>::is_ascii_alphabetic] (c: &char) -> (r: bool) ensures r == (is_ascii_upper(*c) || is_ascii_lower(*c));
pub assume_specification [<char>::is_ascii_alphanumeric] (c: &char) -> (r: bool) ensures r == (is_ascii_upper(*c) || is_ascii_lower(*c) || ('0' <= *c && *c <= '9'));
pub assume_specification [<char>::is_ascii] (c: &char) -> (r: bool) ensures r == ((*c as u32) < 128);
pub assume_specification [<char>::is_lowercase] (c: char) -> (r: bool) ensures r == unicode_is_lower(c);
pub assume_specification [<char>::is_alphabetic] (c: char) -> (r: bool) ensures r == unicode_is_alphabetic(c);
pub assume_specification [<char>::is_numeric] (c: char) -> (r: bool) ensures r == unicode_is_numeric(c);
pub assume_specification [<char>::is_alphanumeric] (c: char) -> (r: bool) ensures r == (unicode_is_alphabetic(c) || unicode_is_numeric(c));
