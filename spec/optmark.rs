// C04 vocabulary: how a field (member) is written in each target language, and when it is marked optional.  From the property:
//   a member is marked optional / nullable, in the target's idiom, exactly when its Rust type is Option<T> or it carries the bare
//   serde(default); the marker never changes the translated type; Option<Option<T>> stays distinguishable where the target can say so
//   (TypeScript: `?` plus `| null`).  Idioms (property text): TS `?`, Kotlin `? = null`, Swift `?`, Scala `Option[..] = None`,
//   Go pointer + omitempty, Python Optional + default None.

/// the Rust type is Option<T>
pub open spec fn is_opt(ty: RustType) -> bool { ty is Special && ty->Special_0 is Option }
/// the Rust type is Option<Option<T>>
pub open spec fn is_double_opt(ty: RustType) -> bool { is_opt(ty) && is_opt(*(ty->Special_0->Option_0)) }
/// C04: the member is optional
pub open spec fn optional(f: RustField) -> bool { is_opt(f.ty) || f.has_default }

/// `#[typeshare(<lang>(type = ".."))]` on the field, if any (decorator lookup: iterator chain, uninterpreted)
pub uninterp spec fn type_override_of(f: RustField, l: SupportedLanguage) -> Option<Seq<char>>;
/// the text standing for the field's type: the override if there is one, else a translation of the Rust type (C05)
/// how a per-language type override is written for an Option<T> field: the override replaces the translated type, not the optionality, and in these
/// four languages the marker of Option<T> is part of the type text (as it is in the translation of Option<T> itself)
pub open spec fn opt_wrap(l: SupportedLanguage, o: Seq<char>) -> Seq<char> {
    match l {
        SupportedLanguage::Kotlin => o + "?"@,
        SupportedLanguage::Swift => o + "?"@,
        SupportedLanguage::Scala => "Option["@ + o + "]"@,
        SupportedLanguage::Go => "*"@ + o,
        _ => o,
    }
}
pub open spec fn field_type_ok(c: TCfg, g: Seq<String>, f: RustField, l: SupportedLanguage, t: Seq<char>) -> bool {
    match type_override_of(f, l) { Some(o) => t == (if is_opt(f.ty) { opt_wrap(l, o) } else { o }), None => tx_ok(c, g, f.ty, t) }
}
/// trigger plumbing for "the output is  earlier text + pre + member + post"
pub open spec fn wit3(pre: Seq<char>, t: Seq<char>, post: Seq<char>) -> bool { true }

pub open spec fn mark(b: bool, s: Seq<char>) -> Seq<char> { if b { s } else { Seq::empty() } }

/// the member as the target language writes it: `name`, the type text `t`, and the optional marker - nothing else depends on optionality
pub open spec fn member(l: Lang, name: Seq<char>, t: Seq<char>, f: RustField) -> Seq<char> {
    match l {
        // name?: T  (| null keeps Option<Option<T>> apart)
        Lang::TypeScript => name + mark(optional(f), "?"@) + ": "@ + t + mark(is_double_opt(f.ty), " | null"@),
        // name: T? = null   (the translation of Option<T> already ends in `?`)
        Lang::Kotlin => name + ": "@ + t + (if is_opt(f.ty) { " = null"@ } else if f.has_default { "? = null"@ } else { Seq::empty() }),
        // name: T?
        Lang::Swift => name + ": "@ + t + mark(f.has_default && !is_opt(f.ty), "?"@),
        // name: Option[T] = None
        Lang::Scala => name + ": "@ + (if is_opt(f.ty) { t + " = None"@ } else if f.has_default { "Option["@ + t + "] = None"@ } else { t }),
        // Name *T `json:"key,omitempty"`  - the caller supplies name / key texts; see go_member
        Lang::Go => name + " "@ + mark(f.has_default && !is_opt(f.ty), "*"@) + t,
        // name: Optional[T] = Field(.., default=None)  - see py_member
        Lang::Python => name + ": "@ + py_inner(t, f),
    }
}
/// Python: the type text of a member - `Optional[T]` exactly when serde(default) stands on a non-Option (the translation of Option<T> is `Optional[..]` already)
pub open spec fn py_inner(t: Seq<char>, f: RustField) -> Seq<char> { if f.has_default && !is_opt(f.ty) { "Optional["@ + t + "]"@ } else { t } }
/// Python: a member whose type text has custom (de)serialiser functions is wrapped as a whole - the optional marker stays inside, around the type text
pub open spec fn py_annotated(inner: Seq<char>, de: Seq<char>, ser: Seq<char>) -> Seq<char> {
    "Annotated["@ + inner + ", BeforeValidator("@ + de + "), PlainSerializer("@ + ser + ")]"@
}
/// TypeScript: the payload of a newtype variant (`content?: T | null`) - a member without a field: optional exactly when the payload type is Option<T>
pub open spec fn ts_payload(key: Seq<char>, t: Seq<char>, ty: RustType) -> Seq<char> {
    key + mark(is_opt(ty), "?"@) + ": "@ + t + mark(is_double_opt(ty), " | null"@)
}
/// Go: the struct tag carries `,omitempty` exactly for optional members
pub open spec fn go_tag(key: Seq<char>, f: RustField) -> Seq<char> { " `json:\""@ + key + mark(optional(f), ",omitempty"@) + "\"`"@ }

/// KNOWN FINDING kf-c04-scala-default (recorded, pinned by the snapshot test_serde_default_struct): for a non-Option field with
/// serde(default) the Scala back end writes `name: T = _` instead of an optional member; the contract is silent exactly on this class
pub open spec fn kf_scala_default(f: RustField) -> bool { f.has_default && !is_opt(f.ty) }

/// Python (pydantic): ` = Field(alias="key", default=None)` - the alias when the member name differs from the wire name, `default=None`
/// exactly for optional members; nothing when neither applies
pub open spec fn py_decorators(aliased: bool, key: Seq<char>, opt: bool) -> Seq<Seq<char>> {
    (if aliased { seq!["alias=\""@ + key + "\""@] } else { Seq::<Seq<char>>::empty() }) + (if opt { seq!["default=None"@] } else { Seq::<Seq<char>>::empty() })
}
pub open spec fn py_suffix(aliased: bool, key: Seq<char>, opt: bool) -> Seq<char> {
    let d = py_decorators(aliased, key, opt);
    if d.len() == 0 { Seq::empty() } else { " = Field("@ + join(d, ", "@) + ")"@ }
}
