// ---- character-level vocabulary shared by the typeshare side and the serde side of C16
pub open spec fn up(c: char) -> char { if 'a' <= c && c <= 'z' { ((c as u8) - 32) as char } else { c } }
pub open spec fn low(c: char) -> char { if 'A' <= c && c <= 'Z' { ((c as u8) + 32) as char } else { c } }
pub open spec fn is_ascii_lower(c: char) -> bool { 'a' <= c && c <= 'z' }
pub open spec fn is_ascii_upper(c: char) -> bool { 'A' <= c && c <= 'Z' }
pub open spec fn ascii_up(s: Seq<char>) -> Seq<char> { s.map_values(|c: char| up(c)) }
pub open spec fn ascii_low(s: Seq<char>) -> Seq<char> { s.map_values(|c: char| low(c)) }
/// `char::is_uppercase` (Unicode `Uppercase` property): uninterpreted - both typeshare and serde call the same std function
pub uninterp spec fn unicode_is_upper(c: char) -> bool;
/// `str::to_lowercase` / `str::to_uppercase` (Unicode, may change length): uninterpreted
pub uninterp spec fn unicode_lower(s: Seq<char>) -> Seq<char>;
pub uninterp spec fn unicode_upper(s: Seq<char>) -> Seq<char>;
pub open spec fn dash(s: Seq<char>) -> Seq<char> { s.map_values(|c: char| if c == '_' { '-' } else { c }) }

// ---- assumed std contracts (each is the sentence of the std documentation it encodes)
/// std: "Returns a copy of this string where each character is mapped to its ASCII upper case equivalent."
pub assume_specification [<str>::to_ascii_uppercase] (s: &str) -> (r: String)
    ensures r@ == ascii_up(s@);
/// std: "... mapped to its ASCII lower case equivalent."
pub assume_specification [<str>::to_ascii_lowercase] (s: &str) -> (r: String)
    ensures r@ == ascii_low(s@);
pub assume_specification [<char>::to_ascii_uppercase] (c: &char) -> (r: char)
    ensures r == up(*c);
pub assume_specification [<char>::to_ascii_lowercase] (c: &char) -> (r: char)
    ensures r == low(*c);
pub assume_specification [<char>::is_uppercase] (c: char) -> (r: bool)
    ensures r == unicode_is_upper(c);
pub assume_specification [<str>::to_lowercase] (s: &str) -> (r: String)
    ensures r@ == unicode_lower(s@);
pub assume_specification [<str>::to_uppercase] (s: &str) -> (r: String)
    ensures r@ == unicode_upper(s@);

// ---- char_indices (T4 desugar): the byte offset is abstracted to "is zero iff this is the first char"
#[verifier::external_type_specification]
#[verifier::external_body]
pub struct ExCharIndices<'a>(core::str::CharIndices<'a>);
pub uninterp spec fn ci_rest(it: core::str::CharIndices) -> Seq<char>;
pub uninterp spec fn ci_pos(it: core::str::CharIndices) -> int;
/// std: "Returns an iterator over the chars of a string slice, and their positions."
pub assume_specification<'a> [<str>::char_indices] (s: &'a str) -> (it: core::str::CharIndices<'a>)
    ensures ci_rest(it) == s@, ci_pos(it) == 0;
pub assume_specification<'a> [<core::str::CharIndices<'a> as Iterator>::next] (it: &mut core::str::CharIndices<'a>) -> (r: Option<(usize, char)>)
    ensures match r {
        Option::None => ci_rest(*old(it)).len() == 0,
        Some(p) => ci_rest(*old(it)).len() > 0 && p.1 == ci_rest(*old(it))[0]
                   && ci_rest(*final(it)) == ci_rest(*old(it)).drop_first()
                   && ci_pos(*final(it)) == ci_pos(*old(it)) + 1
                   && ((p.0 > 0) == (ci_pos(*old(it)) > 0)),
    };
