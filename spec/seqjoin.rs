// joining texts with a separator (itertools / slice `join`): shared by the type-expression and comment vocabularies
pub open spec fn join(v: Seq<Seq<char>>, sep: Seq<char>) -> Seq<char>
    decreases v.len()
{
    if v.len() == 0 { Seq::empty() } else if v.len() == 1 { v[0] } else { join(v.drop_last(), sep) + sep + v.last() }
}
pub open spec fn strs(v: Seq<String>) -> Seq<Seq<char>> { v.map_values(|s: String| s@) }
