// C15 vocabulary for line-comment languages (Kotlin, Swift `///`; Scala, Go `//`): the text a comment writer appends consists of
// whole lines, and every line is  indentation + `//` + text-without-a-line-break + line feed  - so every byte of the doc text lies
// between a `//` and the end of its line: it cannot become code.

pub open spec fn is_eol(c: char) -> bool { c == '\n' || c == '\r' }
pub open spec fn no_eol(s: Seq<char>) -> bool { forall|i: int| 0 <= i < s.len() ==> !is_eol(#[trigger] s[i]) }
/// indentation: tabs and spaces only
pub open spec fn all_tabs(s: Seq<char>) -> bool { forall|i: int| 0 <= i < s.len() ==> (#[trigger] s[i] == '\t' || s[i] == ' ') }
pub open spec fn slashes() -> Seq<char> { seq!['/', '/'] }
pub open spec fn lf() -> Seq<char> { seq!['\n'] }
/// one line of a line comment
pub open spec fn comment_line(l: Seq<char>) -> bool {
    exists|ws: Seq<char>, rest: Seq<char>| #[trigger] wit2(ws, rest) && all_tabs(ws) && no_eol(rest) && l == ws + slashes() + rest + lf()
}
pub open spec fn wit2(a: Seq<char>, b: Seq<char>) -> bool { true }
pub open spec fn flatten(ls: Seq<Seq<char>>) -> Seq<char>
    decreases ls.len()
{
    if ls.len() == 0 { Seq::empty() } else { flatten(ls.drop_last()) + ls.last() }
}
/// C15 (line-comment languages): the text is a sequence of comment lines
pub open spec fn commented(t: Seq<char>) -> bool {
    exists|ls: Seq<Seq<char>>| #[trigger] flatten(ls) == t && forall|i: int| 0 <= i < ls.len() ==> comment_line(#[trigger] ls[i])
}
pub proof fn lemma_commented_empty()
    ensures commented(Seq::<char>::empty())
{
    let ls = Seq::<Seq<char>>::empty();
    assert(flatten(ls) == Seq::<char>::empty());
}
pub proof fn lemma_flatten_push(ls: Seq<Seq<char>>, l: Seq<char>)
    ensures flatten(ls.push(l)) == flatten(ls) + l
{
    assert(ls.push(l).drop_last() =~= ls);
}
pub proof fn lemma_flatten_concat(a: Seq<Seq<char>>, b: Seq<Seq<char>>)
    ensures flatten(a + b) == flatten(a) + flatten(b)
    decreases b.len()
{
    if b.len() == 0 {
        assert(a + b =~= a);
        assert(flatten(a) + flatten(b) =~= flatten(a));
    } else {
        lemma_flatten_concat(a, b.drop_last());
        assert((a + b).drop_last() =~= a + b.drop_last());
        assert((a + b).last() == b.last());
        assert(flatten(a) + (flatten(b.drop_last()) + b.last()) =~= (flatten(a) + flatten(b.drop_last())) + b.last());
    }
}
/// appending one comment line keeps the text commented
pub proof fn lemma_commented_push(t: Seq<char>, l: Seq<char>)
    requires commented(t), comment_line(l)
    ensures commented(t + l)
{
    let ls = choose|ls: Seq<Seq<char>>| #[trigger] flatten(ls) == t && forall|i: int| 0 <= i < ls.len() ==> comment_line(#[trigger] ls[i]);
    lemma_flatten_push(ls, l);
    let ls2 = ls.push(l);
    assert forall|i: int| 0 <= i < ls2.len() implies comment_line(#[trigger] ls2[i]) by { if i < ls.len() { assert(ls2[i] == ls[i]); } }
    assert(flatten(ls2) == t + l);
}
/// two commented texts one after the other
pub proof fn lemma_commented_concat(a: Seq<char>, b: Seq<char>)
    requires commented(a), commented(b)
    ensures commented(a + b)
{
    let la = choose|ls: Seq<Seq<char>>| #[trigger] flatten(ls) == a && forall|i: int| 0 <= i < ls.len() ==> comment_line(#[trigger] ls[i]);
    let lb = choose|ls: Seq<Seq<char>>| #[trigger] flatten(ls) == b && forall|i: int| 0 <= i < ls.len() ==> comment_line(#[trigger] ls[i]);
    lemma_flatten_concat(la, lb);
    let l = la + lb;
    assert forall|i: int| 0 <= i < l.len() implies comment_line(#[trigger] l[i]) by { if i < la.len() { assert(l[i] == la[i]); } else { assert(l[i] == lb[i - la.len()]); } }
    assert(flatten(l) == a + b);
}
