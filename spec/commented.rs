// C15 vocabulary for line-comment languages (Kotlin, Swift `///`; Scala, Go `//`): the text a comment writer appends consists of
// whole lines, and every line is  indentation + `//` + text-without-a-line-break + line feed  - so every byte of the doc text lies
// between a `//` and the end of its line: it cannot become code.

pub open spec fn is_eol(c: char) -> bool { c == '\n' || c == '\r' }
pub open spec fn no_eol(s: Seq<char>) -> bool { forall|i: int| 0 <= i < s.len() ==> !is_eol(#[trigger] s[i]) }
/// indentation: tabs and spaces only
pub open spec fn all_tabs(s: Seq<char>) -> bool { forall|i: int| 0 <= i < s.len() ==> (#[trigger] s[i] == '\t' || s[i] == ' ') }
pub open spec fn slashes() -> Seq<char> { seq!['/', '/'] }
pub open spec fn lf() -> Seq<char> { seq!['\n'] }
/// one line of a line comment
pub open spec fn comment_line(l: Seq<char>) -> bool {
    exists|ws: Seq<char>, rest: Seq<char>| #[trigger] wit2(ws, rest) && all_tabs(ws) && no_eol(rest) && l == ws + slashes() + rest + lf()
}
pub open spec fn wit2(a: Seq<char>, b: Seq<char>) -> bool { true }
pub open spec fn flatten(ls: Seq<Seq<char>>) -> Seq<char>
    decreases ls.len()
{
    if ls.len() == 0 { Seq::empty() } else { flatten(ls.drop_last()) + ls.last() }
}
/// C15 (line-comment languages): the text is a sequence of comment lines
pub open spec fn commented(t: Seq<char>) -> bool {
    exists|ls: Seq<Seq<char>>| #[trigger] flatten(ls) == t && forall|i: int| 0 <= i < ls.len() ==> comment_line(#[trigger] ls[i])
}
pub proof fn lemma_commented_empty()
    ensures commented(Seq::<char>::empty())
{
    let ls = Seq::<Seq<char>>::empty();
    assert(flatten(ls) == Seq::<char>::empty());
}
pub proof fn lemma_flatten_push(ls: Seq<Seq<char>>, l: Seq<char>)
    ensures flatten(ls.push(l)) == flatten(ls) + l
{
    assert(ls.push(l).drop_last() =~= ls);
}
pub proof fn lemma_flatten_concat(a: Seq<Seq<char>>, b: Seq<Seq<char>>)
    ensures flatten(a + b) == flatten(a) + flatten(b)
    decreases b.len()
{
    if b.len() == 0 {
        assert(a + b =~= a);
        assert(flatten(a) + flatten(b) =~= flatten(a));
    } else {
        lemma_flatten_concat(a, b.drop_last());
        assert((a + b).drop_last() =~= a + b.drop_last());
        assert((a + b).last() == b.last());
        assert(flatten(a) + (flatten(b.drop_last()) + b.last()) =~= (flatten(a) + flatten(b.drop_last())) + b.last());
    }
}
/// appending one comment line keeps the text commented
pub proof fn lemma_commented_push(t: Seq<char>, l: Seq<char>)
    requires commented(t), comment_line(l)
    ensures commented(t + l)
{
    let ls = choose|ls: Seq<Seq<char>>| #[trigger] flatten(ls) == t && forall|i: int| 0 <= i < ls.len() ==> comment_line(#[trigger] ls[i]);
    lemma_flatten_push(ls, l);
    let ls2 = ls.push(l);
    assert forall|i: int| 0 <= i < ls2.len() implies comment_line(#[trigger] ls2[i]) by { if i < ls.len() { assert(ls2[i] == ls[i]); } }
    assert(flatten(ls2) == t + l);
}
/// two commented texts one after the other
pub proof fn lemma_commented_concat(a: Seq<char>, b: Seq<char>)
    requires commented(a), commented(b)
    ensures commented(a + b)
{
    let la = choose|ls: Seq<Seq<char>>| #[trigger] flatten(ls) == a && forall|i: int| 0 <= i < ls.len() ==> comment_line(#[trigger] ls[i]);
    let lb = choose|ls: Seq<Seq<char>>| #[trigger] flatten(ls) == b && forall|i: int| 0 <= i < ls.len() ==> comment_line(#[trigger] ls[i]);
    lemma_flatten_concat(la, lb);
    let l = la + lb;
    assert forall|i: int| 0 <= i < l.len() implies comment_line(#[trigger] l[i]) by { if i < la.len() { assert(l[i] == la[i]); } else { assert(l[i] == lb[i - la.len()]); } }
    assert(flatten(l) == a + b);
}

// ---- block-comment languages (TypeScript `/** .. */`): the text is  indentation + `/*` + body + `*/` + LF  and the body cannot close it
pub open spec fn has_close(s: Seq<char>) -> bool { exists|i: int| 0 <= i < s.len() - 1 && #[trigger] s[i] == '*' && s[i + 1] == '/' }
pub open spec fn open_mark() -> Seq<char> { seq!['/', '*'] }
pub open spec fn close_mark() -> Seq<char> { seq!['*', '/'] }
/// C15 (block comment): every byte between the opening `/*` and the closing `*/` belongs to the comment because no `*/` occurs before the end
pub open spec fn block_commented(t: Seq<char>) -> bool {
    exists|ws: Seq<char>, body: Seq<char>| #[trigger] wit2(ws, body) && all_tabs(ws) && !has_close(body)
        && t == ws + open_mark() + body + close_mark() + lf()
}
pub proof fn lemma_no_close_concat(a: Seq<char>, b: Seq<char>)
    requires !has_close(a), !has_close(b), !(a.len() > 0 && b.len() > 0 && a.last() == '*' && b[0] == '/')
    ensures !has_close(a + b)
{
    let c = a + b;
    assert forall|i: int| 0 <= i < c.len() - 1 && #[trigger] c[i] == '*' implies c[i + 1] != '/' by {
        if i < a.len() - 1 { assert(c[i] == a[i]); assert(c[i + 1] == a[i + 1]); }
        else if i == a.len() - 1 { assert(c[i] == a.last()); assert(c[i + 1] == b[0]); }
        else { assert(c[i] == b[i - a.len()]); assert(c[i + 1] == b[i - a.len() + 1]); }
    }
}
/// indentation contains neither `*` nor `/`
pub proof fn lemma_tabs_no_close(s: Seq<char>)
    requires all_tabs(s)
    ensures !has_close(s), s.len() > 0 ==> (s.last() != '*' && s[0] != '/')
{}
pub proof fn lemma_join_no_close(v: Seq<Seq<char>>, sep: Seq<char>)
    requires forall|i: int| 0 <= i < v.len() ==> !has_close(#[trigger] v[i]), !has_close(sep), sep.len() > 0, sep[0] != '/', sep.last() != '*'
    ensures !has_close(join(v, sep))
    decreases v.len()
{
    if v.len() <= 1 { } else {
        lemma_join_no_close(v.drop_last(), sep);
        let a = join(v.drop_last(), sep);
        lemma_no_close_concat(a, sep);
        assert((a + sep).last() == sep.last());
        lemma_no_close_concat(a + sep, v.last());
    }
}

// ---- `#` line comments (Python): the text is a sequence of whole lines  indentation + `#` + text-without-a-line-break + LF
pub open spec fn hash_mark() -> Seq<char> { seq!['#'] }
/// one `#` comment line without its line feed
pub open spec fn hash_body(l: Seq<char>) -> bool {
    exists|ws: Seq<char>, rest: Seq<char>| #[trigger] wit2(ws, rest) && all_tabs(ws) && no_eol(rest) && l == ws + hash_mark() + rest
}
pub open spec fn hash_line(l: Seq<char>) -> bool {
    exists|ws: Seq<char>, rest: Seq<char>| #[trigger] wit2(ws, rest) && all_tabs(ws) && no_eol(rest) && l == ws + hash_mark() + rest + lf()
}
/// C15 (`#` comments): the text is a sequence of `#` comment lines
pub open spec fn hash_commented(t: Seq<char>) -> bool {
    exists|ls: Seq<Seq<char>>| #[trigger] flatten(ls) == t && forall|i: int| 0 <= i < ls.len() ==> hash_line(#[trigger] ls[i])
}
pub proof fn lemma_hash_body_line(l: Seq<char>)
    requires hash_body(l)
    ensures hash_line(l + lf())
{
    let (ws, rest) = choose|ws: Seq<char>, rest: Seq<char>| #[trigger] wit2(ws, rest) && all_tabs(ws) && no_eol(rest) && l == ws + hash_mark() + rest;
    assert(wit2(ws, rest));
    assert(l + lf() =~= ws + hash_mark() + rest + lf());
}
pub proof fn lemma_hash_push(t: Seq<char>, l: Seq<char>)
    requires hash_commented(t), hash_line(l)
    ensures hash_commented(t + l)
{
    let ls = choose|ls: Seq<Seq<char>>| #[trigger] flatten(ls) == t && forall|i: int| 0 <= i < ls.len() ==> hash_line(#[trigger] ls[i]);
    lemma_flatten_push(ls, l);
    let ls2 = ls.push(l);
    assert forall|i: int| 0 <= i < ls2.len() implies hash_line(#[trigger] ls2[i]) by { if i < ls.len() { assert(ls2[i] == ls[i]); } }
    assert(flatten(ls2) == t + l);
}
/// lines joined by LF and ended by LF: every one of them is a whole `#` comment line
pub proof fn lemma_hash_join(v: Seq<Seq<char>>)
    requires v.len() > 0, forall|i: int| 0 <= i < v.len() ==> hash_body(#[trigger] v[i])
    ensures hash_commented(join(v, lf()) + lf())
    decreases v.len()
{
    if v.len() == 1 {
        lemma_hash_body_line(v[0]);
        let ls = seq![v[0] + lf()];
        assert(ls.drop_last() =~= Seq::<Seq<char>>::empty());
        assert(flatten(ls.drop_last()) =~= Seq::<char>::empty());
        assert(flatten(ls) =~= v[0] + lf());
        assert(join(v, lf()) == v[0]);
    } else {
        let d = v.drop_last();
        assert forall|i: int| 0 <= i < d.len() implies hash_body(#[trigger] d[i]) by { assert(d[i] == v[i]); }
        lemma_hash_join(d);
        lemma_hash_body_line(v.last());
        lemma_hash_push(join(d, lf()) + lf(), v.last() + lf());
        assert(join(v, lf()) + lf() =~= (join(d, lf()) + lf()) + (v.last() + lf()));
    }
}
/// indentation + a marker that starts with `#` + text without a line break is the body of a `#` comment line
pub proof fn lemma_hash_marker(m: Seq<char>, line: Seq<char>, ws: Seq<char>)
    requires m.len() >= 1, m[0] == '#', no_eol(m), no_eol(line), all_tabs(ws)
    ensures hash_body(ws + m + line)
{
    let rest = m.subrange(1, m.len() as int) + line;
    assert(wit2(ws, rest));
    assert(m =~= hash_mark() + m.subrange(1, m.len() as int));
    assert(ws + m + line =~= ws + hash_mark() + rest);
}
