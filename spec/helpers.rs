// C12 vocabulary: which helper names the translation of a type expression makes the generated code use.
// A helper is "reached" when the translation gets to a built-in type of the given kind without passing through a mapped type (a mapped
// type is replaced by its mapping as a whole: nothing below it is printed).

pub enum Kind { Unit, DateTime, Seq, Opt, Map, Unsigned }

pub open spec fn kind_is(s: SpecialRustType, k: Kind) -> bool {
    match k {
        Kind::Unit => s is Unit,
        Kind::DateTime => s is DateTime,
        Kind::Seq => s is Vec || s is Array || s is Slice,
        Kind::Opt => s is Option,
        Kind::Map => s is HashMap,
        Kind::Unsigned => s is U8 || s is U16 || s is U32 || s is U53 || s is U64 || s is USize,
    }
}
pub open spec fn reaches(c: TCfg, ty: RustType, k: Kind) -> bool
    decreases ty, 1int
{
    match ty {
        RustType::Simple { id } => false,
        RustType::Generic { id, parameters } => reaches_any(c, id, parameters@, k),
        RustType::Special(s) => reaches_special(c, s, k),
    }
}
pub open spec fn reaches_any(c: TCfg, id: String, params: Seq<RustType>, k: Kind) -> bool
    decreases params, 0int
{
    mapped(c, id) is None && exists|i: int| 0 <= i < params.len() && reaches(c, #[trigger] params[i], k)
}
pub open spec fn reaches_special(c: TCfg, s: SpecialRustType, k: Kind) -> bool
    decreases s, 0int
{
    mapped(c, special_key(s)) is None && (kind_is(s, k) || match s {
        SpecialRustType::Vec(t) => reaches(c, *t, k),
        SpecialRustType::Array(t, _) => reaches(c, *t, k),
        SpecialRustType::Slice(t) => reaches(c, *t, k),
        SpecialRustType::Option(t) => reaches(c, *t, k),
        SpecialRustType::HashMap(a, b) => reaches(c, *a, k) || reaches(c, *b, k),
        _ => false,
    })
}
