// ---- assumed std contracts on slices (each is the sentence of the std documentation it encodes)
/// std: "Returns true if the slice contains an element with the given value."
pub assume_specification<T: PartialEq> [<[T]>::contains] (s: &[T], x: &T) -> (r: bool)
    ensures r == s@.contains(*x);
/// std: "Swaps two elements in the slice. Panics if a or b are out of bounds."
pub assume_specification<T> [<[T]>::swap] (s: &mut [T], a: usize, b: usize)
    requires a < old(s)@.len(), b < old(s)@.len()
    ensures final(s)@ == old(s)@.update(a as int, old(s)@[b as int]).update(b as int, old(s)@[a as int]);
