// T14 / T15 support: what a `{}` placeholder prints for the argument kinds that occur at the rewritten format! sites
// (std::fmt: Display of str / String is the text itself, of a reference the referent's, of usize its decimal spelling) - ASSUMED.
pub trait Txt { spec fn tv(&self) -> Seq<char>; }
impl Txt for String { open spec fn tv(&self) -> Seq<char> { self@ } }
impl Txt for str { open spec fn tv(&self) -> Seq<char> { self@ } }
impl Txt for usize { open spec fn tv(&self) -> Seq<char> { dec(*self) } }
impl<X: Txt + ?Sized> Txt for &X { open spec fn tv(&self) -> Seq<char> { (**self).tv() } }

/// T15: String from a string literal or a named string value (`x.into()` / `.to_string()` / `.to_owned()` / `String::from(x)`)
#[verifier::external_body]
pub fn txt_into<T: Txt>(s: T) -> (r: String)
    ensures r@ == s.tv()
{ unimplemented!() }
