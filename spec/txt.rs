// T14 / T15 support: what a `{}` placeholder prints for the argument kinds that occur at the rewritten format! sites
// (std::fmt: Display of str / String is the text itself, of a reference the referent's, of usize its decimal spelling) - ASSUMED.
/// `tv` is what `{}` prints, `dv` what `{:?}` prints (for strings: the quoted, escaped spelling - an uninterpreted function of the text)
pub uninterp spec fn debug_str(s: Seq<char>) -> Seq<char>;
/// decimal spelling of an unsigned integer (Display for usize)
pub uninterp spec fn dec(n: usize) -> Seq<char>;
pub trait Txt { spec fn tv(&self) -> Seq<char>; spec fn dv(&self) -> Seq<char>; }
impl Txt for String { open spec fn tv(&self) -> Seq<char> { self@ } open spec fn dv(&self) -> Seq<char> { debug_str(self@) } }
impl Txt for str { open spec fn tv(&self) -> Seq<char> { self@ } open spec fn dv(&self) -> Seq<char> { debug_str(self@) } }
impl Txt for usize { open spec fn tv(&self) -> Seq<char> { dec(*self) } open spec fn dv(&self) -> Seq<char> { dec(*self) } }
impl<X: Txt + ?Sized> Txt for &X { open spec fn tv(&self) -> Seq<char> { (**self).tv() } open spec fn dv(&self) -> Seq<char> { (**self).dv() } }

/// T15: String from a string literal or a named string value (`x.into()` / `.to_string()` / `.to_owned()` / `String::from(x)`)
#[verifier::external_body]
pub fn txt_into<T: Txt>(s: T) -> (r: String)
    ensures r@ == s.tv()
{ unimplemented!() }
