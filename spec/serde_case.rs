// ---- serde_derive 1.0.214 `RenameRule::apply_to_field` / `apply_to_variant` as Seq<char> functions.
// Validated by unit `serdecase`, which proves the vendored real case.rs equal to these.
pub open spec fn R_LOWER() -> Seq<char> { "lowercase"@ }
pub open spec fn R_UPPER() -> Seq<char> { "UPPERCASE"@ }
pub open spec fn R_PASCAL() -> Seq<char> { "PascalCase"@ }
pub open spec fn R_CAMEL() -> Seq<char> { "camelCase"@ }
pub open spec fn R_SNAKE() -> Seq<char> { "snake_case"@ }
pub open spec fn R_SSNAKE() -> Seq<char> { "SCREAMING_SNAKE_CASE"@ }
pub open spec fn R_KEBAB() -> Seq<char> { "kebab-case"@ }
pub open spec fn R_SKEBAB() -> Seq<char> { "SCREAMING-KEBAB-CASE"@ }
pub open spec fn known_rule(r: Seq<char>) -> bool {
    r == R_LOWER() || r == R_UPPER() || r == R_PASCAL() || r == R_CAMEL() || r == R_SNAKE() || r == R_SSNAKE() || r == R_KEBAB() || r == R_SKEBAB()
}

/// serde field PascalCase: drop '_' and ASCII-uppercase what follows it (and the first char)
pub open spec fn sd_pascal(s: Seq<char>, cap: bool) -> Seq<char>
    decreases s.len()
{
    if s.len() == 0 { seq![] }
    else if s[0] == '_' { sd_pascal(s.drop_first(), true) }
    else if cap { seq![up(s[0])] + sd_pascal(s.drop_first(), false) }
    else { seq![s[0]] + sd_pascal(s.drop_first(), false) }
}
/// `p[..1].to_ascii_lowercase() + &p[1..]` where it does not panic (p non-empty, first char ASCII)
pub open spec fn lower_first(p: Seq<char>) -> Seq<char> {
    if p.len() == 0 { p } else { seq![low(p[0])] + p.drop_first() }
}
/// serde variant snake_case: '_' before every Unicode-uppercase char except the first, ASCII-lowercase everything
pub open spec fn sd_snake(s: Seq<char>, first: bool) -> Seq<char>
    decreases s.len()
{
    if s.len() == 0 { seq![] }
    else {
        (if !first && unicode_is_upper(s[0]) { seq!['_'] } else { seq![] })
          + seq![low(s[0])] + sd_snake(s.drop_first(), false)
    }
}
/// serde panics (so rustc rejects the derive) exactly here; the oracle is undefined on these inputs
pub open spec fn sd_slice1_ok(p: Seq<char>) -> bool { p.len() > 0 && (p[0] as u32) < 128 }

pub open spec fn serde_field(rule: Seq<char>, s: Seq<char>) -> Seq<char> {
    if rule == R_LOWER() || rule == R_SNAKE() { s }
    else if rule == R_UPPER() || rule == R_SSNAKE() { ascii_up(s) }
    else if rule == R_PASCAL() { sd_pascal(s, true) }
    else if rule == R_CAMEL() { lower_first(sd_pascal(s, true)) }
    else if rule == R_KEBAB() { dash(s) }
    else if rule == R_SKEBAB() { dash(ascii_up(s)) }
    else { s }
}
pub open spec fn serde_variant(rule: Seq<char>, s: Seq<char>) -> Seq<char> {
    if rule == R_PASCAL() { s }
    else if rule == R_LOWER() { ascii_low(s) }
    else if rule == R_UPPER() { ascii_up(s) }
    else if rule == R_CAMEL() { lower_first(s) }
    else if rule == R_SNAKE() { sd_snake(s, true) }
    else if rule == R_SSNAKE() { ascii_up(sd_snake(s, true)) }
    else if rule == R_KEBAB() { dash(sd_snake(s, true)) }
    else if rule == R_SKEBAB() { dash(ascii_up(sd_snake(s, true))) }
    else { s }
}
