// C05 vocabulary: what it means for a target-language type expression to be the translation of a Rust type expression.
// Written from the property statement and the target languages' notations, not from the back ends' code:
//   * sequences (Vec, slice, array) -> the target's sequence of the translated element
//   * HashMap -> the target's map of translated key and translated value
//   * generic arguments preserved, in order; user types keep their (prefixed) name; at any depth
//   * each primitive -> SOME target type of the same JSON category that can hold every value (a set, not one name)
//   * a configured type mapping replaces the mapped type by the configured name wherever it occurs - user types, generic types and
//     built-in / container types alike, in every back end
// The relation is over the IR (RustType); that references / smart pointers disappear is the parser's part (not under contract).

pub enum Lang { TypeScript, Kotlin, Swift, Scala, Go, Python }

/// the settings a back end translates under
pub ghost struct TCfg { pub lang: Lang, pub map: Map<String, String>, pub prefix: Seq<char>, pub no_pointer_slice: bool }

/// the spelling under which a built-in / container type is looked up in type_mappings (Display for SpecialRustType: text emission)
pub uninterp spec fn special_key(s: SpecialRustType) -> String;

pub open spec fn mapped(c: TCfg, k: String) -> Option<Seq<char>> { if c.map.contains_key(k) { Some(c.map[k]@) } else { None } }
pub open spec fn has_prefix(l: Lang) -> bool { l is Kotlin || l is Swift }
/// `id` is one of the generic parameters in scope
pub open spec fn is_param(g: Seq<String>, id: String) -> bool { exists|i: int| 0 <= i < g.len() && #[trigger] g[i] == id }

pub open spec fn copies(x: Seq<char>, n: usize) -> Seq<Seq<char>> { Seq::new(n as nat, |i: int| x) }

/// a user type keeps its (mapped, else prefixed) name; a generic parameter is never prefixed
pub open spec fn simple_name(c: TCfg, g: Seq<String>, id: String) -> Seq<char> {
    match mapped(c, id) { Some(x) => x, None => if has_prefix(c.lang) && !is_param(g, id) { c.prefix + id@ } else { id@ } }
}
pub open spec fn gen_open(l: Lang) -> Seq<char> { if l is TypeScript || l is Kotlin || l is Swift { "<"@ } else { "["@ } }
pub open spec fn gen_close(l: Lang) -> Seq<char> { if l is TypeScript || l is Kotlin || l is Swift { ">"@ } else { "]"@ } }
/// generic arguments: all of them, in order
pub open spec fn gen_args(l: Lang, ps: Seq<Seq<char>>) -> Seq<char> { if ps.len() > 0 { gen_open(l) + join(ps, ", "@) + gen_close(l) } else { Seq::empty() } }

/// the target's sequence of x
pub open spec fn seq_of(l: Lang, x: Seq<char>) -> Seq<char> {
    match l {
        Lang::TypeScript => x + "[]"@,
        Lang::Kotlin => "List<"@ + x + ">"@,
        Lang::Swift => "["@ + x + "]"@,
        Lang::Scala => "Vector["@ + x + "]"@,
        Lang::Go => "[]"@ + x,
        Lang::Python => "List["@ + x + "]"@,
    }
}
/// a fixed-length array: a sequence; TypeScript and Go can say the length (tuple of n / [n]T)
pub open spec fn arr_ok(l: Lang, x: Seq<char>, n: usize, out: Seq<char>) -> bool {
    out == seq_of(l, x)
    || (l is TypeScript && out == "["@ + join(copies(x, n), ", "@) + "]"@)
    || (l is Go && out == "["@ + dec(n) + "]"@ + x)
}
/// the target's map from k to v
pub open spec fn map_of(l: Lang, k: Seq<char>, v: Seq<char>) -> Seq<char> {
    match l {
        Lang::TypeScript => "Record<"@ + k + ", "@ + v + ">"@,
        Lang::Kotlin => "HashMap<"@ + k + ", "@ + v + ">"@,
        Lang::Swift => "["@ + k + ": "@ + v + "]"@,
        Lang::Scala => "Map["@ + k + ", "@ + v + "]"@,
        Lang::Go => "map["@ + k + "]"@ + v,
        Lang::Python => "Dict["@ + k + ", "@ + v + "]"@,
    }
}
/// Option<T> inside a type expression: the translated T, marked optional in the target's notation (TypeScript marks the member, not
/// the type - C04's domain; Go may omit the pointer for slices when so configured)
pub open spec fn opt_ok(c: TCfg, inner: RustType, x: Seq<char>, out: Seq<char>) -> bool {
    match c.lang {
        Lang::TypeScript => out == x,
        Lang::Kotlin => out == x + "?"@,
        Lang::Swift => out == x + "?"@,
        Lang::Scala => out == "Option["@ + x + "]"@,
        Lang::Go => out == "*"@ + x || (c.no_pointer_slice && inner is Special && inner->Special_0 is Vec && out == x),
        Lang::Python => out == "Optional["@ + x + "]"@,
    }
}

// ---- primitives: the target types of the same JSON category that can hold every value of the Rust type
pub open spec fn one_of2(o: Seq<char>, a: Seq<char>, b: Seq<char>) -> bool { o == a || o == b }
pub open spec fn one_of3(o: Seq<char>, a: Seq<char>, b: Seq<char>, c: Seq<char>) -> bool { o == a || o == b || o == c }
/// signed integer types of the language with at least `bits` bits (8, 16, 32, 54 -> 64)
pub open spec fn sint_ok(l: Lang, bits: int, o: Seq<char>) -> bool {
    match l {
        Lang::TypeScript => o == "number"@,
        Lang::Python => o == "int"@,
        Lang::Kotlin | Lang::Scala => (bits <= 8 && o == "Byte"@) || (bits <= 16 && o == "Short"@) || (bits <= 32 && o == "Int"@) || o == "Long"@,
        Lang::Swift => (bits <= 8 && o == "Int8"@) || (bits <= 16 && o == "Int16"@) || (bits <= 32 && (o == "Int32"@ || o == "Int"@)) || o == "Int64"@,
        Lang::Go => (bits <= 8 && o == "int8"@) || (bits <= 16 && o == "int16"@) || (bits <= 32 && (o == "int32"@ || o == "int"@)) || o == "int64"@,
    }
}
/// KNOWN FINDING kf-c05-scala-unsigned-width (recorded; pinned by two snapshots): Scala has no unsigned integers; typeshare writes the names below and
/// defines them as aliases of Byte / Short / Int / Int - none can hold every value of the Rust type. The contract accepts the NAMES and is silent about
/// their width; a signed type that is wide enough (the first disjunct of uint_ok) is what the property asks for
pub open spec fn kf_scala_unsigned(bits: int, o: Seq<char>) -> bool { (bits <= 8 && o == "UByte"@) || (bits <= 16 && o == "UShort"@) || (bits <= 32 && o == "UInt"@) || o == "ULong"@ }
/// unsigned integer types with at least `bits` bits, or signed ones with more than `bits` bits
pub open spec fn uint_ok(l: Lang, bits: int, o: Seq<char>) -> bool {
    sint_ok(l, bits + 1, o) || match l {
        Lang::TypeScript | Lang::Python => false,
        Lang::Kotlin => (bits <= 8 && o == "UByte"@) || (bits <= 16 && o == "UShort"@) || (bits <= 32 && o == "UInt"@) || o == "ULong"@,
        Lang::Scala => kf_scala_unsigned(bits, o),
        Lang::Swift => (bits <= 8 && o == "UInt8"@) || (bits <= 16 && o == "UInt16"@) || (bits <= 32 && (o == "UInt32"@ || o == "UInt"@)) || o == "UInt64"@,
        Lang::Go => (bits <= 8 && (o == "uint8"@ || o == "byte"@)) || (bits <= 16 && o == "uint16"@) || (bits <= 32 && (o == "uint32"@ || o == "uint"@)) || o == "uint64"@,
    }
}
pub open spec fn float_ok(l: Lang, bits: int, o: Seq<char>) -> bool {
    match l {
        Lang::TypeScript => o == "number"@,
        Lang::Python => o == "float"@,
        Lang::Kotlin | Lang::Scala | Lang::Swift => (bits <= 32 && o == "Float"@) || o == "Double"@,
        Lang::Go => (bits <= 32 && o == "float32"@) || o == "float64"@,
    }
}
pub open spec fn bool_ok(l: Lang, o: Seq<char>) -> bool {
    match l { Lang::TypeScript => o == "boolean"@, Lang::Kotlin | Lang::Scala => o == "Boolean"@, Lang::Swift => o == "Bool"@, Lang::Go => o == "bool"@, Lang::Python => o == "bool"@ }
}
pub open spec fn string_ok(l: Lang, o: Seq<char>) -> bool {
    match l { Lang::TypeScript => o == "string"@, Lang::Kotlin | Lang::Scala | Lang::Swift => o == "String"@, Lang::Go => o == "string"@, Lang::Python => o == "str"@ }
}
/// KNOWN FINDING kf-c05-char-not-a-json-string (recorded; pinned by the snapshot test_generate_char): serde writes a Rust char as a JSON string of one
/// scalar; Go translates it to `rune` (an integer: a JSON number) and Swift to `Unicode.Scalar` (not Codable). The contract is silent exactly on these
/// two spellings - an earlier version of this specification simply listed them as acceptable, which was the code's view, not the property's
pub open spec fn kf_char(l: Lang, o: Seq<char>) -> bool { (l is Swift && o == "Unicode.Scalar"@) || (l is Go && o == "rune"@) }
/// a Rust char is one Unicode scalar: a JSON string; 16-bit Char types cannot hold every value
pub open spec fn char_ok(l: Lang, o: Seq<char>) -> bool { string_ok(l, o) || kf_char(l, o) }
pub open spec fn unit_ok(l: Lang, o: Seq<char>) -> bool {
    match l {
        Lang::TypeScript => o == "undefined"@ || o == "null"@ || o == "void"@,
        Lang::Kotlin | Lang::Scala => o == "Unit"@,
        Lang::Swift => o == "CodableVoid"@,
        Lang::Go => o == "struct{}"@,
        Lang::Python => o == "None"@,
    }
}
/// 64-bit integers are rejected by the parser (C08's domain); they are outside the domain of these contracts
pub open spec fn is64(s: SpecialRustType) -> bool { s is U64 || s is I64 || s is ISize || s is USize }

/// no 64-bit integer anywhere in the type expression
pub open spec fn dom(ty: RustType) -> bool
    decreases ty
{
    match ty {
        RustType::Simple { id } => true,
        RustType::Generic { id, parameters } => forall|k: int| 0 <= k < parameters@.len() ==> dom(#[trigger] parameters@[k]),
        RustType::Special(s) => dom_special(s),
    }
}
pub open spec fn dom_special(s: SpecialRustType) -> bool
    decreases s
{
    match s {
        SpecialRustType::Vec(t) => dom(*t),
        SpecialRustType::Array(t, _) => dom(*t),
        SpecialRustType::Slice(t) => dom(*t),
        SpecialRustType::Option(t) => dom(*t),
        SpecialRustType::HashMap(k, v) => dom(*k) && dom(*v),
        other => !is64(other),
    }
}

/// trigger plumbing: every string a formatting function returns is marked, so that the existential "some translation x of the
/// element" can be instantiated with it (tx_ok itself is recursive and a poor trigger); always true
pub open spec fn wit(x: Seq<char>) -> bool { true }

/// C05: `out` is a translation of `ty`
pub open spec fn tx_ok(c: TCfg, g: Seq<String>, ty: RustType, out: Seq<char>) -> bool
    decreases ty, 1int
{
    match ty {
        RustType::Simple { id } => out == simple_name(c, g, id),
        RustType::Generic { id, parameters } => generic_ok(c, g, id, parameters@, out),
        RustType::Special(s) => tx_special_ok(c, g, s, out),
    }
}
/// a generic type: its mapping if it has one, else its (prefixed) name followed by ALL arguments, translated, in order
pub open spec fn generic_ok(c: TCfg, g: Seq<String>, id: String, params: Seq<RustType>, out: Seq<char>) -> bool
    decreases params, 0int
{
    match mapped(c, id) {
        Some(x) => out == x,
        None => exists|ps: Seq<Seq<char>>| ps.len() == params.len()
            && (forall|k: int| 0 <= k < params.len() ==> tx_ok(c, g, #[trigger] params[k], ps[k]))
            && out == simple_name(c, g, id) + gen_args(c.lang, ps),
    }
}
pub open spec fn tx_special_ok(c: TCfg, g: Seq<String>, s: SpecialRustType, out: Seq<char>) -> bool
    decreases s, 0int
{
    if mapped(c, special_key(s)) is Some { out == mapped(c, special_key(s))->Some_0 } else {
        match s {
            SpecialRustType::Vec(t) => exists|x: Seq<char>| #[trigger] wit(x) && tx_ok(c, g, *t, x) && out == seq_of(c.lang, x),
            SpecialRustType::Slice(t) => exists|x: Seq<char>| #[trigger] wit(x) && tx_ok(c, g, *t, x) && out == seq_of(c.lang, x),
            SpecialRustType::Array(t, n) => exists|x: Seq<char>| #[trigger] wit(x) && tx_ok(c, g, *t, x) && arr_ok(c.lang, x, n, out),
            SpecialRustType::Option(t) => exists|x: Seq<char>| #[trigger] wit(x) && tx_ok(c, g, *t, x) && opt_ok(c, *t, x, out),
            SpecialRustType::HashMap(k, v) => exists|x: Seq<char>, y: Seq<char>| #![trigger wit(x), wit(y)] tx_ok(c, g, *k, x) && tx_ok(c, g, *v, y) && out == map_of(c.lang, x, y),
            SpecialRustType::Unit => unit_ok(c.lang, out),
            SpecialRustType::String => string_ok(c.lang, out),
            SpecialRustType::Char => char_ok(c.lang, out),
            SpecialRustType::Bool => bool_ok(c.lang, out),
            SpecialRustType::I8 => sint_ok(c.lang, 8, out),
            SpecialRustType::I16 => sint_ok(c.lang, 16, out),
            SpecialRustType::I32 => sint_ok(c.lang, 32, out),
            SpecialRustType::I54 => sint_ok(c.lang, 54, out),
            SpecialRustType::U8 => uint_ok(c.lang, 8, out),
            SpecialRustType::U16 => uint_ok(c.lang, 16, out),
            SpecialRustType::U32 => uint_ok(c.lang, 32, out),
            SpecialRustType::U53 => uint_ok(c.lang, 53, out),
            SpecialRustType::F32 => float_ok(c.lang, 32, out),
            SpecialRustType::F64 => float_ok(c.lang, 64, out),
            // OffsetDateTime is outside the property's alphabet: any spelling
            SpecialRustType::DateTime => true,
            SpecialRustType::U64 | SpecialRustType::I64 | SpecialRustType::ISize | SpecialRustType::USize => true,
        }
    }
}

/// the translation may legitimately be refused: OffsetDateTime (outside the alphabet), and a generic parameter as map key where the
/// target has no such type (TypeScript Record / Python Dict keys) - anywhere below a type that is not itself mapped
pub open spec fn tx_may_fail(c: TCfg, g: Seq<String>, ty: RustType) -> bool
    decreases ty, 1int
{
    match ty {
        RustType::Simple { id } => false,
        RustType::Generic { id, parameters } => generic_may_fail(c, g, id, parameters@),
        RustType::Special(s) => tx_special_may_fail(c, g, s),
    }
}
pub open spec fn generic_may_fail(c: TCfg, g: Seq<String>, id: String, params: Seq<RustType>) -> bool
    decreases params, 0int
{
    mapped(c, id) is None && exists|k: int| 0 <= k < params.len() && tx_may_fail(c, g, #[trigger] params[k])
}
pub open spec fn tx_special_may_fail(c: TCfg, g: Seq<String>, s: SpecialRustType) -> bool
    decreases s, 0int
{
    mapped(c, special_key(s)) is None && match s {
        SpecialRustType::Vec(t) => tx_may_fail(c, g, *t),
        SpecialRustType::Slice(t) => tx_may_fail(c, g, *t),
        SpecialRustType::Array(t, _) => tx_may_fail(c, g, *t),
        SpecialRustType::Option(t) => tx_may_fail(c, g, *t),
        SpecialRustType::HashMap(k, v) => tx_may_fail(c, g, *k) || tx_may_fail(c, g, *v)
            || ((c.lang is TypeScript || c.lang is Python) && *k is Simple && is_param(g, k->Simple_id)),
        SpecialRustType::DateTime => true,
        _ => false,
    }
}
/// what a formatting function may answer for `ty`
pub open spec fn answers(c: TCfg, g: Seq<String>, ty: RustType, r: Result<String, RustTypeFormatError>) -> bool {
    match r { Ok(s) => wit(s@) && tx_ok(c, g, ty, s@), Err(_) => tx_may_fail(c, g, ty) }
}
pub open spec fn answers_special(c: TCfg, g: Seq<String>, s: SpecialRustType, r: Result<String, RustTypeFormatError>) -> bool {
    match r { Ok(o) => tx_special_ok(c, g, s, o@), Err(_) => tx_special_may_fail(c, g, s) }
}
