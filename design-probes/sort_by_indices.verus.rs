use vstd::prelude::*;
use vstd::set_lib::*;
verus! {
pub assume_specification<T> [<[T]>::swap] (s: &mut [T], a: usize, b: usize)
    requires a < old(s)@.len(), b < old(s)@.len()
    ensures final(s)@ == old(s)@.update(a as int, old(s)@[b as int]).update(b as int, old(s)@[a as int]);

pub open spec fn is_perm(p: Seq<usize>, n: int) -> bool {
    p.len() == n
    && (forall|i: int| 0 <= i < n ==> (#[trigger] p[i]) < n)
    && (forall|i: int, j: int| 0 <= i < n && 0 <= j < n && i != j ==> p[i] != p[j])
}

pub open spec fn undone(ind: Seq<usize>, k: int) -> nat
    decreases k
{
    if k <= 0 { 0 } else { undone(ind, k - 1) + if ind[k - 1] != k - 1 { 1nat } else { 0nat } }
}

proof fn lemma_undone_same(a: Seq<usize>, b: Seq<usize>, k: int)
    requires 0 <= k <= a.len(), a.len() == b.len(), forall|j: int| 0 <= j < k ==> a[j] == b[j]
    ensures undone(a, k) == undone(b, k)
    decreases k
{
    if k > 0 { lemma_undone_same(a, b, k - 1); }
}

proof fn lemma_undone_step(ind: Seq<usize>, c: usize, k: int)
    requires 0 <= c < k <= ind.len(), ind[c as int] != c
    ensures undone(ind.update(c as int, c), k) < undone(ind, k)
    decreases k
{
    let upd = ind.update(c as int, c);
    if c == k - 1 {
        lemma_undone_same(ind, upd, k - 1);
    } else {
        lemma_undone_step(ind, c, k - 1);
        assert(upd[k - 1] == ind[k - 1]);
    }
}

// state invariant relative to original permutation p and original data d
pub open spec fn st<T>(p: Seq<usize>, d: Seq<T>, ind: Seq<usize>, data: Seq<T>) -> bool {
    let n = p.len() as int;
    ind.len() == n && data.len() == n && d.len() == n
    && (forall|j: int| 0 <= j < n ==> (#[trigger] ind[j]) == j || ind[j] == p[j])
    && (forall|j: int| 0 <= j < n && (#[trigger] ind[j]) == j ==> data[j] == d[p[j] as int])
    && (forall|j: int| 0 <= j < n && (#[trigger] ind[j]) != j ==> data[j] == d[j])
    && (forall|j: int| 0 <= j < n && ind[(#[trigger] p[j]) as int] == p[j] ==> ind[j] == j)
}

/// In place sort of array using provided indices.
pub(crate) fn sort_by_indices<T>(data: &mut [T], mut indices: Vec<usize>)
    requires is_perm(indices@, old(data)@.len() as int)
    ensures final(data)@.len() == old(data)@.len(),
            forall|i: int| 0 <= i < old(data)@.len() ==> (#[trigger] final(data)@[i]) == old(data)@[indices@[i] as int],
{
    let ghost p = indices@;
    let ghost d = data@;
    let ghost n = data@.len() as int;
    for idx in it: 0..data.len()
        invariant
            it.iter.end == n,
            is_perm(p, n), n == d.len(), data@.len() == n,
            st(p, d, indices@, data@),
            forall|j: int| 0 <= j < idx ==> (#[trigger] indices@[j]) == j,
    {
        if indices[idx] != idx {
            let mut current_idx = idx;
            let ghost start = idx as int;
            loop
                invariant_except_break
                    0 <= current_idx < n,
                    forall|j: int| 0 <= j < n ==> (#[trigger] indices@[j]) == j || indices@[j] == p[j],
                    indices@[current_idx as int] != current_idx,
                    forall|j: int| 0 <= j < n && (#[trigger] indices@[j]) == j ==> data@[j] == d[p[j] as int],
                    forall|j: int| 0 <= j < n && (#[trigger] indices@[j]) != j && j != current_idx ==> data@[j] == d[j],
                    data@[current_idx as int] == d[start],
                    forall|j: int| 0 <= j < n && indices@[(#[trigger] p[j]) as int] == p[j] && p[j] != start ==> indices@[j] == j,
                    current_idx != start ==> indices@[start] == start,
                    current_idx != start ==> (forall|j: int| 0 <= j < n && (#[trigger] p[j]) == current_idx ==> indices@[j] == j),
                invariant
                    is_perm(p, n), n == d.len(), data@.len() == n, indices@.len() == n,
                    0 <= start < n, start == idx,
                    forall|j: int| 0 <= j < idx ==> (#[trigger] indices@[j]) == j,
                ensures
                    st(p, d, indices@, data@),
                    indices@[start] == start,
                decreases undone(indices@, n)
            {
                let ghost ind0 = indices@;
                let target_idx = indices[current_idx];
                indices[current_idx] = current_idx;
                proof {
                    lemma_undone_step(ind0, current_idx, n);
                    assert(indices@ =~= ind0.update(current_idx as int, current_idx));
                    assert(target_idx == p[current_idx as int]);
                    assert(target_idx != current_idx);
                }
                if indices[target_idx] == target_idx {
                    proof {
                        // target must be start
                        assert(ind0[target_idx as int] == target_idx);
                        assert(target_idx == start) by {
                            if target_idx != start {
                                assert(ind0[p[current_idx as int] as int] == p[current_idx as int]);
                                assert(ind0[current_idx as int] == current_idx);
                            }
                        }
                        assert(current_idx != start);
                    }
                    break;
                }
                data.swap(current_idx, target_idx);
                current_idx = target_idx;
            }
        }
    }
}
} // verus!
fn main() {}
