use vstd::prelude::*;
use vstd::seq_lib::*;
use vstd::relations::*;
verus! {
// items are opaque; order is the (assumed) Ord of the item type, keyed by id.original
pub struct Item { pub key: u32 }
impl PartialEq for Item { #[verifier::external_body] fn eq(&self, o: &Self) -> bool { self.key == o.key } }
impl Eq for Item {}
impl PartialOrd for Item { #[verifier::external_body] fn partial_cmp(&self, o: &Self) -> Option<core::cmp::Ordering> { Some(self.cmp(o)) } }
impl Ord for Item { #[verifier::external_body] fn cmp(&self, o: &Self) -> core::cmp::Ordering { self.key.cmp(&o.key) } }
pub uninterp spec fn ord_le<T>(a: T, b: T) -> bool;
pub open spec fn item_le(a: Item, b: Item) -> bool { ord_le(a, b) }

pub assume_specification<T: Ord> [<[T]>::sort] (s: &mut [T])
    ensures sorted_by(final(s)@, |a: T, b: T| ord_le(a, b)),
            final(s)@.to_multiset() == old(s)@.to_multiset();

/// "keys are distinct among the items" == item_le restricted to them is antisymmetric; we state the
/// whole-order version: item_le is a total ordering (holds when no two items share a key).
pub open spec fn distinct_keys() -> bool { total_ordering(|a: Item, b: Item| ord_le(a, b)) }

// the sort block of reconcile_aliases, lifted (T11)
fn sort_block(structs: &mut Vec<Item>)
    ensures sorted_by(final(structs)@, |a: Item, b: Item| ord_le(a, b)),
            final(structs)@.to_multiset() == old(structs)@.to_multiset()
{
    structs.sort();
}

/// order independence: two folds of the same multiset give the same vector after the sort block
proof fn lemma_order_independent(a: Seq<Item>, b: Seq<Item>, a2: Seq<Item>, b2: Seq<Item>)
    requires
        distinct_keys(),
        a.to_multiset() == b.to_multiset(),               // same per-file results, different arrival order
        sorted_by(a2, |x: Item, y: Item| ord_le(x, y)), a2.to_multiset() == a.to_multiset(),
        sorted_by(b2, |x: Item, y: Item| ord_le(x, y)), b2.to_multiset() == b.to_multiset(),
    ensures a2 == b2
{
    lemma_sorted_unique(a2, b2, |x: Item, y: Item| ord_le(x, y));
}

/// concatenation in any order has the same multiset (two-file case; n-file by induction)
proof fn lemma_concat_comm(x: Seq<Item>, y: Seq<Item>)
    ensures (x + y).to_multiset() == (y + x).to_multiset()
{
    lemma_seq_union_to_multiset_commutative(x, y);
}
} // verus!
fn main() {}
