use vstd::prelude::*;
use std::collections::HashMap;
use std::path::PathBuf;
verus! {
// --- type definitions extracted verbatim (T5: attributes stripped)
pub struct KotlinParams {
    pub package: String,
    pub module_name: String,
    pub prefix: String,
    pub type_mappings: HashMap<String, String>,
}
pub struct ScalaParams {
    pub package: String,
    pub module_name: String,
    pub type_mappings: HashMap<String, String>,
}
pub struct SwiftParams {
    pub prefix: String,
    pub default_decorators: Vec<String>,
    pub default_generic_constraints: Vec<String>,
    pub codablevoid_constraints: Vec<String>,
    pub type_mappings: HashMap<String, String>,
}
pub struct TypeScriptParams {
    pub type_mappings: HashMap<String, String>,
}
pub struct GoParams {
    pub package: String,
    pub uppercase_acronyms: Vec<String>,
    pub no_pointer_slice: bool,
    pub type_mappings: HashMap<String, String>,
}
pub(crate) struct Config {
    pub swift: SwiftParams,
    pub typescript: TypeScriptParams,
    pub kotlin: KotlinParams,
    pub scala: ScalaParams,
    pub go: GoParams,
    pub target_os: Vec<String>,
}
#[verifier::external_type_specification]
#[verifier::external_body]
pub struct ExPathBuf(std::path::PathBuf);
pub enum AvailableLanguage { Kotlin, Scala, Swift, Typescript, Go, Python }
#[verifier::external_body] pub struct AnyhowError { _p: () }
pub struct Output { pub file: Option<PathBuf>, pub folder: Option<PathBuf>, pub generate_config: bool }
pub struct Args {
    pub language: Option<AvailableLanguage>,
    pub swift_prefix: Option<String>,
    pub kotlin_prefix: Option<String>,
    pub java_package: Option<String>,
    pub kotlin_module_name: Option<String>,
    pub scala_package: Option<String>,
    pub scala_module_name: Option<String>,
    pub go_package: Option<String>,
    pub config_file: Option<PathBuf>,
    pub output: Output,
    pub follow_links: bool,
    pub directories: Vec<PathBuf>,
    pub target_os: Option<Vec<String>>,
}
#[verifier::external_body]
fn outlined_to_string(s: &String) -> (r: String) ensures r == *s { s.to_string() }

#[verifier::external_body]
fn outlined_target_os(options: &Args) -> (r: Vec<String>)
   ensures r@ == match options.target_os { Some(v) => v@, None => Seq::<String>::empty() }
{ options.target_os.as_deref().unwrap_or_default().to_vec() }
#[verifier::external_body]
fn outlined_anyhow() -> AnyhowError { unimplemented!() }

pub open spec fn pick(o: Option<String>, d: String) -> String { match o { Some(v) => v, None => d } }

fn override_configuration(mut config: Config, options: &Args) -> (res: Result<Config, AnyhowError>)
  ensures
    res is Err <==> (options.language == Some(AvailableLanguage::Go) && pick(options.go_package, config.go.package)@.len() == 0),
    res is Ok ==> {
        let r = res->Ok_0;
        &&& r.swift.prefix == pick(options.swift_prefix, config.swift.prefix)
        &&& r.kotlin.prefix == pick(options.kotlin_prefix, config.kotlin.prefix)
        &&& r.kotlin.package == pick(options.java_package, config.kotlin.package)
        &&& r.kotlin.module_name == pick(options.kotlin_module_name, config.kotlin.module_name)
        &&& r.scala.package == pick(options.scala_package, config.scala.package)
        &&& r.scala.module_name == pick(options.scala_module_name, config.scala.module_name)
        &&& r.go.package == pick(options.go_package, config.go.package)
        // frame (generated from the struct definitions)
        &&& r.swift.default_decorators == config.swift.default_decorators
        &&& r.swift.default_generic_constraints == config.swift.default_generic_constraints
        &&& r.swift.codablevoid_constraints == config.swift.codablevoid_constraints
        &&& r.swift.type_mappings == config.swift.type_mappings
        &&& r.typescript.type_mappings == config.typescript.type_mappings
        &&& r.kotlin.type_mappings == config.kotlin.type_mappings
        &&& r.scala.type_mappings == config.scala.type_mappings
        &&& r.go.uppercase_acronyms == config.go.uppercase_acronyms
        &&& r.go.no_pointer_slice == config.go.no_pointer_slice
        &&& r.go.type_mappings == config.go.type_mappings
        &&& r.target_os@ == match options.target_os { Some(v) => v@, None => Seq::<String>::empty() }
    }
{
    if let Some(swift_prefix) = options.swift_prefix.as_ref() {
        config.swift.prefix = swift_prefix.clone();
    }

    if let Some(kotlin_prefix) = options.kotlin_prefix.as_ref() {
        config.kotlin.prefix = kotlin_prefix.clone();
    }

    if let Some(java_package) = options.java_package.as_ref() {
        config.kotlin.package = java_package.clone();
    }

    if let Some(module_name) = options.kotlin_module_name.as_ref() {
        config.kotlin.module_name = outlined_to_string(module_name);
    }

    if let Some(scala_package) = options.scala_package.as_ref() {
        config.scala.package = scala_package.clone();
    }

    if let Some(scala_module_name) = options.scala_module_name.as_ref() {
        config.scala.module_name = outlined_to_string(scala_module_name);
    }

    {
        if let Some(go_package) = options.go_package.as_ref() {
            config.go.package = outlined_to_string(go_package);
        }

        if matches!(options.language, Some(AvailableLanguage::Go)) {
            if !(!config.go.package.is_empty()) { return Err(outlined_anyhow()); }
        }
    }

    config.target_os = outlined_target_os(options);

    Ok(config)
}
} // verus!
fn main() {}
