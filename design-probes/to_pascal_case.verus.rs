use vstd::prelude::*;
verus! {
pub open spec fn up(c: char) -> char { if 'a' <= c && c <= 'z' { ((c as u8) - 32) as char } else { c } }
pub open spec fn low(c: char) -> char { if 'A' <= c && c <= 'Z' { ((c as u8) + 32) as char } else { c } }

pub assume_specification [<str>::to_ascii_uppercase] (s: &str) -> (r: String)
    ensures r@ == s@.map_values(|c: char| up(c));
pub assume_specification [<char>::to_ascii_uppercase] (c: &char) -> (r: char)
    ensures r == up(*c);
pub assume_specification [<char>::to_ascii_lowercase] (c: &char) -> (r: char)
    ensures r == low(*c);

pub open spec fn pascal_spec(s: Seq<char>, cap: bool, tl: bool) -> Seq<char>
  decreases s.len()
{
    if s.len() == 0 { seq![] }
    else if s[0] == '_' { pascal_spec(s.drop_first(), true, tl) }
    else if cap { seq![up(s[0])] + pascal_spec(s.drop_first(), false, tl) }
    else { seq![if tl { low(s[0]) } else { s[0] }] + pascal_spec(s.drop_first(), false, tl) }
}

// body below is core/src/rename.rs::to_pascal_case verbatim (self -> this); only spec lines added
fn to_pascal_case(this: &String) -> (pascal: String)
   ensures pascal@ == pascal_spec(this@, true, this@.map_values(|c: char| up(c)) == this@)
{
        let mut pascal = String::new();
        let mut capitalize = true;
        let to_lowercase = {
            // Check if string is all uppercase, such as "URL" or "TOTP". In that case, we don't want
            // to preserve the cases.
            this.to_ascii_uppercase() == *this
        };

        proof { assert(this@.skip(0) =~= this@); }
        for ch in it: this.chars()
            invariant
                to_lowercase == (this@.map_values(|c: char| up(c)) == this@),
                0 <= it.index@ <= this@.len(),
                pascal@ + pascal_spec(this@.skip(it.index@), capitalize, to_lowercase) =~= pascal_spec(this@, true, to_lowercase),
        {
            proof {
                let rest = this@.skip(it.index@);
                assert(rest.drop_first() =~= this@.skip(it.index@ + 1));
                assert(rest[0] == ch);
            }
            if ch == '_' {
                capitalize = true;
            } else if capitalize {
                pascal.push(ch.to_ascii_uppercase());
                capitalize = false;
            } else {
                pascal.push(if to_lowercase {
                    ch.to_ascii_lowercase()
                } else {
                    ch
                });
            }
        }
        proof { assert(this@.skip(this@.len() as int) =~= Seq::<char>::empty()); }
        pascal
}
} // verus!
fn main() {}
