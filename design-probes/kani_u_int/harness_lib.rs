#![allow(dead_code)]
mod integer;
#[cfg(kani)]
mod harness {
    use super::integer::*;
    use std::convert::TryFrom;
    #[kani::proof_for_contract(<U53 as TryFrom<u64>>::try_from)]
    fn c_u53_try_from() { let _ = U53::try_from(kani::any::<u64>()); }
    #[kani::proof_for_contract(<I54 as TryFrom<i64>>::try_from)]
    fn c_i54_try_from() { let _ = I54::try_from(kani::any::<i64>()); }
    #[kani::proof_for_contract(usize_from_u64_saturated)]
    fn c_sat64() { usize_from_u64_saturated(kani::any()); }
    #[kani::proof_for_contract(usize_from_u53_saturated)]
    #[kani::stub_verified(usize_from_u64_saturated)]
    fn c_sat53() {
        let v: u64 = kani::any();
        if let Ok(x) = U53::try_from(v) { usize_from_u53_saturated(x); }
    }
    #[kani::proof]
    fn widen_narrow_u32() {
        let v: u32 = kani::any();
        let x = U53::from(v);
        assert!(u64::from(x) == v as u64);
        assert!(u32::try_from(x) == Ok(v));
        let w: u64 = kani::any();
        if let Ok(y) = U53::try_from(w) {
            let back = u32::try_from(y);
            assert!(back.is_ok() == (w <= u32::MAX as u64));
            if let Ok(b) = back { assert!(b as u64 == w); }
            assert!((w as f64) as u64 == w);
        }
    }
    #[kani::proof]
    fn order_agrees() {
        let a: i64 = kani::any(); let b: i64 = kani::any();
        if let (Ok(x), Ok(y)) = (I54::try_from(a), I54::try_from(b)) {
            assert!((x < y) == (a < b)); assert!((x == y) == (a == b));
            assert!(x.cmp(&y) == a.cmp(&b));
            assert!((x == b) == (a == b));
            assert!(x.partial_cmp(&b) == Some(a.cmp(&b)));
            assert!((a as f64) as i64 == a);
        }
        assert!(i64::from(I54::MAX) == (1i64 << 53) - 1);
        assert!(i64::from(I54::MIN) == -((1i64 << 53) - 1));
    }
}
