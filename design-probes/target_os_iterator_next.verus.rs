use vstd::prelude::*;
verus! {
// ---- T7: opaque stand-ins for syn types; semantics only through uninterpreted spec fns
#[verifier::external_body] pub struct SynPath { _p: () }
#[verifier::external_body] pub struct MetaList { _p: () }
#[verifier::external_body] pub struct MetaNameValue { _p: () }
pub enum Meta { Path(SynPath), List(MetaList), NameValue(MetaNameValue) }

pub uninterp spec fn meta_is_not(m: Meta) -> bool;                     // meta.path().is_ident("not")
pub uninterp spec fn list_children(l: MetaList) -> Option<Seq<Meta>>;  // parse_args_with(...).ok()
pub uninterp spec fn nv_target_os(nv: MetaNameValue) -> Option<Seq<char>>;
pub uninterp spec fn size(m: Meta) -> nat;                             // token trees are finite

#[derive(Copy, Clone)]
pub enum TargetScope { Accept, Reject }

pub struct TargetOsIterator { pub meta: Vec<(TargetScope, Meta)> }

pub open spec fn stack_size(s: Seq<(TargetScope, Meta)>) -> nat
    decreases s.len()
{ if s.len() == 0 { 0 } else { stack_size(s.drop_last()) + size(s.last().1) + 1 } }

pub open spec fn with_scope(cs: Seq<Meta>, sc: TargetScope) -> Seq<(TargetScope, Meta)> {
    cs.map_values(|m: Meta| (sc, m))
}
pub open spec fn children_size(cs: Seq<Meta>) -> nat
    decreases cs.len()
{ if cs.len() == 0 { 0 } else { children_size(cs.drop_last()) + size(cs.last()) + 1 } }

/// ASSUMED: a list is strictly bigger than all its children together (finite trees)
#[verifier::external_body]
proof fn axiom_children_smaller(l: MetaList)
    requires list_children(l) is Some
    ensures children_size(list_children(l)->Some_0) < size(Meta::List(l))
{}

proof fn lemma_stack_size_append(a: Seq<(TargetScope, Meta)>, cs: Seq<Meta>, sc: TargetScope)
    ensures stack_size(a + with_scope(cs, sc)) == stack_size(a) + children_size(cs)
    decreases cs.len()
{
    let b = with_scope(cs, sc);
    if cs.len() == 0 {
        assert(a + b =~= a);
    } else {
        let cs1 = cs.drop_last();
        lemma_stack_size_append(a, cs1, sc);
        assert((a + b).drop_last() =~= a + with_scope(cs1, sc));
        assert((a + b).last() == (sc, cs.last()));
    }
}

pub open spec fn eff(sc: TargetScope, m: Meta) -> TargetScope { if meta_is_not(m) { TargetScope::Reject } else { sc } }

/// what the iterator will yield from this stack, in order (the algorithm-independent reading is
/// `tree_leaves` below)
pub open spec fn yields(s: Seq<(TargetScope, Meta)>) -> Seq<(TargetScope, Seq<char>)>
    decreases stack_size(s)
    via yields_dec
{
    if s.len() == 0 { seq![] } else {
        let (sc0, m) = s.last();
        let rest = s.drop_last();
        let sc = eff(sc0, m);
        match m {
            Meta::Path(_) => yields(rest),
            Meta::List(l) => match list_children(l) {
                None => seq![],
                Some(cs) => yields(rest + with_scope(cs, sc)),
            },
            Meta::NameValue(nv) => match nv_target_os(nv) {
                Some(os) => seq![(sc, os)] + yields(rest),
                None => yields(rest),
            },
        }
    }
}
#[via_fn]
proof fn yields_dec(s: Seq<(TargetScope, Meta)>) {
    if s.len() != 0 {
        let (sc0, m) = s.last();
        let rest = s.drop_last();
        if let Meta::List(l) = m {
            if let Some(cs) = list_children(l) {
                axiom_children_smaller(l);
                lemma_stack_size_append(rest, cs, eff(sc0, m));
            }
        }
    }
}

// ---- T3 outlined fragments (bodies are the original expressions; contracts ASSUMED)
#[verifier::external_body]
fn outlined_is_not(meta: &Meta) -> (r: bool) ensures r == meta_is_not(*meta) { unimplemented!() }
#[verifier::external_body]
fn outlined_parse_nested(meta_list: MetaList) -> (r: Option<Vec<Meta>>)
   ensures match r { Some(v) => list_children(meta_list) == Some(v@), None => list_children(meta_list) is None }
{ unimplemented!() }
#[verifier::external_body]
fn outlined_extend(stack: &mut Vec<(TargetScope, Meta)>, nested: Vec<Meta>, scope: TargetScope)
   ensures final(stack)@ == old(stack)@ + with_scope(nested@, scope)
{ unimplemented!() }
#[verifier::external_body]
fn outlined_nv_value(nv: MetaNameValue) -> (r: Option<String>)
   ensures match r { Some(s) => nv_target_os(nv) == Some(s@), None => nv_target_os(nv) is None }
{ unimplemented!() }

impl TargetOsIterator {
    fn next(&mut self) -> (r: Option<(TargetScope, String)>)
        ensures match r {
            Some(x) => yields(old(self).meta@).len() > 0
                       && (x.0, x.1@) == yields(old(self).meta@)[0]
                       && yields(final(self).meta@) == yields(old(self).meta@).drop_first(),
            None => yields(old(self).meta@).len() == 0,
        }
    {
        let ghost y0 = yields(self.meta@);
        while let Some((mut scope, meta)) = self.meta.pop()
            invariant yields(self.meta@) == y0, y0 == yields(old(self).meta@)
            ensures y0.len() == 0
            decreases stack_size(self.meta@)
        {
            let ghost before = self.meta@.push((scope, meta));
            proof { assert(before.drop_last() =~= self.meta@); assert(before.last() == (scope, meta)); }
            if outlined_is_not(&meta) {
                scope = TargetScope::Reject
            }

            match meta {
                Meta::Path(p) => {
                }
                Meta::List(meta_list) => {
                    proof { assert(yields(before) == y0); if list_children(meta_list) is None { assert(yields(before) =~= seq![]); } }
                    let nested_meta_list = outlined_parse_nested(meta_list)?;
                    proof {
                        axiom_children_smaller(meta_list);
                        lemma_stack_size_append(self.meta@, nested_meta_list@, scope);
                    }
                    outlined_extend(&mut self.meta, nested_meta_list, scope);
                }
                Meta::NameValue(nv) => {
                    if let Some(value) = outlined_nv_value(nv)
                    {
                        proof {
                            assert(yields(before) == y0);
                            assert(y0 == seq![(scope, value@)] + yields(self.meta@));
                            assert((seq![(scope, value@)] + yields(self.meta@)).drop_first() =~= yields(self.meta@));
                        }
                        return Some((scope, value));
                    }
                }
            }
        }
        None
    }
}
} // verus!
fn main() {}
