use vstd::prelude::*;
verus! {
pub open spec fn up(c: char) -> char { if 'a' <= c && c <= 'z' { ((c as u8) - 32) as char } else { c } }
pub open spec fn low(c: char) -> char { if 'A' <= c && c <= 'Z' { ((c as u8) + 32) as char } else { c } }
pub uninterp spec fn unicode_is_upper(c: char) -> bool;

pub assume_specification [<str>::to_ascii_uppercase] (s: &str) -> (r: String)
    ensures r@ == s@.map_values(|c: char| up(c));
pub assume_specification [<char>::to_ascii_lowercase] (c: &char) -> (r: char)
    ensures r == low(*c);
pub assume_specification [<char>::is_uppercase] (c: char) -> (r: bool)
    ensures r == unicode_is_upper(c);

#[verifier::external_type_specification]
#[verifier::external_body]
pub struct ExCharIndices<'a>(core::str::CharIndices<'a>);

/// remaining (char-position, char) pairs; byte offset is abstracted to "is zero iff first char"
pub uninterp spec fn ci_rest(it: core::str::CharIndices) -> Seq<char>;
pub uninterp spec fn ci_pos(it: core::str::CharIndices) -> int;

pub assume_specification<'a> [<str>::char_indices] (s: &'a str) -> (it: core::str::CharIndices<'a>)
    ensures ci_rest(it) == s@, ci_pos(it) == 0;
pub assume_specification<'a> [<core::str::CharIndices<'a> as Iterator>::next] (it: &mut core::str::CharIndices<'a>) -> (r: Option<(usize, char)>)
    ensures match r {
        None => ci_rest(*old(it)).len() == 0,
        Some(p) => ci_rest(*old(it)).len() > 0 && p.1 == ci_rest(*old(it))[0]
                   && ci_rest(*final(it)) == ci_rest(*old(it)).drop_first()
                   && ci_pos(*final(it)) == ci_pos(*old(it)) + 1
                   && ((p.0 > 0) == (ci_pos(*old(it)) > 0)),
    };

pub open spec fn snake_spec(s: Seq<char>, first: bool, allup: bool) -> Seq<char>
  decreases s.len()
{
    if s.len() == 0 { seq![] }
    else {
        (if !first && unicode_is_upper(s[0]) && !allup { seq!['_'] } else { seq![] })
          + seq![low(s[0])] + snake_spec(s.drop_first(), false, allup)
    }
}

fn to_snake_case(this: &String) -> (snake: String)
    ensures snake@ == snake_spec(this@, true, this@.map_values(|c: char| up(c)) == this@)
{
        let mut snake = String::new();
        let is_uppercase = this.to_ascii_uppercase() == *this;
        let mut it = this.char_indices();
        let ghost allup = this@.map_values(|c: char| up(c)) == this@;
        proof { assert(snake@ + snake_spec(this@, true, allup) =~= snake_spec(this@, true, allup)); }
        loop
            invariant_except_break
                ci_pos(it) >= 0,
                snake@ + snake_spec(ci_rest(it), ci_pos(it) == 0, allup) =~= snake_spec(this@, true, allup),
            invariant
                is_uppercase == allup,
            ensures snake@ =~= snake_spec(this@, true, allup)
            decreases ci_rest(it).len()
        {
            match it.next() {
                Some((i, ch)) => {
                    if i > 0 && ch.is_uppercase() && !is_uppercase {
                        snake.push('_');
                    }
                    snake.push(ch.to_ascii_lowercase());
                }
                None => break,
            }
        }
        snake
}
} // verus!
fn main() {}
