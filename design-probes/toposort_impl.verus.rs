use vstd::prelude::*;
verus! {
pub assume_specification<T: PartialEq> [<[T]>::contains] (s: &[T], x: &T) -> (r: bool)
    ensures r == s@.contains(*x);

// ---------- spec vocabulary
pub open spec fn wf(g: Seq<Vec<usize>>) -> bool {
    forall|i: int, j: int| 0 <= i < g.len() && 0 <= j < g[i]@.len() ==> (#[trigger] g[i]@[j]) < g.len()
}
pub open spec fn all_lt(s: Seq<usize>, n: int) -> bool { forall|i: int| 0 <= i < s.len() ==> (#[trigger] s[i]) < n }
pub open spec fn nodup(s: Seq<usize>) -> bool { forall|i: int, j: int| 0 <= i < s.len() && 0 <= j < s.len() && i != j ==> s[i] != s[j] }
pub open spec fn disjoint(a: Seq<usize>, b: Seq<usize>) -> bool { forall|i: int, j: int| 0 <= i < a.len() && 0 <= j < b.len() ==> a[i] != b[j] }
pub open spec fn is_prefix(a: Seq<usize>, b: Seq<usize>) -> bool { a.len() <= b.len() && b.subrange(0, a.len() as int) == a }
pub open spec fn is_rank(g: Seq<Vec<usize>>, rank: Seq<nat>) -> bool {
    rank.len() == g.len()
    && forall|v: int, j: int| 0 <= v < g.len() && 0 <= j < g[v]@.len() ==> rank[(#[trigger] g[v]@[j]) as int] < rank[v]
}
pub open spec fn acyclic(g: Seq<Vec<usize>>) -> bool { exists|rank: Seq<nat>| is_rank(g, rank) }
pub open spec fn the_rank(g: Seq<Vec<usize>>) -> Seq<nat> { choose|rank: Seq<nat>| is_rank(g, rank) }
/// every processed node has all its dependencies strictly earlier in the sequence
pub open spec fn closed(g: Seq<Vec<usize>>, p: Seq<usize>) -> bool {
    forall|k: int, j: int| 0 <= k < p.len() && 0 <= j < g[p[k] as int]@.len()
        ==> p.subrange(0, k).contains(#[trigger] g[p[k] as int]@[j])
}
/// DFS stack has strictly decreasing rank and `nodes` are below the top
pub open spec fn stack_ok(g: Seq<Vec<usize>>, seen: Seq<usize>, nodes: Seq<usize>) -> bool {
    let r = the_rank(g);
    (forall|i: int, j: int| #![trigger seen[i], seen[j]] 0 <= i < j < seen.len() ==> r[seen[i] as int] > r[seen[j] as int])
    && (seen.len() > 0 ==> forall|k: int| 0 <= k < nodes.len() ==> r[(#[trigger] nodes[k]) as int] < r[seen[seen.len() - 1] as int])
}

// ---------- trusted outlined fragments (original expressions kept as bodies)
#[verifier::external_body]
fn outlined_position(seen: &Vec<usize>, dependant: &usize) -> (r: Option<usize>)
  ensures match r {
      Some(p) => p < seen@.len() && seen@[p as int] == *dependant && forall|j: int| 0 <= j < p ==> seen@[j] != *dependant,
      None => !seen@.contains(*dependant) }
{ seen.iter().position(|&other| other == *dependant) }

#[verifier::external_body]
fn outlined_range_collect(n: usize) -> (r: Vec<usize>)
  ensures r@ == range_seq(n as nat)
{ (0..n).collect() }
pub open spec fn range_seq(n: nat) -> Seq<usize> { Seq::new(n, |i: int| i as usize) }

// ---------- pigeonhole
pub open spec fn remove_val(s: Seq<usize>, v: usize) -> Seq<usize> { s.filter(|x: usize| x != v) }

proof fn lemma_len_le(s: Seq<usize>, n: int)
    requires nodup(s), all_lt(s, n), 0 <= n <= usize::MAX
    ensures s.len() <= n
    decreases n
{
    if s.len() == 0 { return; }
    if n == 0 { assert(s[0] < 0); return; }
    let v = (n - 1) as usize;
    if s.contains(v) {
        let idx = choose|i: int| 0 <= i < s.len() && s[i] == v;
        let t = s.remove(idx);
        assert forall|i: int| 0 <= i < t.len() implies (#[trigger] t[i]) < n - 1 by {
            let si = if i < idx { i } else { i + 1 };
            assert(t[i] == s[si]);
            assert(s[si] < n);
            if s[si] == v { assert(si == idx); }
        }
        assert(nodup(t)) by {
            assert forall|i: int, j: int| 0 <= i < t.len() && 0 <= j < t.len() && i != j implies t[i] != t[j] by {
                let si = if i < idx { i } else { i + 1 };
                let sj = if j < idx { j } else { j + 1 };
                assert(t[i] == s[si] && t[j] == s[sj]);
            }
        }
        lemma_len_le(t, n - 1);
    } else {
        assert forall|i: int| 0 <= i < s.len() implies (#[trigger] s[i]) < n - 1 by {
            assert(s[i] < n);
            if s[i] == v { assert(s.contains(v)); }
        }
        lemma_len_le(s, n - 1);
    }
}

proof fn lemma_len_eq(s: Seq<usize>, n: int)
    requires nodup(s), all_lt(s, n), 0 <= n <= usize::MAX, forall|v: usize| 0 <= v < n ==> s.contains(v)
    ensures s.len() == n
    decreases n
{
    if n == 0 { lemma_len_le(s, 0); return; }
    let v = (n - 1) as usize;
    assert(s.contains(v));
    let idx = choose|i: int| 0 <= i < s.len() && s[i] == v;
    let t = s.remove(idx);
    assert forall|i: int| 0 <= i < t.len() implies (#[trigger] t[i]) < n - 1 by {
        let si = if i < idx { i } else { i + 1 };
        assert(t[i] == s[si]);
        assert(s[si] < n);
        if s[si] == v { assert(si == idx); }
    }
    assert(nodup(t)) by {
        assert forall|i: int, j: int| 0 <= i < t.len() && 0 <= j < t.len() && i != j implies t[i] != t[j] by {
            let si = if i < idx { i } else { i + 1 };
            let sj = if j < idx { j } else { j + 1 };
            assert(t[i] == s[si] && t[j] == s[sj]);
        }
    }
    assert forall|w: usize| 0 <= w < n - 1 implies t.contains(w) by {
        assert(s.contains(w));
        let k = choose|i: int| 0 <= i < s.len() && s[i] == w;
        assert(k != idx);
        let tk = if k < idx { k } else { k - 1 };
        assert(t[tk] == w);
    }
    lemma_len_eq(t, n - 1);
}

#[allow(clippy::ptr_arg)] // Ignored due to false positive
fn toposort_impl(graph: &Vec<Vec<usize>>) -> (ret: Vec<usize>)
    requires wf(graph@)
    ensures
        ret@.len() == graph@.len(), nodup(ret@), all_lt(ret@, graph@.len() as int),
        acyclic(graph@) ==> closed(graph@, ret@),
{
    fn inner(
        graph: &Vec<Vec<usize>>,
        nodes: &Vec<usize>,
        res: &mut Vec<usize>,
        processed: &mut Vec<usize>,
        seen: &mut Vec<usize>,
    )
        requires
            wf(graph@), all_lt(nodes@, graph@.len() as int), graph@.len() <= usize::MAX,
            old(res)@ == old(processed)@,
            nodup(old(processed)@), all_lt(old(processed)@, graph@.len() as int),
            nodup(old(seen)@), all_lt(old(seen)@, graph@.len() as int),
            disjoint(old(seen)@, old(processed)@),
            acyclic(graph@) ==> stack_ok(graph@, old(seen)@, nodes@),
            acyclic(graph@) ==> closed(graph@, old(processed)@),
        ensures
            final(seen)@ == old(seen)@,
            final(res)@ == final(processed)@,
            is_prefix(old(processed)@, final(processed)@),
            nodup(final(processed)@), all_lt(final(processed)@, graph@.len() as int),
            disjoint(old(seen)@, final(processed)@),
            (old(seen)@.len() == 0 || acyclic(graph@)) ==> forall|k: int| 0 <= k < nodes@.len() ==> final(processed)@.contains(#[trigger] nodes@[k]),
            acyclic(graph@) ==> closed(graph@, final(processed)@),
        decreases graph@.len() - old(seen)@.len()
    {
        let ghost seen0 = seen@;
        let ghost proc0 = processed@;
        let ghost n = graph@.len() as int;
        proof {
            lemma_len_le(seen0, n);
            assert(proc0.subrange(0, proc0.len() as int) =~= proc0);
        }
        for dependant in it: nodes
            invariant
                seen0 == old(seen)@, proc0 == old(processed)@, n <= usize::MAX,
                n == graph@.len(), wf(graph@), all_lt(nodes@, n),
                seen@ == seen0, nodup(seen0), all_lt(seen0, n), seen0.len() <= n,
                res@ == processed@,
                is_prefix(proc0, processed@),
                nodup(processed@), all_lt(processed@, n),
                disjoint(seen0, processed@),
                acyclic(graph@) ==> stack_ok(graph@, seen0, nodes@),
                acyclic(graph@) ==> closed(graph@, processed@),
                (seen0.len() == 0 || acyclic(graph@)) ==> forall|k: int| 0 <= k < it.index@ ==> processed@.contains(#[trigger] nodes@[k]),
        {
            let ghost kidx = it.index@;
            let ghost proc1 = processed@;
            if !processed.contains(dependant) {
                if !seen.contains(dependant) {
                    seen.push(*dependant);
                } else {
                    // cycle
                    proof {
                        // unreachable when the stack is empty or the graph is acyclic
                        if acyclic(graph@) {
                            let r = the_rank(graph@);
                            let i = choose|i: int| 0 <= i < seen0.len() && seen0[i] == *dependant;
                            assert(nodes@[kidx] == *dependant);
                            assert(r[nodes@[kidx] as int] < r[seen0[seen0.len() - 1] as int]);
                            if i < seen0.len() - 1 {
                                assert(r[seen0[i] as int] > r[seen0[seen0.len() - 1] as int]);
                            }
                            assert(false);
                        }
                        assert(seen0.len() > 0);
                    }
                    return;
                }
                // recurse
                let dependencies = &graph[*dependant];
                proof {
                    let d = *dependant;
                    assert(seen@ == seen0.push(d));
                    assert(nodup(seen@)) by {
                        assert forall|i: int, j: int| 0 <= i < seen@.len() && 0 <= j < seen@.len() && i != j implies seen@[i] != seen@[j] by {
                            if i == seen0.len() { assert(seen0[j] != d) by { if seen0[j] == d { assert(seen0.contains(d)); } } }
                            else if j == seen0.len() { assert(seen0[i] != d) by { if seen0[i] == d { assert(seen0.contains(d)); } } }
                        }
                    }
                    assert(d < n);
                    assert(all_lt(seen@, n));
                    assert(disjoint(seen@, processed@)) by {
                        assert forall|i: int, j: int| 0 <= i < seen@.len() && 0 <= j < processed@.len() implies seen@[i] != processed@[j] by {
                            if i == seen0.len() { if processed@[j] == d { assert(processed@.contains(d)); } }
                        }
                    }
                    assert(all_lt(dependencies@, n));
                    if acyclic(graph@) {
                        let r = the_rank(graph@);
                        assert(is_rank(graph@, r));
                        assert(stack_ok(graph@, seen@, dependencies@)) by {
                            assert forall|i: int, j: int| #![trigger seen@[i], seen@[j]] 0 <= i < j < seen@.len() implies r[seen@[i] as int] > r[seen@[j] as int] by {
                                if j == seen0.len() {
                                    assert(r[nodes@[kidx] as int] < r[seen0[seen0.len() - 1] as int]);
                                    if i < seen0.len() - 1 { assert(r[seen0[i] as int] > r[seen0[seen0.len() - 1] as int]); }
                                }
                            }
                            assert forall|k: int| 0 <= k < dependencies@.len() implies r[(#[trigger] dependencies@[k]) as int] < r[seen@[seen@.len() - 1] as int] by {
                                assert(graph@[d as int]@[k] == dependencies@[k]);
                            }
                        }
                    }
                    lemma_len_le(seen@, n);
                }
                inner(graph, dependencies, res, processed, seen);
                if let Some(position) = outlined_position(seen, dependant) {
                    proof {
                        assert(seen@ == seen0.push(*dependant));
                        assert(position == seen0.len()) by {
                            if position < seen0.len() { assert(seen0[position as int] == *dependant); assert(seen0.contains(*dependant)); }
                        }
                    }
                    seen.remove(position);
                    proof { assert(seen@ =~= seen0); }
                } else {
                    proof { assert(seen@[seen0.len() as int] == *dependant); assert(false); }
                }
                let ghost proc2 = processed@;
                processed.push(*dependant);
                res.push(*dependant);
                proof {
                    let d = *dependant;
                    // d is not in proc2 because the recursive call kept seen0+[d] disjoint from processed
                    assert(!proc2.contains(d)) by {
                        if proc2.contains(d) {
                            let j = choose|j: int| 0 <= j < proc2.len() && proc2[j] == d;
                            assert(seen0.push(d)[seen0.len() as int] == d);
                        }
                    }
                    assert(nodup(processed@)) by {
                        assert forall|i: int, j: int| 0 <= i < processed@.len() && 0 <= j < processed@.len() && i != j implies processed@[i] != processed@[j] by {
                            if i == proc2.len() { if proc2[j] == d { assert(proc2.contains(d)); } }
                            else if j == proc2.len() { if proc2[i] == d { assert(proc2.contains(d)); } }
                        }
                    }
                    assert(is_prefix(proc0, processed@)) by {
                        assert(proc2.subrange(0, proc1.len() as int) == proc1);
                        assert(processed@.subrange(0, proc0.len() as int) =~= proc0);
                    }
                    assert(disjoint(seen0, processed@)) by {
                        assert forall|i: int, j: int| 0 <= i < seen0.len() && 0 <= j < processed@.len() implies seen0[i] != processed@[j] by {
                            if j == proc2.len() { if seen0[i] == d { assert(seen0.contains(d)); } }
                            else { assert(seen0.push(d)[i] == seen0[i]); }
                        }
                    }
                    if acyclic(graph@) {
                        assert(closed(graph@, processed@)) by {
                            assert forall|k: int, j: int| 0 <= k < processed@.len() && 0 <= j < graph@[processed@[k] as int]@.len()
                                implies processed@.subrange(0, k).contains(#[trigger] graph@[processed@[k] as int]@[j]) by {
                                if k < proc2.len() {
                                    assert(processed@.subrange(0, k) =~= proc2.subrange(0, k));
                                    assert(processed@[k] == proc2[k]);
                                } else {
                                    assert(processed@.subrange(0, k) =~= proc2);
                                    assert(dependencies@[j] == graph@[d as int]@[j]);
                                    assert(proc2.contains(dependencies@[j]));
                                }
                            }
                        }
                    }
                    if seen0.len() == 0 || acyclic(graph@) {
                        assert forall|k: int| 0 <= k < kidx + 1 implies processed@.contains(#[trigger] nodes@[k]) by {
                            if k < kidx {
                                assert(proc1.contains(nodes@[k]));
                                let q = choose|q: int| 0 <= q < proc1.len() && proc1[q] == nodes@[k];
                                assert(proc2.subrange(0, proc1.len() as int)[q] == proc1[q]);
                                assert(processed@[q] == nodes@[k]);
                            } else {
                                assert(processed@[proc2.len() as int] == d);
                            }
                        }
                    }
                }
            }
        }
    }
    let mut res = vec![];
    let mut seen = vec![];
    let mut processed = vec![];
    inner(
        graph,
        &outlined_range_collect(graph.len()),
        &mut res,
        &mut processed,
        &mut seen,
    );
    proof {
        let n = graph@.len() as int;
        assert(n <= usize::MAX);
        assert forall|v: usize| 0 <= v < n implies processed@.contains(v) by {
            assert(range_seq(n as nat)[v as int] == v);
        }
        lemma_len_eq(processed@, n);
    }
    res
}

} // verus!
fn main() {}
