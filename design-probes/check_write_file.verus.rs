use vstd::prelude::*;
verus! {
#[verifier::external_body] pub struct Path { _p: () }   // T7 opaque stand-in for Path
#[verifier::external_body] pub struct AnyhowError { _p: () }
#[verifier::external_body] pub struct IoError { _p: () }

/// abstract identity of a path
pub uninterp spec fn pid(p: &Path) -> int;

pub ghost struct FsLog {
    pub files: Map<int, Seq<u8>>,   // path id -> content (absent = no such file)
    pub writes: Seq<int>,           // path ids written, in order
    pub mkdirs: nat,
}

pub open spec fn others_untouched(a: Map<int, Seq<u8>>, b: Map<int, Seq<u8>>, id: int) -> bool {
    forall|k: int| k != id && #[trigger] a.dom().contains(k) ==> b.dom().contains(k) && b[k] == a[k]
}
// ---- outlined file-system calls (original expressions are the bodies); contracts are ASSUMED
#[verifier::external_body]
fn outlined_fs_read(outfile: &Path, Tracked(log): Tracked<&FsLog>) -> (r: Result<Vec<u8>, IoError>)
    ensures match r { Ok(buf) => log.files.dom().contains(pid(outfile)) && buf@ == log.files[pid(outfile)],
                      Err(_) => !log.files.dom().contains(pid(outfile)) }
{ unimplemented!() }

#[verifier::external_body]
fn outlined_parent<'a>(outfile: &'a Path) -> (r: Result<&'a Path, AnyhowError>)
{ unimplemented!() }
#[verifier::external_body]
fn outlined_exists(p: &Path) -> bool { unimplemented!() }
#[verifier::external_body]
fn outlined_create_dir_all(p: &Path, Tracked(log): Tracked<&mut FsLog>) -> (r: Result<(), AnyhowError>)
    ensures final(log).files == old(log).files, final(log).writes == old(log).writes
{ unimplemented!() }
#[verifier::external_body]
fn outlined_fs_write(outfile: &Path, output: Vec<u8>, Tracked(log): Tracked<&mut FsLog>) -> (r: Result<(), AnyhowError>)
    ensures
        r is Ok ==> final(log).files == old(log).files.insert(pid(outfile), output@),
        final(log).writes == old(log).writes.push(pid(outfile)),
        others_untouched(old(log).files, final(log).files, pid(outfile)),
{ unimplemented!() }

/// Write the file if the contents have changed.
fn check_write_file(outfile: &Path, output: Vec<u8>, Tracked(log): Tracked<&mut FsLog>) -> (res: Result<(), AnyhowError>)
    ensures
        // unchanged content: nothing is written at all (mtime preserved)
        (old(log).files.dom().contains(pid(outfile)) && old(log).files[pid(outfile)] == output@) ==> (res is Ok && *final(log) == *old(log)),
        // empty output never writes
        output@.len() == 0 ==> final(log).writes == old(log).writes && final(log).files == old(log).files,
        // at most one write, and only to outfile; other files untouched
        final(log).writes == old(log).writes || final(log).writes == old(log).writes.push(pid(outfile)),
        others_untouched(old(log).files, final(log).files, pid(outfile)),
        // success with changed, non-empty output: the file now holds exactly the output
        (res is Ok && output@.len() > 0) ==> (final(log).files.dom().contains(pid(outfile)) && final(log).files[pid(outfile)] == output@),
{
    match outlined_fs_read(outfile, Tracked(&*log)) {
        Ok(buf) if buf == output => {
            // avoid writing the file to leave the mtime intact
            // for tools which might use it to know when to
            // rebuild.
            return Ok(());
        }
        _ => {}
    }

    if !output.is_empty() {
        let out_dir = outlined_parent(outfile)?;
        // If the output directory doesn't already exist, create it.
        if !outlined_exists(out_dir) {
            outlined_create_dir_all(out_dir, Tracked(log))?;
        }

        outlined_fs_write(outfile, output, Tracked(log))?;
    }
    Ok(())
}
} // verus!
fn main() {}
