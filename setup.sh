#!/bin/sh
# offline setup: nothing to build ahead of time - every check regenerates its units from /repo.
# We only verify the tools are present and warm the Verus/vstd load once.
set -e
cd "$(dirname "$0")"
command -v verus >/dev/null || { echo "verus not on PATH"; exit 1; }
command -v python3 >/dev/null || { echo "python3 missing"; exit 1; }
mkdir -p "${VERIF_WORK:-/var/tmp/typeshare-verif}" evidence replays
chmod +x check tools/*.py 2>/dev/null || true
echo "setup ok"
