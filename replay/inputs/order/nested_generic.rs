#[typeshare]
pub struct Alpha { pub f: Outer<Vec<Beta>> }
#[typeshare]
pub struct Beta { pub x: u32 }
#[typeshare]
pub struct Outer<T> { pub t: T }
