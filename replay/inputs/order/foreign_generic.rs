#[typeshare]
pub struct Alpha { pub f: Foreign<Beta> }
#[typeshare]
pub struct Beta { pub x: u32 }
