#[typeshare]
pub struct Alpha<'a> { pub items: &'a [Beta] }
#[typeshare]
pub struct Beta { pub x: u32 }
