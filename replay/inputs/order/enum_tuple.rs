#[typeshare]
#[serde(tag = "t", content = "c")]
pub enum Alpha { V(Beta) }
#[typeshare]
#[serde(tag = "t", content = "c")]
pub enum Beta { W(String) }
