#[typeshare]
pub struct Alpha { pub f: Beta, pub g: Vec<Gamma> }
#[typeshare]
pub struct Beta { pub x: Option<Gamma> }
#[typeshare]
pub struct Gamma { pub x: u32 }
