#[typeshare]
pub struct Alpha { pub items: [Beta; 2] }
#[typeshare]
pub struct Beta { pub x: u32 }
