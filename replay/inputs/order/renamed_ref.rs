#[typeshare]
pub struct Alpha { pub f: Beta }
#[typeshare]
#[serde(rename = "BetaRenamed")]
pub struct Beta { pub x: u32 }
