#[typeshare]
#[serde(rename = "Bar")]
pub struct Foo<T> { pub t: T }
#[typeshare]
#[serde(rename = "PlainRenamed")]
pub struct Plain { pub x: u32 }
#[typeshare]
pub struct User { pub f: Foo<u32>, pub g: Vec<Plain>, pub h: Foo<Plain> }
