#[typeshare]
pub struct Mid { pub k: Kind }
