#[typeshare]
pub struct Zed { pub a: u32 }
#[typeshare]
pub enum Kind { A, B }
