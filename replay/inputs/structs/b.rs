#[typeshare]
pub struct Alpha { pub z: Zed }
#[typeshare]
pub type Al = Vec<Alpha>;
