#[typeshare]
pub const BETA: u32 = 2;
