#[typeshare]
pub const ALPHA: u32 = 1;
