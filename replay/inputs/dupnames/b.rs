#[typeshare]
pub struct Same { pub b: String }
