#[typeshare]
pub struct Same { pub a: u32 }
