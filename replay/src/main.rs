//! Replays concrete inputs against the REAL typeshare crates (path dependencies on /repo) — used for known-finding
//! witnesses and for end-to-end replays of counterexamples.  It never decides a property.
#[allow(dead_code)]
#[path = "../../vendor/serde_derive-1.0.214/case.rs"]
mod case;

use std::panic;
use typeshare_core::context::{ParseContext, ParseFileContext};
use typeshare_core::language::CrateName;
use typeshare_core::parser::{parse, ParsedData};

fn parse_src(src: &str) -> Option<ParsedData> {
    let ctx = ParseContext::default();
    parse(
        &ctx,
        ParseFileContext {
            source_code: src.to_string(),
            crate_name: CrateName::from("c".to_string()),
            file_name: "f.rs".into(),
            file_path: "f.rs".into(),
        },
    )
    .ok()
    .flatten()
}

/// typeshare's name for `ident` in field / variant position under `rule`, through the public parser
fn typeshare_rename(rule: &str, pos: &str, ident: &str) -> Result<String, String> {
    let src = if pos == "field" {
        format!("#[typeshare]\n#[serde(rename_all = \"{rule}\")]\nstruct S {{ {ident}: u8 }}\n")
    } else {
        format!("#[typeshare]\n#[serde(rename_all = \"{rule}\")]\nenum E {{ {ident} }}\n")
    };
    let r = panic::catch_unwind(|| parse_src(&src));
    match r {
        Err(_) => Err("typeshare panicked".into()),
        Ok(None) => Err("typeshare produced no data (parse error)".into()),
        Ok(Some(d)) => {
            if pos == "field" {
                d.structs.first().and_then(|s| s.fields.first()).map(|f| f.id.renamed.clone()).ok_or("no field".into())
            } else {
                d.enums.first().and_then(|e| e.shared().variants.first().map(|v| v.shared().id.renamed.clone())).ok_or("no variant".into())
            }
        }
    }
}

fn serde_rename(rule: &str, pos: &str, ident: &str) -> Result<String, String> {
    let ident = ident.strip_prefix("r#").unwrap_or(ident).to_string();
    let rule = match case::RenameRule::from_str(rule) { Ok(r) => r, Err(_) => return Ok(ident) };
    let pos = pos.to_string();
    panic::catch_unwind(move || if pos == "field" { rule.apply_to_field(&ident) } else { rule.apply_to_variant(&ident) })
        .map_err(|_| "serde_derive's case.rs panicked (rustc would reject the derive)".to_string())
}

fn main() {
    panic::set_hook(Box::new(|_| {}));
    let a: Vec<String> = std::env::args().collect();
    match a.get(1).map(|s| s.as_str()) {
        Some("rename") => {
            // rename <rule> <field|variant> <ident>  -> exit 1 when typeshare and serde disagree (or typeshare panics)
            let (t, s) = (typeshare_rename(&a[2], &a[3], &a[4]), serde_rename(&a[2], &a[3], &a[4]));
            println!("{{\"rule\": {:?}, \"position\": {:?}, \"ident\": {:?}, \"typeshare\": {:?}, \"serde\": {:?}}}", a[2], a[3], a[4], t, s);
            let bad = match (&t, &s) { (Ok(x), Ok(y)) => x != y, (Err(_), _) => true, (Ok(_), Err(_)) => false };
            std::process::exit(if bad { 1 } else { 0 });
        }
        _ => { eprintln!("usage: verif-replay rename <rule> <field|variant> <ident>"); std::process::exit(2); }
    }
}
